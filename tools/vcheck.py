#!/usr/bin/env python3
"""vcheck -- run the contract obligations of one property.

  vcheck.py <PROPERTY> [--tier quick|thorough] [--jobs a,b] [--keep]

exit 0: every obligation discharged (listed known findings reproduced as listed)
exit 1: an obligation that is not a listed finding failed   -> VIOLATION lines
exit 2: undecided (extraction abort, vacuity, timeout, tool error) -> UNDECIDED line, never a VIOLATION
"""
import sys, os, json, re, time, subprocess, shutil, resource, traceback, hashlib
from concurrent.futures import ThreadPoolExecutor

HERE = os.path.dirname(os.path.abspath(__file__))
ROOT = os.path.dirname(HERE)
sys.path.insert(0, HERE)
import cxx2c  # noqa

STUBS = os.path.join(ROOT, 'stubs')
GROUPS = os.path.join(ROOT, 'groups')
CBMC_BASE = ['--no-standard-checks', '--bounds-check', '--pointer-check', '--div-by-zero-check', '--undefined-shift-check',
             '--json-ui', '--trace', '--no-malloc-may-fail']


class Undecided(Exception):
    pass


def sh(cmd, timeout=None, mem_gb=None, cwd=None, stdin=None):
    def lim():
        if mem_gb:
            b = int(mem_gb * (1 << 30))
            resource.setrlimit(resource.RLIMIT_AS, (b, b))
    t0 = time.time()
    try:
        p = subprocess.run(cmd, stdout=subprocess.PIPE, stderr=subprocess.PIPE, text=True, timeout=timeout, cwd=cwd,
                           preexec_fn=lim, input=stdin)
        return p.returncode, p.stdout, p.stderr, time.time() - t0
    except subprocess.TimeoutExpired as e:
        return -9, (e.stdout or b'').decode() if isinstance(e.stdout, bytes) else (e.stdout or ''), 'TIMEOUT', time.time() - t0


def load_group(name):
    path = os.path.join(GROUPS, name, 'group.py')
    g = {}
    exec(compile(open(path).read(), path, 'exec'), g)
    G = g['GROUP']
    G['name'] = name
    G['dir'] = os.path.join(GROUPS, name)
    return G


def all_groups():
    out = []
    for n in sorted(os.listdir(GROUPS)):
        if os.path.exists(os.path.join(GROUPS, n, 'group.py')):
            out.append(load_group(n))
    return out


def parse_loop_contracts(spec_path, unit_names):
    """//@loop <cname> <ordinal>  ... //@end   blocks inside the spec header"""
    res = {}
    if not os.path.exists(spec_path):
        return res
    cur = None
    for line in open(spec_path):
        m = re.match(r'\s*//@loop\s+(\S+)\s+(\d+)', line)
        if m:
            cur = (m.group(1), int(m.group(2)))
            res[cur] = ''
            continue
        if re.match(r'\s*//@end', line):
            cur = None
            continue
        if cur is not None:
            res[cur] += re.sub(r'^\s*//@\s?', '', line)
    return res


# ------------------------------------------------------------------------------------------------
# building a group: clang AST -> C
# ------------------------------------------------------------------------------------------------

def build_group(G, bdir, log):
    os.makedirs(bdir, exist_ok=True)
    t0 = time.time()
    driver = os.path.join(G['dir'], G.get('driver', 'driver.cpp'))
    astf = os.path.join(bdir, 'ast.json')
    cxx2c.run_clang_ast(driver, astf, extra=G.get('clang_flags', ()))
    docs = cxx2c.load_docs(astf)
    ix = cxx2c.Index(docs)
    cfg = cxx2c.Config()
    cfg.extern = set(cxx2c.norm_name(x) for x in G.get('extern', ()))
    cfg.extern_re = list(G.get('extern_re', ()))
    cfg.drop_calls = set(cxx2c.norm_name(x) for x in G.get('drop_calls', ()))
    cfg.outside_methods = {k: set(v) for k, v in G.get('outside_methods', {}).items()}
    cfg.opaque_records = set(G.get('opaque_records', ()))
    cfg.field_alias = dict(G.get('field_alias', {}))
    cfg.scalar_records = dict(G.get('scalar_records', {}))
    cfg.outside_funcs = dict(G.get('outside_funcs', {}))
    cfg.address_model = bool(G.get('address_model', False))
    cfg.extra_structs = {cxx2c.norm_name(a): b for a, b in G.get('extra_structs', {}).items()}
    cfg.trivial_copy = set(cxx2c.norm_name(x) for x in G.get('trivial_copy', ()))
    cfg.type_aliases = {cxx2c.norm_name(a): b for a, b in G.get('type_aliases', {}).items()}
    cfg.aliases = [(cxx2c.norm_name(a), b) for a, b in G.get('aliases', ())]
    for hook in ('std_call_hook', 'member_call_hook', 'operator_call_hook'):
        if hook in G:
            setattr(cfg, hook, G[hook])
    cfg.opaque_sizes = opaque_sizes(G, bdir, driver)
    spec = os.path.join(G['dir'], G.get('spec', 'spec.h'))
    cfg.loop_contracts = {k: v for k, v in parse_loop_contracts(spec, None).items() if k[0] not in G.get('_drop_loops_for', ())}
    u = cxx2c.Unit(ix, cfg)
    names = {}
    for r in G['roots']:
        if isinstance(r, str):
            r = {'name': r}
        if 'lambda_in' in r:
            got = u.add_lambda_root(r['lambda_in'], r.get('file'), r.get('line'), r.get('ordinal'), r.get('overload'))
            names[r.get('as', 'lambda@%s:%s:%s' % (r['lambda_in'], r.get('file', ''), r.get('ordinal', r.get('line'))))] = got
            continue
        got = u.add_root(r['name'], sig=r.get('sig'), targs=r.get('targs'))
        names[r.get('as', r['name'])] = got
    u.run()
    for rn in G.get('complete_records', ()):
        u.need_struct(cxx2c.norm_name(rn))
    unused = set(cfg.loop_contracts) - getattr(cfg, 'loop_contracts_used', set())
    # a loop contract for a function that is still there but has fewer loops now: the function contract is still enforced
    # (on the loop-free / shorter body); anything else (function gone, renamed) stays an extraction abort
    nloops = {f['c']: f['loops'] for f in u.report['functions']}
    G['_lost_loops'] = set()
    for (fn, k) in sorted(unused):
        if fn in nloops and nloops[fn] < k:
            print('NOTE loop contract %s #%d matched no loop: the function has %d loop(s) now' % (fn, k, nloops[fn]))
            G['_lost_loops'].add(fn)
            unused.discard((fn, k))
    if unused:
        raise cxx2c.Abort('loop contracts that matched no loop (function renamed or loop removed?): %s' % sorted(unused))
    gen = os.path.join(bdir, 'gen.c')
    with open(gen, 'w') as f:
        f.write(u.render(spec_include=os.path.basename(spec) if os.path.exists(spec) else None))
    os.remove(astf)
    # layout self-check: the C structs cxx2c assumed have clang's C++ layout
    layout_check(G, u, bdir, driver)
    compiler_skew_check(G, u)
    log['groups'][G['name']] = {'functions_under_lowering': u.report['functions'], 'externs': u.report['externs'],
                                'records': u.report['records'], 'atomic_sites': len(u.report['atomic_sites']),
                                'lower_s': round(time.time() - t0, 2)}
    return u, gen


def opaque_sizes(G, bdir, driver):
    """records a group treats as opaque blobs when they are held by value: size and alignment come from clang"""
    names = list(G.get('opaque_by_value', ()))
    if not names:
        return {}
    src = os.path.join(bdir, 'opaque.cpp')
    lines = ['#include "%s"' % driver, 'extern "C" { extern const unsigned long vf_sizes[]; const unsigned long vf_sizes[] = {']
    for i, n in enumerate(names):
        lines.append('  sizeof(%s), alignof(%s),' % (n, n))
    lines.append('  0xABCDEF }; }')
    open(src, 'w').write('\n'.join(lines) + '\n')
    rc, out, err, _ = sh(['clang++', '-std=gnu++20', '-DNDEBUG', '-fno-access-control', '-I' + cxx2c.REPO + '/src', '-isystem', '/root/miniconda/include',
                          '-Wno-everything', '-S', '-O0', src, '-o', '-'], timeout=300)
    if rc != 0:
        raise cxx2c.Abort('opaque size probe does not compile:\n' + err[-2000:])
    vals = []
    on = False
    for line in out.split('\n'):
        t = line.strip()
        if t.startswith('vf_sizes:'):
            on = True
            continue
        if on:
            m = re.match(r'\.quad\s+(\d+)', t)
            if m:
                vals.append(int(m.group(1)))
            elif t and not t.startswith('.'):
                break
            elif t.startswith('.size'):
                break
    if len(vals) != 2 * len(names) + 1 or vals[-1] != 0xABCDEF:
        raise cxx2c.Abort('opaque size probe: could not read the constants back (%d values)' % len(vals))
    os.remove(src)
    return {cxx2c.norm_name(n): (vals[2 * i], vals[2 * i + 1]) for i, n in enumerate(names)}


def layout_check(G, u, bdir, driver):
    """the C structs cxx2c emitted must have exactly clang's C++ layout: sizes and offsets are measured on the
    C side (gcc, native program over the struct definitions only) and asserted on the C++ side
    (clang -fsyntax-only static_asserts against the real classes, -fno-access-control)."""
    csrc = os.path.join(bdir, 'layout_c.c')
    lines = [u.render_types(), '#include <stdio.h>', 'int main(void) {']
    n = 0
    for name, sn, checks, rec in u.layout_checks:
        lines.append('  printf("S\\t%s\\t%%zu\\n", sizeof(struct %s));' % (name, sn))
        for cxxf, cf in checks:
            lines.append('  printf("O\\t%s\\t%s\\t%%zu\\n", offsetof(struct %s, %s));' % (name, cxxf, sn, cf))
    lines.append('  return 0; }')
    open(csrc, 'w').write('\n'.join(lines) + '\n')
    exe = os.path.join(bdir, 'layout_c.exe')
    rc, out, err, _ = sh(['gcc', '-std=gnu11', '-w', csrc, '-o', exe], timeout=120)
    if rc != 0:
        raise cxx2c.Abort('layout self-check: C side does not compile:\n' + err[-3000:])
    rc, out, err, _ = sh([exe], timeout=60)
    cpp = ['#include "%s"' % driver, '#include <cstddef>', '#pragma clang diagnostic ignored "-Winvalid-offsetof"']
    alias = {}
    for line in out.split('\n'):
        p = line.split('\t')
        if len(p) < 3:
            continue
        if '(lambda' in p[1] or '(anonymous' in p[1]:
            continue
        if p[1] in G.get('layout_unspellable', ()):
            continue    # a type clang's name printer spells in a way that does not parse back (non-type argument of enum type); listed by the group
        if p[1] not in alias:
            alias[p[1]] = 'vf_T%d' % len(alias)
            cpp.append('using %s = ::%s;' % (alias[p[1]], p[1]))
        t = alias[p[1]]
        if p[0] == 'S':
            cpp.append('static_assert(sizeof(%s) == %s, "cxx2c layout: sizeof %s");' % (t, p[2], p[1]))
            n += 1
        else:
            cpp.append('static_assert(offsetof(%s, %s) == %s, "cxx2c layout: offsetof %s::%s");' % (t, p[2], p[3], p[1], p[2]))
            n += 1
    src = os.path.join(bdir, 'layout.cpp')
    open(src, 'w').write('\n'.join(cpp) + '\n')
    rc, out, err, _ = sh(['clang++', '-std=gnu++20', '-DNDEBUG', '-fno-access-control', '-I' + cxx2c.REPO + '/src', '-isystem', '/root/miniconda/include',
                          '-Wno-everything', '-fsyntax-only', src], timeout=300)
    if rc != 0:
        raise cxx2c.Abort('layout self-check failed (C struct layout differs from clang C++ layout):\n' + err[-3000:])
    for f in (src, exe, csrc):
        if os.path.exists(f):
            os.remove(f)
    u.report['layout_checks'] = n
    return n


def compiler_skew_check(G, u):
    files = set(f['file'] for f in u.report['functions'] if f.get('file'))
    found = []
    for fn in sorted(files):
        if not fn or not os.path.exists(fn):
            continue
        for i, line in enumerate(open(fn, errors='replace'), 1):
            if re.search(r'^\s*#\s*(if|elif).*(__clang__|__GNUC__|GCC_VERSION|__GNUC_MINOR__)', line):
                found.append('%s:%d:%s' % (os.path.relpath(fn, cxx2c.REPO), i, line.strip()))
    reviewed = set(G.get('reviewed_compiler_conditionals', ()))
    new = [x for x in found if re.sub(r':\d+:', ':', x) not in reviewed]
    if new:
        raise cxx2c.Abort('compiler-dependent conditional not reviewed for clang/g++ skew: %s' % new)


# ------------------------------------------------------------------------------------------------
# one job = one DFCC harness
# ------------------------------------------------------------------------------------------------

def auto_harness(u, job):
    fn = job['enforce']
    proto = u.protos.get(fn)
    if proto is None:
        raise cxx2c.Abort('job %s: function %s was not lowered' % (job['id'], fn))
    m = re.match(r'^(.*?)\b%s\((.*)\);$' % re.escape(fn), proto, re.S)
    params = split_params(m.group(2))
    lines = ['void vf_harness(void) {']
    args = []
    for i, p in enumerate(params):
        if p.strip() == 'void':
            continue
        # declare a local with the parameter's declarator, renamed
        decl = re.sub(r'\b(\w+)(\s*(\[\d*\])*\s*(\)\s*\(.*\))?)$', lambda mm: 'a%d%s' % (i, mm.group(2)), p.strip(), count=1)
        if decl == p.strip():
            decl = p.strip() + ' a%d' % i
        lines.append('  %s;' % decl)
        args.append('a%d' % i)
    if job.get('havoc_ghosts', True) and job.get('_has_havoc'):
        lines.append('  vf_havoc_ghosts();')
    lines.append('  %s(%s);' % (fn, ', '.join(args)))
    lines.append('  __CPROVER_assert(0, "VF_VACUITY_TWIN function returns under its precondition (must fail)");')
    # reachability covers: each expression (over entry values the function does not change) must be satisfiable together with the
    # precondition on a path where the function returns -- guards against preconditions / ghost setups that silently collapse a
    # domain (e.g. a list length forced to 0).  Like the twin, each of these assertions must FAIL.
    for k, c in enumerate(job.get('covers', ())):
        lines.append('  __CPROVER_assert(!(%s), "VF_COVER %d: the function returns with (%s) (must fail)");' % (c, k, c.replace('"', "'")))
    lines.append('}')
    return '\n'.join(lines)


def split_params(s):
    out, d, cur = [], 0, ''
    for ch in s:
        if ch == '(':
            d += 1
        elif ch == ')':
            d -= 1
        if ch == ',' and d == 0:
            out.append(cur)
            cur = ''
        else:
            cur += ch
    if cur.strip():
        out.append(cur)
    return out


_HEAVY = __import__('threading').Lock()


def run_job(G, u, gen, bdir, job, tier):
    # jobs that need most of the machine's memory (mem_gb >= 30) run one at a time: three of them in parallel ran each other out of memory
    if job.get('mem_gb', 0) >= 30:
        with _HEAVY:
            return _run_job(G, u, gen, bdir, job, tier)
    return _run_job(G, u, gen, bdir, job, tier)


def _run_job(G, u, gen, bdir, job, tier):
    jid = job['id']
    jd = os.path.join(bdir, 'jobs', re.sub(r'\W', '_', jid))
    os.makedirs(jd, exist_ok=True)
    res = {'id': jid, 'group': G['name'], 'enforce': job.get('enforce'), 'status': 'undecided', 'props': [], 'time_s': 0.0,
           'backend': job.get('backend', 'sat'), 'bounded': job.get('bounded'), 'kind': job.get('kind', 'contract')}
    src = os.path.join(jd, 'job.c')
    harness = job.get('harness')
    with open(src, 'w') as f:
        for d in job.get('defines', ()):
            f.write('#define %s\n' % d)
        if job.get('enforce'):
            f.write('#define VF_ENFORCE_%s 1\n' % job['enforce'])
        if job.get('loops'):
            f.write('#define VF_LOOPS_APPLIED 1\n')
        f.write('#include "%s"\n' % gen)
        if harness is None:
            job = dict(job)
            job['_has_havoc'] = 'vf_havoc_ghosts' in open(os.path.join(G['dir'], G.get('spec', 'spec.h'))).read()
            f.write(auto_harness(u, job) + '\n')
            harness = 'vf_harness'
    t0 = time.time()
    gb = os.path.join(jd, 'a.gb')
    rc, out, err, _ = sh(['goto-cc', '-I', STUBS, '-I', G['dir'], '--function', harness, src, '-o', gb], timeout=300)
    if rc != 0:
        res['reason'] = 'goto-cc failed: ' + (err or out)[-2000:]
        return res
    gb2 = os.path.join(jd, 'b.gb')
    if job.get('enforce') or job.get('replace'):
        cmd = ['goto-instrument', '--dfcc', harness]
        if job.get('enforce'):
            cmd += ['--enforce-contract', job['enforce']]
        for r in job.get('replace', ()):
            cmd += ['--replace-call-with-contract', r]
        if job.get('loops', False):
            cmd += ['--apply-loop-contracts']
        cmd += [gb, gb2]
        rc, out, err, _ = sh(cmd, timeout=600, mem_gb=16)
        open(os.path.join(jd, 'instrument.log'), 'w').write(out + err)
        if rc != 0:
            res['reason'] = 'goto-instrument failed: ' + (out + err)[-3000:]
            return res
        if job.get('loops') and 'loop' in (out + err) and re.search(r'(?i)loop contract.*(ignored|dropp|skip)', out + err):
            res['reason'] = 'goto-instrument dropped a loop contract'
            return res
    else:
        gb2 = gb
    cmd = ['cbmc', gb2] + CBMC_BASE + ['--object-bits', str(job.get('object_bits', 8))] + list(job.get('flags', ()))
    if job.get('unwind'):
        cmd += ['--unwind', str(job['unwind'])] + (['--no-unwinding-assertions', '--stop-on-fail'] if job.get('_refute') else ['--unwinding-assertions'])
    be = job.get('backend', 'sat')
    if be == 'cvc5':
        cmd += ['--cvc5']
    elif be == 'z3':
        cmd += ['--z3']
    elif be == 'kissat':
        cmd += ['--external-sat-solver', 'kissat']
    elif be == 'cadical':
        cmd += ['--sat-solver', 'cadical']
    tmo = job.get('timeout', 120 if tier == 'quick' else 900)
    mem = job.get('mem_gb', 12 if tier == 'quick' else 14)
    rc, out, err, secs = sh(cmd, timeout=tmo, mem_gb=mem)
    res['time_s'] = round(time.time() - t0, 2)
    res['solver_s'] = round(secs, 2)
    res['cmd'] = ' '.join(cmd)
    open(os.path.join(jd, 'cbmc.json'), 'w').write(out)
    if rc == -9:
        res['reason'] = 'timeout after %ss' % tmo
        return res
    try:
        data = json.loads(out)
    except Exception:
        res['reason'] = 'cbmc output unreadable (rc=%s): %s' % (rc, (out[-1500:] + err[-1500:]))
        return res
    props = []
    warnings = []
    status = None
    for x in data:
        if 'result' in x:
            props = x['result']
        elif 'property' in x and 'status' in x and 'trace' in x:
            # --stop-on-fail (refutation runs): the one failed property is reported on its own
            y = dict(x)
            y['status'] = 'FAILURE' if str(x['status']).lower().startswith('fail') else x['status']
            locs = [st.get('sourceLocation') for st in x['trace'] if st.get('sourceLocation')]
            y.setdefault('sourceLocation', locs[-1] if locs else {})
            props = props + [y]
        if x.get('messageType') in ('WARNING', 'ERROR'):
            warnings.append(x.get('messageText', ''))
        if 'cProverStatus' in x:
            status = x['cProverStatus']
    if status is None or not props:
        res['reason'] = 'cbmc produced no result (rc=%s): %s' % (rc, ' | '.join(warnings)[-2000:] + err[-500:])
        return res
    nobody = [w for w in warnings if 'no body for function' in w]
    allowed = set(job.get('allow_no_body', ())) | set(G.get('allow_no_body', ()))
    bad = []
    for w in nobody:
        m = re.search(r'no body for function (\S+)', w)
        if m and m.group(1) not in allowed and not m.group(1).startswith('nondet_') and not m.group(1).startswith('__CPROVER'):
            bad.append(m.group(1))
    if bad:
        res['reason'] = 'functions reached without body, contract or stub: %s' % sorted(set(bad))
        return res
    if any('ignoring forall' in w or 'ignoring exists' in w for w in warnings):
        res['reason'] = 'back end ignored a quantifier'
        return res
    speclines = {}
    out_props = []
    twin_seen = False
    twin_failed = False
    covers_missed = []
    other_harnesses = set(j.get('harness') for j in G['jobs'] if j.get('harness')) - {harness}
    for p in props:
        desc = p.get('description', '')
        st = p.get('status')
        loc = p.get('sourceLocation', {})
        if loc.get('function') in other_harnesses:
            continue    # assertions of other lemma harnesses in the same TU are unreachable here: not this job's obligations
        item = {'property': p.get('property'), 'description': desc, 'status': st, 'file': os.path.basename(loc.get('file', '')),
                'line': loc.get('line'), 'function': loc.get('function')}
        if 'VF_VACUITY_TWIN' in desc:
            twin_seen = True
            twin_failed = (st == 'FAILURE')
            item['twin'] = True
        if 'VF_COVER' in desc:
            item['twin'] = True
            if st != 'FAILURE':
                covers_missed.append(desc)
        if st == 'FAILURE' and 'trace' in p and 'VF_VACUITY_TWIN' not in desc and 'VF_COVER' not in desc:
            item['inputs'] = extract_inputs(p['trace'], harness)
            item['trace_len'] = len(p['trace'])
        # text of the clause for readable obligation names
        fn = loc.get('file')
        if fn and loc.get('line') and ('ensures' in desc or 'requires' in desc or 'invariant' in desc):
            key = (fn, int(loc['line']))
            if key not in speclines:
                try:
                    cand = fn if os.path.isabs(fn) else os.path.join(os.path.dirname(src), fn)
                    if not os.path.exists(cand):
                        cand = os.path.join(G['dir'], os.path.basename(fn))
                    speclines[key] = open(cand).read().split('\n')[int(loc['line']) - 1].strip()
                except Exception:
                    speclines[key] = ''
            item['clause'] = speclines[key][:300]
        out_props.append(item)
    res['props'] = out_props
    res['twin_seen'], res['twin_failed'] = twin_seen, twin_failed
    if job.get('loops') and job.get('enforce') not in G.get('_lost_loops', ()):
        if not any('loop_invariant_base' in (p.get('property') or '') or 'loop invariant' in p.get('description', '').lower() for p in props):
            res['reason'] = 'loop contracts requested but no loop-invariant obligations were generated'
            return res
    nobody_hit = [p for p in out_props if p['status'] == 'FAILURE' and 'undefined function should be unreachable' in p['description']]
    if nobody_hit:
        # the lowered code reaches a function for which the group has neither body, contract nor stub: the model does not
        # cover this code (e.g. a new atomic operation) -> undecided, never a violation
        res['reason'] = 'functions reached without body, contract or stub: %s' % sorted(set(p['function'] or p['property'] for p in nobody_hit))
        return res
    hname = job.get('harness')
    short = [p for p in out_props if p['status'] == 'FAILURE' and hname and (p.get('property') or '').startswith(hname + '.unwind.')]
    if short:
        # an unwinding assertion of a loop of the harness itself: the job's bound is too small for its own parameters,
        # which says nothing about the code under test -> undecided, never a violation
        res['reason'] = 'the harness loop bound (--unwind %s) is too small: %s' % (job.get('unwind'), sorted(p['property'] for p in short))
        return res
    other = [p for p in out_props if p['status'] not in ('SUCCESS', 'FAILURE')]
    real_fail = [p for p in out_props if p['status'] == 'FAILURE' and not p.get('twin')]
    if other and not real_fail:
        res['reason'] = 'properties with status %s (%s)' % (sorted(set(p['status'] for p in other)), ' | '.join(w for w in warnings if 'memory' in w or 'rror' in w)[:300])
        return res
    if real_fail:
        # decided failures stand even if the solver gave up on other properties afterwards
        res['props'] = [p for p in out_props if p['status'] in ('SUCCESS', 'FAILURE')]
        res['undecided_props'] = len(other)
        res['status'] = 'failed'
        return res
    if not twin_seen and not job.get('no_twin'):
        res['reason'] = 'vacuity twin assertion missing from harness'
        return res
    if twin_seen and not twin_failed:
        res['reason'] = 'vacuous: the function cannot return under its precondition (twin assertion did not fail)'
        res['status'] = 'vacuous'
        return res
    if covers_missed:
        res['reason'] = 'vacuous in part: a cover is unreachable under the precondition: %s' % ' | '.join(covers_missed)[:600]
        res['status'] = 'vacuous'
        return res
    res['covers'] = len(job.get('covers', ()))
    res['status'] = 'passed'
    return res


def try_refute(G, job, bdir, tier, why):
    """refutation fallback: the loop contracts of job['enforce'] no longer fit the code (restructured loop).  The function contract
    cannot be proved without them, but it can still be REFUTED: rebuild the group without these loop contracts and run the same
    contract job bounded (--unwind N, paths beyond the bound cut by assumption).  A counterexample found this way is a real
    execution of the lowered function under its precondition that breaks an obligation -> violation; none found -> still undecided."""
    G2 = dict(G)
    G2['_drop_loops_for'] = {job['enforce']}
    gb = os.path.join(bdir, G['name'] + '_refute_' + re.sub(r'\W', '_', job['id']))
    try:
        u, gen = build_group(G2, gb, {'groups': {}})
    except Exception:
        return None
    j2 = dict(job)
    j2.update(loops=False, unwind=job['refute_unwind'], _refute=True, id=job['id'] + '.refute', no_twin=True,
              timeout=job.get('refute_timeout', 900), mem_gb=job.get('refute_mem_gb', 20))
    r = run_job(G2, u, gen, gb, j2, tier)
    if r['status'] != 'failed':
        return None
    r['refuted_after'] = why
    return r


def extract_inputs(trace, harness):
    """last value of every harness local / global assigned in the harness or by contract pre-state set-up"""
    vals = {}
    for st in trace:
        if st.get('stepType') != 'assignment' or st.get('hidden'):
            continue
        lhs = st.get('lhs', '')
        if lhs.startswith('__') or '$' in lhs and not lhs.startswith('dynamic_object'):
            continue
        fn = st.get('sourceLocation', {}).get('function')
        v = st.get('value', {})
        data = v.get('data')
        if data is None:
            continue
        if fn == harness or lhs.startswith('g_') or lhs.startswith('vf_g_'):
            vals[lhs] = data
    return vals


# ------------------------------------------------------------------------------------------------
# property level
# ------------------------------------------------------------------------------------------------

def load_findings():
    path = os.path.join(ROOT, 'known_findings.jsonl')
    out = []
    if os.path.exists(path):
        for line in open(path):
            line = line.strip()
            if line and not line.startswith('#'):
                out.append(json.loads(line))
    return out


def main():
    if len(sys.argv) < 2:
        print(__doc__)
        return 2
    prop = sys.argv[1]
    tier = os.environ.get('VERIF_TIER', 'quick')
    only = None
    keep = False
    a = sys.argv[2:]
    while a:
        x = a.pop(0)
        if x == '--tier':
            tier = a.pop(0)
        elif x == '--jobs':
            only = set(a.pop(0).split(','))
        elif x == '--keep':
            keep = True
    seed = int(os.environ.get('VERIF_SEED', '0') or 0)
    t0 = time.time()
    bdir = os.environ.get('VERIF_BUILD', os.path.join(ROOT, '.build', prop))
    if os.path.exists(bdir):
        shutil.rmtree(bdir)
    os.makedirs(bdir)
    log = {'groups': {}}
    results = []
    undecided = []
    try:
        groups = [G for G in all_groups() if any(prop in j.get('props', [G.get('prop')]) for j in G['jobs'])]
        if not groups:
            raise Undecided('no group serves property %s' % prop)
        work = []
        for G in groups:
            gb = os.path.join(bdir, G['name'])
            try:
                u, gen = build_group(G, gb, log)
            except cxx2c.Abort as e:
                msg = 'group %s: extraction: %s' % (G['name'], e)
                refuted = False
                if 'loop contract' in str(e):
                    for j in G['jobs']:
                        if j.get('refute_unwind') and j.get('enforce') and ('%s' % j['enforce']) in str(e) and prop in j.get('props', [G.get('prop')]):
                            r = try_refute(G, j, bdir, tier, msg)
                            if r is not None:
                                results.append(r)
                                refuted = True
                if not refuted:
                    undecided.append(msg)
                continue
            for j in G['jobs']:
                if prop not in j.get('props', [G.get('prop')]):
                    continue
                if only and j['id'] not in only:
                    continue
                if j.get('tier') == 'thorough' and tier != 'thorough':
                    continue
                work.append((G, u, gen, gb, j))
        # jobs that need most of the machine's memory (mem_gb >= 30) run after all the others, one at a time
        work = [w for w in work if w[4].get('mem_gb', 0) < 30] + [w for w in work if w[4].get('mem_gb', 0) >= 30]
        with ThreadPoolExecutor(max_workers=int(os.environ.get('VERIF_JOBS', '16'))) as ex:
            light = [w for w in work if w[4].get('mem_gb', 0) < 30]
            futs = [ex.submit(run_job, G, u, gen, gb, j, tier) for (G, u, gen, gb, j) in light]
            for f in futs:
                try:
                    f.exception()      # wait for the light jobs before the heavy ones start
                except Exception:
                    pass
            futs += [ex.submit(run_job, G, u, gen, gb, j, tier) for (G, u, gen, gb, j) in work[len(light):]]
            for f, w in zip(futs, work):
                try:
                    r = f.result()
                    if r['status'] == 'undecided' and w[4].get('refute_unwind') and w[4].get('loops') and \
                            re.search(r'goto-cc failed|loop contract|loop-invariant|goto-instrument failed', r.get('reason') or ''):
                        r2 = try_refute(w[0], w[4], bdir, tier, r.get('reason'))
                        if r2 is not None:
                            r = r2
                    results.append(r)
                except Exception as e:
                    undecided.append('job %s crashed: %s' % (w[4]['id'], traceback.format_exc()[-1500:]))
    except Undecided as e:
        undecided.append(str(e))
    except Exception:
        undecided.append('internal error: ' + traceback.format_exc()[-3000:])
    if only:
        # a partial run (--jobs) must not overwrite the property's evidence file
        os.environ.setdefault('VERIF_EVIDENCE_DIR', os.path.join(ROOT, '.build', 'partial_evidence'))
    return finish(prop, tier, seed, t0, log, results, undecided, bdir, keep)


def finish(prop, tier, seed, t0, log, results, undecided, bdir, keep):
    findings = [f for f in load_findings() if f.get('property') == prop]
    violations = []
    known_hit = []
    n_obl = n_dis = n_bounded = n_bounded_dis = n_order = n_order_ok = twins = 0
    samples = []
    backends = {}
    solver_time = 0.0
    funcs = []
    # agreement specs: some contracts pin a convention that two functions must SHARE (e.g. the probe sequence of insert and lookup).
    # If the obligations tied to the convention fail in every function that shares it, the code may have moved to a new common
    # convention, which per-function contracts cannot judge: undecided, not a violation.  Failing in only some of them is disagreement.
    for G in all_groups():
        for ag in G.get('agree', ()):
            rs = [r for r in results if r['id'] in ag['jobs']]
            if len(rs) != len(ag['jobs']) or not all(r['status'] == 'failed' for r in rs):
                continue
            fails = [p for r in rs for p in r['props'] if p['status'] == 'FAILURE' and not p.get('twin')]
            if all(re.search(ag['pattern'], (p.get('property') or '') + ' ' + p['description']) for p in fails):
                for r in rs:
                    r['status'] = 'undecided'
                    r['reason'] = 'agreement %s: the shared convention changed in all of %s; per-function contracts cannot decide whether they still agree' % (ag['name'], ag['jobs'])
    for r in results:
        solver_time += r.get('solver_s', 0.0)
        if r['status'] in ('undecided', 'vacuous'):
            undecided.append('job %s: %s' % (r['id'], r.get('reason')))
            continue
        backends.setdefault(r['backend'], 0)
        backends[r['backend']] += 1
        if r.get('twin_failed'):
            twins += 1
        for p in r['props']:
            if p.get('twin'):
                continue
            is_order = 'K6' in p['description']
            is_bounded = bool(r.get('bounded'))
            ok = p['status'] == 'SUCCESS'
            if is_order:
                n_order += 1
                n_order_ok += ok
            elif is_bounded:
                n_bounded += 1
                n_bounded_dis += ok
            else:
                n_obl += 1
                n_dis += ok
            if ok and len(samples) < 12 and ('postcondition' in (p['property'] or '') or 'K5' in p['description'] or 'K1' in p['description']):
                samples.append({'job': r['id'], 'obligation': p['property'], 'text': p.get('clause') or p['description']})
            if not ok:
                oid = '%s/%s' % (r['id'], p['property'])
                kf = match_finding(findings, r, p)
                if kf is not None:
                    known_hit.append((kf, oid))
                else:
                    violations.append((r, p, oid))
    # replay files + lines
    lines = []
    rdir = os.path.join(os.environ.get('VERIF_REPLAY_DIR', os.path.join(ROOT, 'replays')), prop)
    if violations:
        os.makedirs(rdir, exist_ok=True)
    by_job = {}
    for r, p, oid in violations:
        by_job.setdefault(r['id'], []).append((r, p, oid))
    for jid, lst in by_job.items():
        r = lst[0][0]
        path = os.path.join(rdir, re.sub(r'\W', '_', jid) + '.json')
        rep = {'property': prop, 'job': jid, 'enforce': r.get('enforce'), 'cbmc_cmd': r.get('cmd'),
               'failed_obligations': [{'obligation': oid, 'description': p['description'], 'clause': p.get('clause'),
                                       'location': '%s:%s' % (p.get('file'), p.get('line')), 'inputs': p.get('inputs')}
                                      for (_, p, oid) in lst]}
        confirmed = native_replay(prop, r, lst, rep, bdir)
        json.dump(rep, open(path, 'w'), indent=1)
        suffix = '' if confirmed else ' no-failing-input-found'
        lines.append('VIOLATION property=%s replay=%s obligation=%s%s' % (prop, path, lst[0][2], suffix))
    for kf, oid in known_hit:
        pass
    printed = set()
    for kf, oid in known_hit:
        if kf.get('status') == 'fixed':
            # a fixed entry suppresses nothing
            continue
        key = kf.get('id')
        if key not in printed:
            printed.add(key)
            print('KNOWN-FINDING: property=%s %s' % (prop, kf.get('what')))
    # a listed (unfixed) finding that no longer reproduces is reported but is not an alarm
    for kf in findings:
        if kf.get('status') == 'finding' and kf.get('id') not in printed and results and not undecided:
            print('NOTE: listed finding %s did not reproduce on this tree' % kf.get('id'))
    wall = time.time() - t0
    ev = {
        'property_id': prop, 'tier': tier, 'seed': seed, 'level': 'proof',
        'coverage': {
            'obligations': n_obl, 'discharged': n_dis,
            'bounded_obligations': n_bounded, 'bounded_discharged': n_bounded_dis,
            'order_site_obligations': n_order, 'order_site_ok': n_order_ok,
            'vacuity_twins_failed_as_required': twins,
            'checker_cmd': 'goto-cc; goto-instrument --dfcc <harness> --enforce-contract F [--replace-call-with-contract G]* [--apply-loop-contracts]; cbmc ' + ' '.join(CBMC_BASE),
            'trusted_base': trusted_base(log),
            'samples': samples or [{'note': 'no passing postcondition sample'}],
            'jobs': [{'id': r['id'], 'function': r.get('enforce'), 'status': r['status'], 'backend': r['backend'],
                      'bounded': r.get('bounded'), 'solver_s': r.get('solver_s'), 'obligations': len([p for p in r['props'] if not p.get('twin')])}
                     for r in results],
            'functions_under_contract': sorted(set(r.get('enforce') for r in results if r.get('enforce'))),
            'lowered_functions': {g: [{'cxx': f['cxx'], 'c': f['c'], 'src': '%s:%s' % (os.path.relpath(f['file'], cxx2c.REPO) if f.get('file') else '?', f['line'])}
                                      for f in v['functions_under_lowering']] for g, v in log['groups'].items()},
            'backends': backends, 'solver_time_s': round(solver_time, 2),
            'undecided': undecided,
            'known_findings_reproduced': sorted(printed),
        },
        'assumptions': assumptions(log, results),
        'wall_s': round(wall, 2),
        'violations': len(lines),
    }
    evdir = os.environ.get('VERIF_EVIDENCE_DIR', os.path.join(ROOT, 'evidence'))
    if n_obl == 0 and n_bounded > 0:
        # nothing here is a discharged contract obligation: a bounded stand-in is not a proof
        ev['level'] = 'other'
        ev['coverage']['explanation'] = ('bounded stand-in only (CBMC with --unwind and unwinding assertions on explicitly built states of the real lowered code): '
                                         '%d of %d bounded obligations hold within the stated bounds; nothing is counted as proved' % (n_bounded_dis, n_bounded))
        ev['coverage'].pop('obligations'); ev['coverage'].pop('discharged')
    os.makedirs(evdir, exist_ok=True)
    json.dump(ev, open(os.path.join(evdir, prop + '.json'), 'w'), indent=1)
    if not keep and not lines and not undecided and os.path.exists(bdir):
        shutil.rmtree(bdir, ignore_errors=True)
    for l in lines:
        print(l)
    if lines:
        return 1
    if undecided:
        for x in undecided:
            print('UNDECIDED property=%s reason=%s' % (prop, x.replace('\n', ' ')[:1500]))
        return 2
    print('OK property=%s obligations=%d discharged=%d bounded=%d/%d order_site=%d/%d twins=%d wall=%.1fs' % (
        prop, n_obl, n_dis, n_bounded_dis, n_bounded, n_order_ok, n_order, twins, wall))
    return 0


def match_finding(findings, r, p):
    for kf in findings:
        if kf.get('status') != 'finding':
            continue        # a 'fixed' entry suppresses nothing: if the failure returns it is a violation
        if kf.get('job') and kf['job'] != r['id']:
            continue
        pat = kf.get('obligation_re')
        if pat and not re.search(pat, '%s %s %s' % (p.get('property'), p.get('description'), p.get('clause') or '')):
            continue
        return kf
    return None


def native_replay(prop, r, lst, rep, bdir):
    """group-specific native replay hook: groups/<g>/replay.py with replay(job, failed, report) -> bool"""
    path = os.path.join(GROUPS, r['group'], 'replay.py')
    if not os.path.exists(path):
        rep['native_replay'] = 'none available for this group'
        return False
    g = {'__file__': path}
    try:
        exec(compile(open(path).read(), path, 'exec'), g)
        return bool(g['replay'](r, [p for (_, p, _) in lst], rep, bdir))
    except Exception:
        rep['native_replay'] = 'replay driver error: ' + traceback.format_exc()[-1500:]
        return False


def trusted_base(log):
    tb = ['clang 14 front end (AST of the real TU)', 'cxx2c lowering (tools/cxx2c*.py) + layout self-check',
          'cbmc 6.11 / goto-instrument DFCC', 'stubs/vf_prelude.h builtins']
    for g, v in log['groups'].items():
        for e in v['externs']:
            if 'c' in e and 'cxx' in e:
                tb.append('extern (contract or stub in spec): %s' % e['cxx'])
    return sorted(set(tb))


def assumptions(log, results):
    a = ['machine integers are bit-vectors; signed overflow wraps unless a job enables the check',
         'pointer relational operators have flat-address meaning ((uintptr_t) comparison)',
         'sequentially consistent interleavings only; memory orders are checked per site, their sufficiency is assumed',
         'production configuration only (NDEBUG, no ASan/TSan/LSan)',
         'partial correctness: no termination or liveness claim']
    for g in all_groups():
        if g['name'] in log['groups']:
            a += list(g.get('assumptions', ()))
    return a


if __name__ == '__main__':
    sys.exit(main())
