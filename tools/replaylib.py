"""helpers for native replay drivers: compile a C++ program against the working tree of the repository and run it"""
import os, subprocess, glob
import cxx2c
LINK = ['-L/usr/lib/x86_64-linux-gnu', '-labsl_time', '-labsl_time_zone', '-labsl_base', '-labsl_strings', '-labsl_int128',
        '-labsl_raw_logging_internal', '-labsl_throw_delegate', '-labsl_hash', '-labsl_city', '-labsl_low_level_hash', '-lpthread', '-latomic']


def build_and_run(cpp, out_dir, sources=('concurrent/*.cpp', 'new.cpp'), args=(), flags=(), timeout=300):
    """returns (exit_code, output); exit_code None when the program could not be built"""
    os.makedirs(out_dir, exist_ok=True)
    exe = os.path.join(out_dir, os.path.basename(cpp) + '.exe')
    srcs = []
    for pat in sources:
        srcs += sorted(glob.glob(os.path.join(cxx2c.REPO, 'src/babylon', pat)))
    cmd = ['g++', '-std=gnu++20', '-O1', '-DNDEBUG', '-fno-access-control', '-I' + cxx2c.REPO + '/src', '-isystem', '/root/miniconda/include'] + [cpp] + srcs + [f for f in flags if f.startswith('-l')] + LINK + [f for f in flags if not f.startswith('-l')] + ['-o', exe]
    p = subprocess.run(cmd, stdout=subprocess.PIPE, stderr=subprocess.STDOUT, text=True, timeout=900)
    if p.returncode != 0:
        return None, 'replay program does not build:\n' + p.stdout[-3000:]
    try:
        r = subprocess.run([exe] + [str(a) for a in args], stdout=subprocess.PIPE, stderr=subprocess.STDOUT, text=True, timeout=timeout)
        return r.returncode, r.stdout[-4000:]
    except subprocess.TimeoutExpired:
        return 124, 'replay program timed out'
    finally:
        if os.path.exists(exe):
            os.remove(exe)
