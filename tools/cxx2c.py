#!/usr/bin/env python3
"""cxx2c -- print instantiated babylon functions, taken from clang 14's JSON AST, as C.

The tool is deliberately *closed*: every AST node kind, cast kind, callee and type form it
understands is listed here; anything else raises Abort (the caller reports "undecided", exit 2).
It never approximates a construct it does not know.

Public entry: lower(driver_cpp, roots, config) -> Unit  (see class Unit)
"""
import json, os, re, subprocess, sys, hashlib

REPO = os.environ.get('VERIF_REPO', '/repo')
CLANG = ['clang++', '-std=gnu++20', '-DNDEBUG', '-I' + REPO + '/src', '-isystem', '/root/miniconda/include',
         '-fsyntax-only', '-Wno-everything']


class Abort(Exception):
    pass


def abort(msg, node=None):
    where = ''
    if node is not None:
        where = ' at %s:%s [%s %s]' % (node.get('_file', '?'), node.get('_line', '?'), node.get('kind'), node.get('id'))
    raise Abort(msg + where)


# --------------------------------------------------------------------------------------------
# loading
# --------------------------------------------------------------------------------------------

def run_clang_ast(driver, out_json, filt='babylon', extra=()):
    cmd = CLANG + list(extra) + ['-Xclang', '-ast-dump=json', '-Xclang', '-ast-dump-filter=' + filt, driver]
    with open(out_json, 'w') as f:
        p = subprocess.run(cmd, stdout=f, stderr=subprocess.PIPE, text=True)
    if p.returncode != 0:
        raise Abort('clang failed on %s:\n%s' % (driver, p.stderr[-4000:]))


def load_docs(fn):
    s = open(fn).read()
    dec = json.JSONDecoder()
    i = 0
    docs = []
    n = len(s)
    while i < n:
        while i < n and s[i].isspace():
            i += 1
        if i >= n:
            break
        o, j = dec.raw_decode(s, i)
        docs.append(o)
        i = j
    return docs


class Index:
    """id -> node, parents, file/line per node (clang's JSON delta-encodes file and line)."""

    def __init__(self, docs):
        self.docs = docs
        self.byid = {}
        self.file = None
        self.line = None
        for d in docs:
            self._walk(d, None)
        self.lambda_order = {}     # id(function decl node) -> [LambdaExpr nodes in source order]
        self._cnt = {}
        for d in docs:
            self._name_lambdas(d, None)

    def _name_lambdas(self, n, fn):
        """stable names for closure types: <file stem>_<enclosing function>_<ordinal in source order> instead of line:col,
        so that edits which only shift lines do not rename anything a spec refers to"""
        k = n.get('kind')
        if k in FUNC_KINDS and fn is None and n.get('name'):
            fn = n
        if k == 'LambdaExpr' and fn is not None:
            rec = [c for c in n.get('inner', []) if isinstance(c, dict) and c.get('kind') == 'CXXRecordDecl']
            if rec:
                loc = rec[0].get('loc', {})
                if 'expansionLoc' in loc:
                    loc = loc['expansionLoc']
                key = (os.path.basename(rec[0].get('_file') or ''), rec[0].get('_line'), loc.get('col'))
                if key not in LAMBDA_STABLE:
                    stem = re.sub(r'\W', '_', os.path.splitext(key[0])[0])
                    fname = re.sub(r'\W', '_', fn['name'].split('<')[0].replace('~', 'dtor_').replace('operator()', 'op_call')).strip('_')
                    ck = (stem, fname)
                    self._cnt[ck] = self._cnt.get(ck, 0) + 1
                    LAMBDA_STABLE[key] = '%s_%s_%d' % (stem, fname, self._cnt[ck])
                lst = self.lambda_order.setdefault(id(fn), [])
                if not any(x is n for x in lst):
                    lst.append(n)
        for c in n.get('inner', []):
            if isinstance(c, dict):
                self._name_lambdas(c, fn)

    def _bare(self, loc):
        if not isinstance(loc, dict):
            return
        if 'spellingLoc' in loc or 'expansionLoc' in loc:
            self._bare(loc.get('spellingLoc'))
            self._bare(loc.get('expansionLoc'))
            return
        if 'file' in loc:
            self.file = loc['file']
        if 'line' in loc:
            self.line = loc['line']

    def _walk(self, n, parent):
        n['_parent'] = parent
        if 'loc' in n:
            self._bare(n['loc'])
            loc = n['loc']
            if 'expansionLoc' in loc:
                loc = loc['expansionLoc']
            n['_file'], n['_line'] = self.file, self.line
        if 'range' in n:
            self._bare(n['range'].get('begin'))
            if '_file' not in n:
                n['_file'], n['_line'] = self.file, self.line
            self._bare(n['range'].get('end'))
        if '_file' not in n:
            n['_file'], n['_line'] = self.file, self.line
        if 'id' in n and n.get('kind') != 'TemplateArgument':
            # first occurrence wins (later ones may be short back-references)
            if n['id'] not in self.byid or ('inner' in n and 'inner' not in self.byid[n['id']]):
                self.byid[n['id']] = n
        for c in n.get('inner', []):
            if isinstance(c, dict):
                self._walk(c, n)


# --------------------------------------------------------------------------------------------
# type strings
# --------------------------------------------------------------------------------------------

TOK = re.compile(r'\s*(::|&&|[A-Za-z_][A-Za-z_0-9]*|-?\d+[uUlL]*|\(lambda at [^)]*\)|\(anonymous[^)]*\)|\(unnamed[^)]*\)|\.\.\.|\'[^\']*\'|\S)')

BUILTIN_WORDS = {'unsigned', 'signed', 'long', 'short', 'int', 'char', 'bool', 'void', 'float', 'double',
                 '__int128', 'wchar_t', 'char16_t', 'char32_t', 'char8_t'}
CVQ = {'const', 'volatile', 'restrict', '__restrict'}
ELAB = {'struct', 'class', 'union', 'enum', 'typename'}

# typedef names that mean the same thing in C via <stdint.h>/<stddef.h>/<sys/types.h>
C_TYPEDEFS = {'size_t', 'ssize_t', 'uintptr_t', 'intptr_t', 'ptrdiff_t', 'uint8_t', 'uint16_t', 'uint32_t',
              'uint64_t', 'int8_t', 'int16_t', 'int32_t', 'int64_t', 'useconds_t', 'time_t', 'off_t'}
STD_ALIASES = {'std::size_t': 'size_t', 'std::ptrdiff_t': 'ptrdiff_t', 'std::uintptr_t': 'uintptr_t',
               'std::memory_order': ('enum', 'std::memory_order'), 'std::align_val_t': 'size_t',
               'std::nullptr_t': ('ptr', ('b', 'void')), 'nullptr_t': ('ptr', ('b', 'void')),
               '__m128i': ('rec', '__m128i'), 'std::max_align_t': ('rec', 'max_align_t'),
               '__useconds_t': 'unsigned int', 'clockid_t': 'int', '__clockid_t': 'int', '__time_t': 'long', '__syscall_slong_t': 'long', '__pid_t': 'int',
               'std::uint64_t': 'uint64_t', 'std::uint32_t': 'uint32_t', 'std::uint16_t': 'uint16_t',
               'std::uint8_t': 'uint8_t', 'std::int64_t': 'int64_t', 'std::int32_t': 'int32_t',
               'std::int16_t': 'int16_t', 'std::int8_t': 'int8_t', 'std::ssize_t': 'ssize_t'}


def tokenize(s):
    out = []
    i = 0
    while i < len(s):
        m = TOK.match(s, i)
        if not m:
            if s[i:].strip() == '':
                break
            raise Abort('type tokenizer: cannot read %r at %d' % (s, i))
        out.append(m.group(1))
        i = m.end()
    return out


def norm_name(s):
    """canonical spelling of a (possibly templated) qualified name: tokens joined, single space
    between word tokens, integer suffixes stripped, leading :: dropped."""
    toks = tokenize(s)
    res = []
    for t in toks:
        if re.match(r'^\d+[uUlL]*$', t):
            t = re.sub(r'[uUlL]+$', '', t)
        if t in ELAB or t in CVQ and False:
            continue
        if t == 'false':
            t = '0'
        elif t == 'true':
            t = '-1'        # clang's JSON gives the value of a bool template argument `true` as -1; keep both spellings equal
        res.append(t)
    if res and res[0] == '::':
        res = res[1:]
    # drop '::' directly after '<' or ',' or '(' (global qualifier inside args)
    out = []
    for i, t in enumerate(res):
        if t == '::' and (i == 0 or res[i - 1] in ('<', ',', '(', '*', '&', 'const')):
            continue
        out.append(t)
    s = ''
    for t in out:
        if s and re.match(r'\w', s[-1]) and re.match(r'\w', t[0]):
            s += ' '
        s += t
    return s


class TypeParser:
    """clang's printed type -> tuple tree.
    ('b', cname) | ('rec', normname) | ('enum', normname) | ('ptr', T) | ('ref', T) | ('rref', T)
    | ('arr', T, n) | ('fn', ret, [params], variadic) | ('atomic', T) | ('named', normname) unresolved"""

    def __init__(self, s):
        self.s = s
        self.t = tokenize(s)
        self.i = 0

    def peek(self, k=0):
        return self.t[self.i + k] if self.i + k < len(self.t) else None

    def eat(self, x=None):
        t = self.peek()
        if x is not None and t != x:
            raise Abort('type parser: expected %r got %r in %r' % (x, t, self.s))
        self.i += 1
        return t

    def parse(self):
        ty = self.parse_type()
        if self.peek() is not None:
            # trailing function qualifiers such as 'const noexcept' were consumed in fn suffix
            raise Abort('type parser: trailing %r in %r' % (self.t[self.i:], self.s))
        return ty

    def parse_type(self):
        core = self.parse_core()
        return self.parse_suffix(core)

    def skip_cv(self):
        while self.peek() in CVQ:
            self.eat()

    def parse_core(self):
        self.skip_cv()
        while self.peek() in ELAB:
            self.eat()
        self.skip_cv()
        t = self.peek()
        if t in BUILTIN_WORDS:
            ws = []
            while self.peek() in BUILTIN_WORDS or self.peek() in CVQ:
                w = self.eat()
                if w not in CVQ:
                    ws.append(w)
            return ('b', builtin_cname(ws, self.s))
        # qualified name with optional template args at each level
        name = ''
        if t == '::':
            self.eat()
        while True:
            t = self.peek()
            if t is None:
                raise Abort('type parser: name expected in %r' % self.s)
            if t.startswith('(lambda') or t.startswith('(anonymous'):
                name += self.eat()
            elif re.match(r'^[A-Za-z_]', t):
                name += self.eat()
            else:
                raise Abort('type parser: unexpected %r in %r' % (t, self.s))
            if self.peek() == '<':
                name += self.parse_targs_text()
            if self.peek() == '::':
                self.eat()
                name += '::'
                continue
            break
        self.skip_cv()
        return ('named', norm_name(name))

    def parse_targs_text(self):
        # returns the raw text of <...> (balanced), normalised later
        depth = 0
        parts = []
        while True:
            t = self.eat()
            if t is None:
                raise Abort('type parser: unbalanced <> in %r' % self.s)
            parts.append(t)
            if t == '<':
                depth += 1
            elif t == '>':
                depth -= 1
                if depth == 0:
                    break
            elif t == '(':
                pass
        return ' '.join(parts)

    def parse_suffix(self, ty):
        while True:
            t = self.peek()
            if t == '*':
                self.eat()
                ty = ('ptr', ty)
                self.skip_cv()
            elif t == '&':
                self.eat()
                ty = ('ref', ty)
            elif t == '&&':
                self.eat()
                ty = ('rref', ty)
            elif t in CVQ:
                self.eat()
            else:
                break
        t = self.peek()
        if t == '(' and self._is_member_pointer_ahead():
            # pointer to member function "(C::*)(params) quals" (possibly with & / &&): an opaque two-word value in C
            depth = 0
            while True:
                x = self.eat()
                if x == '(':
                    depth += 1
                elif x == ')':
                    depth -= 1
                    if depth == 0:
                        break
            is_ref = False
            if self.peek() == '(':
                self.parse_params()
                self.skip_fn_quals()
            return ('b', 'struct vf_memfnptr')
        if t == '(':
            # either "(*)(params)" / "(&)(params)" / "(C::*)(params)" or a function type "(params)"
            if self.peek(1) in ('*', '&') and True:
                # function pointer or pointer-to-array
                self.eat('(')
                kind = self.eat()
                self.skip_cv()
                inner_ptrs = 1
                while self.peek() == '*':
                    self.eat()
                    inner_ptrs += 1
                self.eat(')')
                if self.peek() == '(':
                    params, var = self.parse_params()
                    self.skip_fn_quals()
                    f = ('fn', ty, params, var)
                    r = f
                    for _ in range(inner_ptrs):
                        r = ('ptr', r)
                    if kind == '&':
                        r = ('ref', f)
                    return r
                elif self.peek() == '[':
                    a = self.parse_arrays(ty)
                    return ('ptr', a) if kind == '*' else ('ref', a)
                raise Abort('type parser: bad declarator in %r' % self.s)
            params, var = self.parse_params()
            self.skip_fn_quals()
            return ('fn', ty, params, var)
        if t == '[':
            return self.parse_arrays(ty)
        return ty

    def _is_member_pointer_ahead(self):
        d = 0
        j = self.i
        while j < len(self.t):
            x = self.t[j]
            if x == '(':
                d += 1
            elif x == ')':
                d -= 1
                if d == 0:
                    return False
            elif x == '*' and d == 1 and j >= 1 and self.t[j - 1] == '::':
                return True
            elif x == '<':
                # skip template argument lists
                dd = 0
                while j < len(self.t):
                    if self.t[j] == '<':
                        dd += 1
                    elif self.t[j] == '>':
                        dd -= 1
                        if dd == 0:
                            break
                    j += 1
            j += 1
        return False

    def skip_fn_quals(self):
        while self.peek() in ('const', 'volatile', 'noexcept', '&', '&&', 'throw'):
            t = self.eat()
            if t in ('noexcept', 'throw') and self.peek() == '(':
                d = 0
                while True:
                    x = self.eat()
                    if x == '(':
                        d += 1
                    elif x == ')':
                        d -= 1
                        if d == 0:
                            break
                    elif x is None:
                        break

    def parse_arrays(self, ty):
        dims = []
        while self.peek() == '[':
            self.eat('[')
            if self.peek() == ']':
                dims.append(None)
            else:
                dims.append(int(re.sub(r'[uUlL]+$', '', self.eat())))
            self.eat(']')
        for d in reversed(dims):
            ty = ('arr', ty, d)
        return ty

    def parse_params(self):
        self.eat('(')
        params = []
        var = False
        if self.peek() == ')':
            self.eat()
            return params, var
        while True:
            if self.peek() == '...':
                self.eat()
                var = True
            else:
                params.append(self.parse_type())
            if self.peek() == ',':
                self.eat()
                continue
            self.eat(')')
            break
        if params == [('b', 'void')]:
            params = []
        return params, var


def builtin_cname(ws, s):
    w = sorted(ws)
    k = ' '.join(w)
    table = {
        'void': 'void', 'bool': '_Bool', 'char': 'char', 'char signed': 'signed char', 'char unsigned': 'unsigned char',
        'short': 'short', 'short unsigned': 'unsigned short', 'int': 'int', 'unsigned': 'unsigned int',
        'int unsigned': 'unsigned int', 'long': 'long', 'long unsigned': 'unsigned long', 'long long': 'long long',
        'long long unsigned': 'unsigned long long', 'float': 'float', 'double': 'double', 'double long': 'long double',
        '__int128': '__int128', '__int128 unsigned': 'unsigned __int128', 'signed': 'int', 'int signed': 'int',
        'int short': 'short', 'int short unsigned': 'unsigned short', 'int long': 'long', 'int long unsigned': 'unsigned long',
        'char16_t': 'unsigned short', 'char32_t': 'unsigned int', 'wchar_t': 'int', 'char8_t': 'unsigned char',
    }
    if k not in table:
        raise Abort('unknown builtin type %r in %r' % (k, s))
    return table[k]


def parse_type(s):
    # a lambda written without a parameter list has the call operator type 'auto () const -> R'
    m = re.match(r'^auto \((.*)\)((?: const)?(?: noexcept)?) -> (.+)$', s)
    if m and '->' not in m.group(3):
        s = '%s (%s)%s' % (m.group(3), m.group(1), m.group(2))
    if s.startswith('decltype('):
        # a function declared with a decltype return type (only as an external prototype whose result is discarded): void
        d = 0
        for i, ch in enumerate(s):
            if ch == '(':
                d += 1
            elif ch == ')':
                d -= 1
                if d == 0:
                    s = 'void' + s[i + 1:]
                    break
    return TypeParser(s).parse()


def split_top_commas(s):
    out, d, cur = [], 0, ''
    for ch in s:
        if ch in '<(':
            d += 1
        elif ch in '>)':
            d -= 1
        if ch == ',' and d == 0:
            out.append(cur)
            cur = ''
        else:
            cur += ch
    out.append(cur)
    return out


LAMBDA_STABLE = {}   # (file basename, line, col) -> stable closure tag (filled by Index)


def _lambda_tag(m):
    key = (m.group(1), int(m.group(2)), int(m.group(3)))
    if key in LAMBDA_STABLE:
        return 'lambda_' + LAMBDA_STABLE[key]
    return 'lambda_%s_%s_%s' % (re.sub(r'\W', '_', m.group(1)), m.group(2), m.group(3))


def sanitize(s):
    s = norm_name(s) if not re.match(r'^\w+$', s) else s
    s = s.replace('::', '__')
    s = re.sub(r'\((?:lambda|anonymous class) at [^:]*/([^/:]+):(\d+):(\d+)\)', _lambda_tag, s)
    s = s.replace('<', '_L_').replace('>', '_R').replace(',', '_').replace('*', 'P').replace('&', 'Ref')
    s = re.sub(r'[^A-Za-z0-9_]', '_', s)
    s = re.sub(r'_+', '_', s).strip('_')
    return s


# --------------------------------------------------------------------------------------------
# the lowering unit
# --------------------------------------------------------------------------------------------

MEMORY_ORDER = {'memory_order_relaxed': 0, 'memory_order_consume': 1, 'memory_order_acquire': 2,
                'memory_order_release': 3, 'memory_order_acq_rel': 4, 'memory_order_seq_cst': 5}

FUNC_KINDS = ('FunctionDecl', 'CXXMethodDecl', 'CXXConstructorDecl', 'CXXDestructorDecl', 'CXXConversionDecl')
RECORD_KINDS = ('CXXRecordDecl', 'ClassTemplateSpecializationDecl', 'ClassTemplatePartialSpecializationDecl')


class Config:
    """what the group's spec asks of the lowering"""

    def __init__(self, **kw):
        self.extern = set()          # C++ qualified names (normalised) never lowered: left as extern C prototypes
        self.extern_re = []          # regexes on qualified names, same meaning
        self.drop_calls = set()      # qualified names of calls dropped as statements (logging)
        self.opaque_records = set()  # record names emitted as opaque (pointer-only)
        self.loop_contracts = {}     # (cname, ordinal) -> text
        self.rename = {}             # cname -> cname
        self.scalar_records = {}     # record name -> C scalar type (e.g. std::atomic handled separately)
        self.outside_methods = {}    # record outside babylon -> set of method names lowered to extern C functions
        self.type_aliases = {}       # sugar spelling clang prints (typedefs of libstdc++, names written inside a class) -> canonical spelling
        self.extra_structs = {}      # outside record name -> C struct text ('@' = struct name) supplied by the group
        self.trivial_copy = set()    # outside records that are trivially copyable (copied as C structs)
        self.opaque_sizes = {}       # record name -> (size, align): emitted as an opaque byte blob of clang's size
        self.aliases = []            # (normalised C++ name fragment, short replacement) applied before C names are formed
        for k, v in kw.items():
            setattr(self, k, v)


class Unit:
    def __init__(self, index, config=None):
        self.ix = index
        self.cfg = config or Config()
        self.records = {}        # normname -> decl node (complete definitions)
        self.enums = {}          # normname -> decl
        self.typedefs = {}       # normname -> type string
        self.funcs_by_first = {}  # first-decl id -> definition node
        self.first_of = {}       # decl id -> first decl id
        self._scan()
        for k in list(self.cfg.opaque_sizes):
            if k not in self.records:
                alt = self._fuzzy_record(k)
                if alt is not None:
                    self.cfg.opaque_sizes[alt] = self.cfg.opaque_sizes[k]
        self.cnames = {}         # first-decl id -> C name
        self.used_cnames = {}
        self.want_funcs = []     # worklist of definition nodes
        self.done_funcs = {}     # first id -> emitted text
        self.protos = {}         # cname -> prototype text (including externs)
        self.extern_protos = {}  # cname -> prototype text of functions without lowered body
        self.struct_order = []   # emitted struct names in order
        self.struct_text = {}
        self.struct_state = {}
        self.consts = {}         # cname -> macro text
        self.atomic_ops = {}     # name -> prototype
        self.report = {'functions': [], 'dropped_log_stmts': {}, 'externs': [], 'records': [], 'atomic_sites': []}
        self.layout_checks = []  # (cxx type spelling, c struct name, [(field cxx, field c)])
        self.static_locals = {}
        self.fn_info = {}        # cname -> dict

    # ---------------------------------------------------------------- scanning
    def _scan(self):
        for d in self.ix.docs:
            self._scan_node(d)

    def qualname(self, n):
        """qualified, normalised name of a named decl (records with template args)."""
        if '_qn' in n:
            return n['_qn']
        parts = []
        cur = n
        while cur is not None:
            k = cur.get('kind')
            sem = cur.get('parentDeclContextId')
            if k in ('NamespaceDecl',):
                if cur.get('name'):
                    parts.append(cur['name'])
                else:
                    parts.append('(anonymous namespace)')
            elif k in RECORD_KINDS or k == 'EnumDecl':
                nm = cur.get('name')
                if not nm and cur is not n and k != 'EnumDecl' and not cur.get('definitionData', {}).get('isLambda'):
                    # clang does not print enclosing anonymous structs/unions in qualified names
                    nxt = cur.get('_parent')
                    cur = nxt
                    continue
                if not nm:
                    loc = cur.get('loc', {})
                    if 'expansionLoc' in loc:
                        loc = loc['expansionLoc']
                    nm = '(anonymous %s at %s:%s:%s)' % (cur.get('tagUsed', 'struct'), cur.get('_file'), cur.get('_line'), loc.get('col'))
                if k == 'ClassTemplateSpecializationDecl':
                    nm += self._targs_text(cur)
                parts.append(nm)
            elif k in FUNC_KINDS:
                if cur is n:
                    parts.append(cur.get('name', '?'))
                else:
                    parts.append(cur.get('name', '?') + '()')
            elif k in ('VarDecl', 'FieldDecl', 'TypedefDecl', 'TypeAliasDecl', 'EnumConstantDecl', 'ParmVarDecl'):
                if cur is n:
                    parts.append(cur.get('name', '?'))
            nxt = cur.get('_parent')
            if sem and cur is n or (sem and k in FUNC_KINDS + RECORD_KINDS + ('VarDecl',)):
                p = self.ix.byid.get(sem)
                if p is not None:
                    nxt = p
            cur = nxt
        qn = norm_name('::'.join(reversed(parts)))
        n['_qn'] = qn
        return qn

    def _node_in_pattern(self, n):
        """n lies inside an uninstantiated template (class template pattern or function template pattern)"""
        cur = n
        while cur is not None:
            par = cur.get('_parent')
            k = cur.get('kind')
            if k == 'CXXRecordDecl' and par is not None and par.get('kind') == 'ClassTemplateDecl':
                return True
            if k == 'ClassTemplatePartialSpecializationDecl':
                return True
            if k in FUNC_KINDS and par is not None and par.get('kind') == 'FunctionTemplateDecl':
                fns = [x for x in par.get('inner', []) if x.get('kind') in FUNC_KINDS]
                if fns and fns[0] is cur:
                    return True
            sem = cur.get('parentDeclContextId')
            if sem and k in FUNC_KINDS and sem in self.ix.byid and self.ix.byid[sem] is not par:
                cur = self.ix.byid[sem]
                continue
            cur = par
        return False

    def _targs_text(self, spec):
        args = []
        for c in spec.get('inner', []):
            if c.get('kind') == 'TemplateArgument':
                args.append(self._targ_text(c))
        return '<' + ', '.join(args) + '>'

    def _targ_text(self, c):
        if 'type' in c:
            return c['type']['qualType']
        if 'value' in c:
            return str(c['value'])
        if c.get('isPack') or 'inner' in c and all(x.get('kind') == 'TemplateArgument' for x in c['inner']):
            return ', '.join(self._targ_text(x) for x in c.get('inner', []))
        if 'decl' in c:
            return c['decl'].get('name', '?')
        if c.get('isExpr') or 'inner' in c:
            # expression argument: find a literal
            for x in c.get('inner', []):
                v = self._const_value(x)
                if v is not None:
                    return str(v)
        if c.get('isNull'):
            return ''
        return '?'

    def _const_value(self, n):
        k = n.get('kind')
        if k == 'ConstantExpr' and 'value' in n:
            return n['value']
        if k == 'IntegerLiteral':
            return n['value']
        if k == 'CXXBoolLiteralExpr':
            return 'true' if n['value'] else 'false'
        for c in n.get('inner', []):
            v = self._const_value(c)
            if v is not None:
                return v
        return None

    def _scan_node(self, n):
        k = n.get('kind')
        if k == 'CXXRecordDecl' and (n.get('definitionData', {}).get('isLambda') or (n.get('_parent') or {}).get('kind') == 'LambdaExpr'):
            n.setdefault('definitionData', {})['isLambda'] = True
            loc = n.get('loc', {})
            if 'expansionLoc' in loc:
                loc = loc['expansionLoc']
            n['_qn'] = norm_name('(lambda at %s:%s:%s)' % (n.get('_file'), n.get('_line'), loc.get('col')))
        if k in RECORD_KINDS and n.get('completeDefinition'):
            qn = self.qualname(n)
            old = self.records.get(qn)
            if old is None or (self._node_in_pattern(old) and not self._node_in_pattern(n)):
                self.records[qn] = n
        elif k == 'EnumDecl':
            self.enums.setdefault(self.qualname(n), n)
        elif k in ('TypedefDecl', 'TypeAliasDecl'):
            self.typedefs.setdefault(self.qualname(n), n)
        elif k in FUNC_KINDS:
            first = n
            seen = 0
            while first.get('previousDecl') and first['previousDecl'] in self.ix.byid and seen < 50:
                first = self.ix.byid[first['previousDecl']]
                seen += 1
            self.first_of[n['id']] = first['id']
            has_body = any(c.get('kind') in ('CompoundStmt', 'CXXTryStmt') for c in n.get('inner', []))
            if has_body:
                self.funcs_by_first[first['id']] = n
            elif n.get('explicitlyDefaulted') == 'default' or n.get('isImplicit'):
                self.funcs_by_first.setdefault(first['id'], n)
        for c in n.get('inner', []):
            if isinstance(c, dict):
                self._scan_node(c)

    # ---------------------------------------------------------------- types
    def resolve(self, ty, ctx=None):
        """resolve ('named', x) into rec/enum/typedef/atomic"""
        k = ty[0]
        if k == 'named':
            name = ty[1]
            if name in self.cfg.type_aliases:
                return self.resolve(parse_type(self.cfg.type_aliases[name]), ctx)
            if name in C_TYPEDEFS:
                return ('b', name)
            if name in STD_ALIASES:
                v = STD_ALIASES[name]
                return ('b', v) if isinstance(v, str) else v
            m = re.match(r'^std::enable_if<(.*)>::type$', name)
            if m:
                args = split_top_commas(m.group(1))
                return self.resolve(parse_type(args[1]) if len(args) > 1 else ('b', 'void'), ctx)
            m = re.match(r'^std::(__atomic_base|atomic)<(.*)>$', name)
            if m:
                return ('atomic', self.resolve(parse_type(m.group(2)), ctx))
            m = re.match(r'^__gnu_cxx::__normal_iterator<(.*)>$', name)
            if m and name not in self.cfg.outside_methods:
                # libstdc++'s vector/string iterator is a wrapper of exactly one pointer whose operators are the pointer's
                return self.resolve(parse_type(split_top_commas(m.group(1))[0]), ctx)
            if name in self.records:
                return ('rec', name)
            alt = self._fuzzy_record(name)
            if alt is not None:
                return ('rec', alt)
            if name in self.enums:
                return ('enum', name)
            if name not in self.typedefs:
                alt = self._fuzzy_record(name, self.typedefs, '_fuzzy_td')
                if alt is not None:
                    name = alt
            if name in self.typedefs:
                td = self.typedefs[name]
                return self.resolve(parse_type(self._decl_type_str(td)), td)
            if name in self.cfg.scalar_records:
                return ('b', self.cfg.scalar_records[name])
            if not getattr(self, '_in_canon', False):
                alt = self._canon_name(name, ctx)
                if alt != name:
                    self._in_canon = True
                    try:
                        r = self.resolve(('named', alt), ctx)
                    finally:
                        self._in_canon = False
                    if r != ('rec', alt) or alt in self.records:
                        return r
            # a record we only know by name (outside babylon or incomplete): opaque
            return ('rec', name)
        if k in ('ptr', 'ref', 'rref', 'atomic'):
            return (k, self.resolve(ty[1], ctx))
        if k == 'arr':
            return ('arr', self.resolve(ty[1], ctx), ty[2])
        if k == 'fn':
            return ('fn', self.resolve(ty[1], ctx), [self.resolve(p, ctx) for p in ty[2]], ty[3])
        return ty

    CANON_BUILTIN = {'uint8_t': 'unsigned char', 'uint16_t': 'unsigned short', 'uint32_t': 'unsigned int', 'uint64_t': 'unsigned long',
                     'int8_t': 'signed char', 'int16_t': 'short', 'int32_t': 'int', 'int64_t': 'long', 'size_t': 'unsigned long',
                     'ssize_t': 'long', 'uintptr_t': 'unsigned long', 'intptr_t': 'long', 'ptrdiff_t': 'long'}

    def _scopes_of(self, ctx):
        out = []
        cur = ctx
        seen = 0
        while cur is not None and seen < 200:
            seen += 1
            k = cur.get('kind')
            if k in RECORD_KINDS or k == 'NamespaceDecl':
                try:
                    out.append(self.qualname(cur))
                except Abort:
                    pass
            sem = cur.get('parentDeclContextId')
            if sem and sem in self.ix.byid and k in FUNC_KINDS + ('VarDecl',):
                cur = self.ix.byid[sem]
            else:
                cur = cur.get('_parent')
        return out

    def _canon_name(self, name, ctx=None):
        """second-chance spelling: typedef names inside template arguments replaced by their builtin spelling, and a
        name written inside namespace babylon tried with the namespace in front"""
        toks = tokenize(name)
        out = []
        depth = 0
        for i, t in enumerate(toks):
            if t == '<':
                depth += 1
            elif t == '>':
                depth -= 1
            if depth > 0 and t in self.CANON_BUILTIN and (i == 0 or toks[i - 1] != '::' or (i >= 2 and toks[i - 2] == 'std')):
                if i >= 2 and toks[i - 1] == '::' and toks[i - 2] == 'std':
                    out = out[:-2]
                out.append(self.CANON_BUILTIN[t])
            else:
                out.append(t)
        alt = norm_name(' '.join(out))
        cands = [alt, 'babylon::' + alt]
        if ctx is not None:
            cands += [sc + '::' + alt for sc in self._scopes_of(ctx) if sc]
        for cand in cands:
            if cand in self.records or cand in self.typedefs or cand in self.enums or self._fuzzy_record(cand) is not None:
                return cand
        return alt

    def _fuzzy_record(self, name, table=None, cache='_fuzzy_cache'):
        """clang prints `Futex<S>` where the specialization is declared as `Futex<S, void>` (defaulted
        trailing template arguments): accept a unique record whose name extends one argument list"""
        if table is None:
            table = self.records
        if not hasattr(self, cache):
            setattr(self, cache, {})
        memo = getattr(self, cache)
        if name in memo:
            return memo[name]
        res = None
        if '>' in name:
            cands = set()
            for i, ch in enumerate(name):
                if ch != '>':
                    continue
                pre, post = name[:i], name[i:]
                for k in table:
                    if k.startswith(pre + ',') and k.endswith(post) and len(k) > len(name):
                        mid = k[len(pre) + 1:len(k) - len(post)]
                        d = 0
                        ok = True
                        for ch2 in mid:
                            if ch2 == '<':
                                d += 1
                            elif ch2 == '>':
                                d -= 1
                                if d < 0:
                                    ok = False
                                    break
                        if ok and d == 0:
                            cands.add(k)
            if len(cands) == 1:
                res = cands.pop()
        memo[name] = res
        return res

    def _decl_type_str(self, n):
        t = n.get('type', {})
        return t.get('desugaredQualType') or t.get('qualType')

    def type_of(self, n):
        """resolved type tuple of an expr/decl node"""
        t = n.get('type')
        if t is None:
            abort('node without type', n)
        s = t.get('desugaredQualType') or t.get('qualType')
        try:
            return self.resolve(parse_type(s), n)
        except Abort:
            s2 = t.get('qualType')
            if s2 != s:
                return self.resolve(parse_type(s2), n)
            raise

    def enum_ctype(self, name):
        """C type of an enumeration: its fixed underlying type when it has one (enum class E : uint64_t), else int"""
        ed = self.enums.get(name)
        fx = (ed or {}).get('fixedUnderlyingType', {})
        q = fx.get('desugaredQualType') or fx.get('qualType')
        if q:
            try:
                r = self.resolve(parse_type(q))
                if r[0] == 'b':
                    return r[1]
            except Abort:
                pass
        return 'int'

    def ctype(self, ty, name=''):
        """C declaration of `name` with type ty"""
        k = ty[0]
        if k == 'b':
            return (ty[1] + ' ' + name).strip()
        if k == 'enum':
            base = self.enum_ctype(ty[1])
            return (base + ' ' + name).strip()
        if k == 'rec':
            sn = self.need_struct(ty[1])
            return (sn + ' ' + name).strip()
        if k == 'atomic':
            return self.ctype(ty[1], name)
        if k in ('ptr', 'ref', 'rref'):
            inner = ty[1]
            if inner[0] in ('fn', 'arr'):
                return self.ctype(inner, '(*%s)' % name)
            if inner[0] == 'rec':
                sn = self.need_struct(inner[1], complete=False)
                return ('%s *%s' % (sn, name)).strip()
            return self.ctype(inner, '*' + name)
        if k == 'arr':
            return self.ctype(ty[1], '%s[%s]' % (name, '' if ty[2] is None else ty[2]))
        if k == 'fn':
            ps = ', '.join(self.ctype(self.param_type(p)) for p in ty[2]) or 'void'
            return self.ctype(self.ret_type(ty[1]), '%s(%s)' % (name, ps))
        raise Abort('ctype: %r' % (ty,))

    def param_type(self, ty):
        return ty

    def ret_type(self, ty):
        return ty

    def is_ref(self, ty):
        return ty[0] in ('ref', 'rref')

    def strip_ref(self, ty):
        return ty[1] if ty[0] in ('ref', 'rref') else ty

    def type_tag(self, ty):
        """short tag used in generated names (atomics etc.)"""
        ty = self.strip_ref(ty)
        if ty[0] == 'atomic':
            ty = ty[1]
        if ty[0] == 'b':
            return {'unsigned long': 'u64', 'uint64_t': 'u64', 'size_t': 'u64', 'uintptr_t': 'u64', 'unsigned int': 'u32',
                    'uint32_t': 'u32', 'unsigned short': 'u16', 'uint16_t': 'u16', 'unsigned char': 'u8', 'uint8_t': 'u8',
                    'long': 'i64', 'int64_t': 'i64', 'ssize_t': 'i64', 'int': 'i32', 'int32_t': 'i32', 'short': 'i16',
                    'int16_t': 'i16', 'signed char': 'i8', 'int8_t': 'i8', 'char': 'i8', '_Bool': 'bool',
                    'unsigned long long': 'u64', 'long long': 'i64'}.get(ty[1], sanitize(ty[1]))
        if ty[0] == 'ptr':
            return 'ptr'
        if ty[0] == 'enum':
            return self.type_tag(('b', self.enum_ctype(ty[1])))
        if ty[0] == 'rec':
            return sanitize(self.struct_cname(ty[1]))
        raise Abort('type_tag %r' % (ty,))

    # ---------------------------------------------------------------- records
    def alias(self, name):
        for a, b in self.cfg.aliases:
            name = name.replace(a, b)
        return name

    def struct_cname(self, name):
        return sanitize(re.sub(r'^babylon::', '', self.alias(name)))

    def need_struct(self, name, complete=True):
        cn = 'struct ' + self.struct_cname(name)
        st = self.struct_state.get(name)
        if st is None:
            self.struct_state[name] = 'declared'
            st = 'declared'
        if complete and st == 'declared':
            self.emit_struct(name)
        return cn

    def record_fields(self, rec):
        """[(kind, cname, node_or_type)] in layout order; kind in base/vptr/field"""
        out = []
        dd = rec.get('definitionData', {})
        bases = rec.get('bases', [])
        base_poly = False
        for b in bases:
            if b.get('isVirtual'):
                abort('virtual base class', rec)
            bt = self.resolve(parse_type(b['type'].get('desugaredQualType') or b['type']['qualType']))
            if bt[0] != 'rec':
                abort('base is not a record: %r' % (bt,), rec)
            bdecl = self.records.get(bt[1])
            if bdecl is not None and bdecl.get('definitionData', {}).get('isPolymorphic'):
                base_poly = True
            if bdecl is None and bt[1] in ('std::pmr::memory_resource', 'std::basic_streambuf<char>'):   # polymorphic std bases (the layout self-check confirms)
                base_poly = True
            if bdecl is not None and bdecl.get('definitionData', {}).get('isEmpty'):
                continue    # empty base optimisation: an empty base occupies no storage (the layout self-check confirms)
            out.append(('base', '__base_' + sanitize(bt[1].split('::')[-1]), bt))
        if dd.get('isPolymorphic') and not base_poly:
            out.insert(0, ('vptr', '__vptr', ('ptr', ('b', 'void'))))
        is_lambda = bool(dd.get('isLambda'))
        nf = 0
        for c in rec.get('inner', []):
            if c.get('kind') == 'FieldDecl':
                if c.get('isBitfield'):
                    abort('bitfield', c)
                if is_lambda and not c.get('name'):
                    c['_lambda_field'] = self._capture_name(rec, nf)
                nf += 1
                out.append(('field', self.field_cname(c), c))
            elif c.get('kind') == 'IndirectFieldDecl':
                pass
        return out

    def _aligned_attr(self, n):
        for c in n.get('inner', []):
            if c.get('kind') == 'AlignedAttr':
                v = None
                for x in c.get('inner', []):
                    v = self._const_value(x)
                if v is None:
                    abort('alignas without constant value', n)
                return int(v)
        return None

    def _capture_name(self, rec, i):
        """closure fields are named after what they capture (cap_<variable> / cap_this), so that specs do not depend on
        the order in which the lambda body happens to mention its captures"""
        lam = rec.get('_parent')
        if lam is not None and lam.get('kind') == 'LambdaExpr':
            inits = [c for c in lam.get('inner', []) if c.get('kind') not in ('CXXRecordDecl', 'CompoundStmt')]
            if i < len(inits):
                core = inits[i]
                while core.get('kind') in ('ImplicitCastExpr', 'ParenExpr', 'UnaryOperator', 'CXXConstructExpr', 'MaterializeTemporaryExpr') and core.get('inner'):
                    core = core['inner'][0]
                if core.get('kind') == 'CXXThisExpr':
                    return 'cap_this'
                if core.get('kind') == 'DeclRefExpr' and core['referencedDecl'].get('name'):
                    return 'cap_' + core['referencedDecl']['name']
        return 'cap%d' % i

    def field_cname(self, f):
        return f.get('name') or f.get('_lambda_field') or ('__anon_L%s' % f.get('_line'))

    def emit_struct(self, name):
        if self.struct_state.get(name) in ('emitting', 'done'):
            if self.struct_state.get(name) == 'emitting':
                raise Abort('recursive by-value record %s' % name)
            return
        rec = self.records.get(name)
        sn = self.struct_cname(name)
        if name in self.cfg.opaque_sizes:
            size, align = self.cfg.opaque_sizes[name]
            self.struct_state[name] = 'done'
            self.struct_text[name] = 'struct %s { char __opaque[%d]; } __attribute__((aligned(%d))); /* opaque: %s */' % (sn, size, align, name)
            self.struct_order.append(name)
            return
        if rec is None or name in self.cfg.opaque_records:
            # external / incomplete: predefined layouts for a few std things
            pre = PREDEFINED_STRUCTS.get(name) or self.cfg.extra_structs.get(name)
            if pre is None:
                raise Abort('record %s needed by value but has no definition in the babylon AST' % name)
            self.struct_state[name] = 'done'
            self.struct_text[name] = pre.replace('@', sn)
            self.struct_order.append(name)
            return
        self.struct_state[name] = 'emitting'
        if rec.get('tagUsed') == 'union':
            kw = 'union'
        else:
            kw = 'struct'
        lines = []
        checks = []
        fields = self.record_fields(rec)
        for kind, cname, x in fields:
            if kind == 'base':
                lines.append('  %s;' % self.ctype(x, cname))
            elif kind == 'vptr':
                lines.append('  void *__vptr;')
            else:
                fty = self.type_of(x)
                if self.is_ref(fty):
                    fty = ('ptr', fty[1])
                al = self._aligned_attr(x)
                lines.append('  %s%s;' % (self.ctype(fty, cname), ' __attribute__((aligned(%s)))' % al if al else ''))
                if x.get('name'):
                    checks.append((x['name'], cname))
        if not lines:
            lines.append('  char __empty;')
        ra = self._aligned_attr(rec)
        al = ' __attribute__((aligned(%s)))' % ra if ra else ''
        # a union is emitted as a struct wrapping an anonymous union, so that every record is 'struct <name>' in C
        if kw == 'union':
            self.struct_text[name] = 'struct %s { union {\n%s\n}; }%s;' % (sn, '\n'.join(lines), al)
        else:
            self.struct_text[name] = 'struct %s {\n%s\n}%s;' % (sn, '\n'.join(lines), al)
        if sn.startswith('lambda_'):
            # closure fields are named after what they capture; specs may refer to them by position instead (robust against renaming
            # the captured variable): VF_CAP_<closure struct>_<k> is the k-th capture field
            caps = [cname for kind, cname, x in fields if kind == 'field']
            self.struct_text[name] += ''.join('\n#define VF_CAP_%s_%d %s' % (sn, i + 1, c) for i, c in enumerate(caps)) + '\n#define VF_NCAP_%s %d' % (sn, len(caps))
        self.struct_state[name] = 'done'
        self.struct_order.append(name)
        self.layout_checks.append((name, sn, checks, rec))
        self.report['records'].append({'cxx': name, 'c': 'struct ' + sn, 'file': rec.get('_file'), 'line': rec.get('_line')})

    # ---------------------------------------------------------------- functions: identity and names
    def func_def(self, decl_id):
        first = self.first_of.get(decl_id, decl_id)
        return self.funcs_by_first.get(first), first

    def _base_cname(self, fd):
        qn = self.alias(self.qualname(fd))
        k = fd.get('kind')
        base = re.sub(r'^babylon::', '', qn)
        nm = fd.get('name', '')
        if k == 'CXXConstructorDecl':
            base = re.sub(r'::[^:]*$', '', base) + '::ctor'
        elif k == 'CXXDestructorDecl':
            base = re.sub(r'::~[^:]*$', '', base) + '::dtor'
        elif nm.startswith('operator'):
            base = re.sub(r'::operator.*$', '', base) + '::' + OPERATOR_NAMES.get(nm, 'op_' + sanitize(nm[8:]))
        targs = [self._targ_text(c) for c in fd.get('inner', []) if c.get('kind') == 'TemplateArgument']
        cn = sanitize(base)
        if targs:
            cn += '__' + '_'.join(sanitize(re.sub(r'^babylon::', '', self.alias(norm_name(t)))) or 'x' for t in targs)
        return cn

    def _overload_table(self):
        if hasattr(self, '_ovl'):
            return self._ovl
        tab = {}
        for did, first in self.first_of.items():
            if did != first:
                continue
            fd = self.ix.byid.get(first)
            if fd is None:
                continue
            try:
                cn = self._base_cname(fd)
            except Abort:
                continue
            tab.setdefault(cn, set()).add(first)
        self._ovl = tab
        return tab

    def func_cname(self, n):
        first = self.first_of.get(n['id'], n['id'])
        if first in self.cnames:
            return self.cnames[first]
        fd = self.ix.byid.get(first, n)
        cn = self._base_cname(fd)
        # overloads (same scope, same name, same template arguments): always disambiguated by parameter types,
        # so that a name never depends on the order in which functions were reached
        if len(self._overload_table().get(cn, ())) > 1:
            sig = self._decl_type_str(fd)
            try:
                fty = parse_type(sig)
                ps = '_'.join(self._sig_tag(p) for p in fty[2]) or 'void'
            except Abort:
                ps = hashlib.md5(sig.encode()).hexdigest()[:6]
            cn = cn + '__' + ps
            if re.search(r'\)\s*const\b', sig or ''):
                cn += '_const'
        if cn in self.used_cnames and self.used_cnames[cn] != first:
            cn += '_' + hashlib.md5((fd.get('mangledName') or first).encode()).hexdigest()[:6]
        cn = self.cfg.rename.get(cn, cn)
        self.used_cnames[cn] = first
        self.cnames[first] = cn
        return cn

    def _sig_tag(self, p):
        try:
            r = self.resolve(p)
        except Abort:
            return 'x'
        k = r[0]
        if k in ('ref', 'rref'):
            return self._sig_tag(r[1]) + 'R'
        if k == 'ptr':
            return self._sig_tag(r[1]) + 'P'
        if k == 'b':
            return self.type_tag(r)
        if k == 'rec':
            return sanitize(r[1].split('::')[-1])
        if k == 'fn':
            return 'fn'
        if k == 'enum':
            return 'e'
        if k == 'atomic':
            return 'a' + self._sig_tag(r[1])
        return 'x'

    def is_extern_name(self, qn):
        if qn in self.cfg.extern:
            return True
        for r in self.cfg.extern_re:
            if re.search(r, qn):
                return True
        return False

    # ---------------------------------------------------------------- public driver
    def add_root(self, pred_or_name, sig=None, targs=None):
        """find function definitions by qualified name (normalised), optional signature substring /
        template-arg list; returns list of C names"""
        want = norm_name(pred_or_name)
        res = []
        for first, d in list(self.funcs_by_first.items()):
            fd = self.ix.byid.get(first, d)
            if self.qualname(fd) != want and self.qualname(d) != want:
                continue
            if not any(c.get('kind') in ('CompoundStmt',) for c in d.get('inner', [])):
                continue
            if self._is_template_pattern(d):
                continue
            if sig is not None and norm_name(sig) not in norm_name(self._decl_type_str(d)):
                continue
            if targs is not None:
                ta = [self._targ_text(c) for c in d.get('inner', []) if c.get('kind') == 'TemplateArgument']
                if [norm_name(x) for x in ta] != [norm_name(x) for x in targs]:
                    continue
            res.append(d)
        if not res:
            raise Abort('root function %s%s%s not found with a body (was it renamed, or is the instantiation not forced by the driver?)'
                        % (pred_or_name, ' sig~' + sig if sig else '', ' targs=' + str(targs) if targs else ''))
        names = []
        for d in res:
            names.append(self.func_cname(d))
            self.want(d)
        return names

    def add_lambda_root(self, within, file_suffix=None, line=None, ordinal=None, overload=None):
        """operator() of a lambda inside the (instantiated) function `within`: the ordinal-th in source order (stable under edits
        that shift lines), or the one written at file:line"""
        want = norm_name(within)
        found = []

        def walk(n, out):
            if n.get('kind') == 'LambdaExpr':
                if ordinal is not None:
                    out.append(n)
                elif (n.get('_file') or '').endswith(file_suffix) and n.get('_line') == line:
                    out.append(n)
            for c in n.get('inner', []):
                if isinstance(c, dict):
                    walk(c, out)
        for first, d in list(self.funcs_by_first.items()):
            fd = self.ix.byid.get(first, d)
            if self.qualname(fd) != want and self.qualname(d) != want:
                continue
            if self._is_template_pattern(d):
                continue
            if ordinal is not None:
                allin = []
                walk(d, allin)
                if len(allin) >= ordinal:
                    found.append(allin[ordinal - 1])
            else:
                walk(d, found)
        found = list({id(x): x for x in found}.values())
        if overload is not None and len(found) >= overload:
            # several overloads of `within` (const / non-const): the overload-th in source order
            found = [sorted(found, key=lambda n: (n.get('_file') or '', n.get('_line') or 0))[overload - 1]]
        if len(found) != 1:
            raise Abort('lambda %s inside %s: %d matches (expected exactly one)' % ('#%d' % ordinal if ordinal is not None else 'at %s:%s' % (file_suffix, line), within, len(found)))
        rec = [c for c in found[0]['inner'] if c.get('kind') == 'CXXRecordDecl'][0]
        ops = [c for c in rec.get('inner', []) if c.get('kind') == 'CXXMethodDecl' and c.get('name') == 'operator()']
        if len(ops) != 1:
            raise Abort('lambda without a unique operator()')
        self.first_of.setdefault(ops[0]['id'], ops[0]['id'])
        self.funcs_by_first.setdefault(ops[0]['id'], ops[0])
        name = self.func_cname(ops[0])
        self.want(ops[0])
        return [name]

    def _is_template_pattern(self, d):
        """a body that still belongs to an uninstantiated template"""
        p = d.get('_parent')
        sem = d.get('parentDeclContextId')
        chain = []
        cur = d
        while cur is not None:
            chain.append(cur)
            nxt = cur.get('_parent')
            cur = nxt
        for i, c in enumerate(chain):
            k = c.get('kind')
            if k == 'FunctionTemplateDecl' and i == 1:
                # child of template: the first CXXMethodDecl/FunctionDecl child is the pattern
                fns = [x for x in c.get('inner', []) if x.get('kind') in FUNC_KINDS]
                if fns and fns[0] is d:
                    return True
            if k == 'ClassTemplateDecl':
                # inside the pattern record (the CXXRecordDecl child), not a specialization
                below = chain[i - 1] if i > 0 else None
                if below is not None and below.get('kind') == 'CXXRecordDecl':
                    return True
            if k == 'ClassTemplatePartialSpecializationDecl':
                return True
        if sem:
            sp = self.ix.byid.get(sem)
            cur = sp
            while cur is not None:
                if cur.get('kind') == 'ClassTemplatePartialSpecializationDecl':
                    return True
                par = cur.get('_parent')
                if cur.get('kind') == 'CXXRecordDecl' and par is not None and par.get('kind') == 'ClassTemplateDecl':
                    return True
                cur = par
        return False

    def want(self, d):
        first = self.first_of.get(d['id'], d['id'])
        if first in self.done_funcs or any(x is d for x in self.want_funcs):
            return
        self.want_funcs.append(d)

    def run(self):
        while self.want_funcs:
            d = self.want_funcs.pop(0)
            first = self.first_of.get(d['id'], d['id'])
            if first in self.done_funcs:
                continue
            self.done_funcs[first] = None
            fl = FuncLowerer(self, d)
            text = fl.lower()
            self.done_funcs[first] = text

    # ---------------------------------------------------------------- output
    def render(self, spec_include=None):
        out = []
        out.append('/* generated by cxx2c from clang AST -- do not edit */')
        out.append('#include <stdint.h>\n#include <stddef.h>\n#include <sys/types.h>')
        out.append('#include "vf_prelude.h"')
        for name in self.struct_state:
            out.append('struct %s;' % self.struct_cname(name))
        for name in self.struct_order:
            out.append(self.struct_text[name])
        for cn, txt in self.consts.items():
            out.append(txt)
        for i, sid in enumerate(self.report['atomic_sites'], 1):
            out.append('#define SITE_%s %d' % (sanitize(sid.replace(':', '__').replace('()', '').replace('.', '_')), i))
        for cn, txt in self.atomic_ops.items():
            out.append(txt)
        for cn, txt in self.extern_protos.items():
            if cn not in self.protos:
                out.append(txt)
                out.append('#define VF_HAVE_%s 1' % cn)
        for cn, txt in self.protos.items():
            out.append(txt)
        if spec_include:
            out.append('#include "%s"' % spec_include)
        for first, txt in self.done_funcs.items():
            if txt:
                out.append(txt)
        return '\n'.join(out) + '\n'

    def render_types(self):
        out = ['#include <stdint.h>\n#include <stddef.h>\n#include <sys/types.h>']
        for name in self.struct_state:
            out.append('struct %s;' % self.struct_cname(name))
        for name in self.struct_order:
            out.append(self.struct_text[name])
        return '\n'.join(out) + '\n'

    def render_layout_check(self, driver_include):
        """C++ TU: static_asserts that the C struct layout assumed by cxx2c equals clang's"""
        out = ['#include "%s"' % driver_include, '#include <cstddef>',
               '#pragma clang diagnostic ignored "-Winvalid-offsetof"']
        return out


PREDEFINED_STRUCTS = {
    '__m128i': 'struct @ { signed char b[16]; } __attribute__((aligned(16)));',
    'timespec': '/* struct timespec: <time.h> */',
    'iovec': '/* struct iovec: <sys/uio.h> */',
    'std::pmr::memory_resource': 'struct @ { void *__vptr; };',
}

OPERATOR_NAMES = {
    'operator=': 'op_assign', 'operator()': 'op_call', 'operator[]': 'op_index', 'operator*': 'op_star',
    'operator->': 'op_arrow', 'operator++': 'op_inc', 'operator--': 'op_dec', 'operator==': 'op_eq',
    'operator!=': 'op_ne', 'operator<': 'op_lt', 'operator>': 'op_gt', 'operator<=': 'op_le', 'operator>=': 'op_ge',
    'operator+': 'op_add', 'operator-': 'op_sub', 'operator+=': 'op_add_assign', 'operator-=': 'op_sub_assign',
    'operator<<': 'op_shl', 'operator>>': 'op_shr', 'operator bool': 'op_bool', 'operator!': 'op_not',
    'operator&': 'op_amp', 'operator|': 'op_or', 'operator~': 'op_compl', 'operator new': 'op_new',
    'operator delete': 'op_delete',
}

from cxx2c_func import FuncLowerer  # noqa: E402
