#!/usr/bin/env python3
"""replay.py <replay file> : show what a VIOLATION line refers to and re-run it.

A replay file (replays/<property>/<job>.json) names the failed obligation(s) of one contract job, carries the verifier's
counterexample values for the harness inputs where it gave any ('inputs'), the cbmc command, and -- where the group has a native
driver (groups/<g>/replay.py) -- the output of the C++ program that reproduces the failure through the public API of the real code.
Replaying = running that one job again on the current working tree of the repository (the job is regenerated from the source, so
a repaired tree makes it pass) and, through the same run, the native driver.  Exit 1 if the obligation still fails, 0 if it no
longer does, 2 if undecided."""
import json, os, subprocess, sys
HERE = os.path.dirname(os.path.abspath(__file__))


def main():
    if len(sys.argv) != 2:
        print(__doc__)
        return 2
    rep = json.load(open(sys.argv[1]))
    print('property %s, job %s (function under contract: %s)' % (rep.get('property'), rep.get('job'), rep.get('enforce')))
    for o in rep.get('failed_obligations', []):
        print('  failed: %s' % o.get('obligation'))
        print('          %s' % (o.get('clause') or o.get('description')))
        if o.get('inputs'):
            print('          counterexample inputs: %s' % json.dumps(o['inputs'])[:600])
    nr = rep.get('native_replay')
    if isinstance(nr, dict):
        print('  native replay %s: exit %s\n%s' % (nr.get('program'), nr.get('exit'), (nr.get('output') or '')[-1200:]))
    elif nr:
        print('  native replay: %s' % nr)
    job = (rep.get('job') or '').replace('.refute', '')
    env = dict(os.environ)
    env.setdefault('VERIF_BUILD', os.path.join(HERE, '..', '.build', 'replay_' + str(rep.get('property'))))
    env.setdefault('VERIF_REPLAY_DIR', os.path.join(HERE, '..', '.build', 'replay_out'))
    print('re-running job %s on the current tree ...' % job)
    p = subprocess.run([sys.executable, os.path.join(HERE, 'vcheck.py'), rep['property'], '--jobs', job], env=env)
    return p.returncode


if __name__ == '__main__':
    sys.exit(main())
