#!/usr/bin/env python3
"""regenerate MANIFEST.json from the groups present (claimed properties) + the fixed not_applicable reasons"""
import json, os, sys
HERE = os.path.dirname(os.path.abspath(__file__)); ROOT = os.path.dirname(HERE)
sys.path.insert(0, HERE)
import vcheck
CLAIMS = json.load(open(os.path.join(ROOT, 'claims.json')))
props = [json.loads(l) for l in open(os.path.join(ROOT, 'properties.jsonl'))]
served = set()
for G in vcheck.all_groups():
    for j in G['jobs']:
        for p in j.get('props', [G.get('prop')]):
            served.add(p)
checks = []
na = []
for p in props:
    pid = p['id']
    c = CLAIMS.get(pid, {})
    if pid in served and c.get('claim', True):
        checks.append({
            'property_id': pid,
            'quick_cmd': 'python3 tools/vcheck.py %s --tier quick' % pid,
            'thorough_cmd': 'python3 tools/vcheck.py %s --tier thorough' % pid,
            'evidence_file': '/verif/evidence/%s.json' % pid,
            'replay_cmd_template': 'python3 tools/replay.py {path}',
            'engine': 'cbmc-dfcc',
            'level_claimed': {'category': c.get('category', 'proof'), 'text': c.get('level_text', ''), 'design_ref': 'DESIGN.md section 6, ' + pid},
            'level_note': c.get('level_note', ''),
            'technique': c.get('technique', 'contract-based deductive verification: CBMC code contracts (DFCC) on C extracted from the clang AST of the real functions'),
        })
    else:
        na.append({'property_id': pid, 'reason': c.get('na_reason', 'no contract check built for this property in this round; see DESIGN.md section 9')})
m = {
    'version': 1,
    'setup_cmd': 'python3 -m compileall -q tools && python3 tools/selftest.py',
    'hooks': {'guard': 'BABYLON_VERIF', 'enable': 'no source hooks: contracts are sidecar files, private members are reached with -fno-access-control in replay programs',
              'baseline_off_cmd': 'cmake --build /repo/_build -j16 && ctest --test-dir /repo/_build -j8 --timeout 900', 'source_commits': [], 'add_only': True},
    'engines': [{'name': 'cbmc-dfcc', 'path': '/verif/tools/vcheck.py', 'serves_properties': sorted(served),
                 'kind_free_text': 'clang-14 JSON AST -> cxx2c (C) -> goto-cc -> goto-instrument --dfcc (enforce/replace contracts, loop contracts) -> cbmc 6.11'}],
    'checks': checks,
    'not_applicable': na,
    'notes': 'exit 0 ok / 1 VIOLATION / 2 UNDECIDED (extraction abort, timeout, vacuity: never reported as a violation). See DESIGN.md.',
}
json.dump(m, open(os.path.join(ROOT, 'MANIFEST.json'), 'w'), indent=1)
print('claimed', [c['property_id'] for c in checks])
