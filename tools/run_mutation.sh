#!/bin/bash
# run_mutation.sh <dir with patch.diff> <PROPERTY>...  : apply the patch to the scratch worktree /tmp/mut (at /repo's HEAD),
# run the property checks against it (VERIF_REPO), undo the patch.  Evidence/replays of these runs go to .build/mut_*.
D=$(realpath "$1"); shift
# the scratch worktree is created on demand (and must be removed afterwards: git -C /repo worktree remove --force /tmp/mut)
[ -d /tmp/mut ] || git -C /repo worktree add -q --detach /tmp/mut HEAD
cd /tmp/mut && git checkout -q -- src && git checkout -q --detach $(git -C /repo rev-parse HEAD) && git apply "$D/patch.diff" || { echo "patch does not apply"; exit 2; }
cd /verif
for P in "$@"; do
  echo "== $P with $(basename $(dirname $D))/$(basename $D)"
  VERIF_REPO=/tmp/mut VERIF_BUILD=/verif/.build/mut_$P VERIF_EVIDENCE_DIR=/verif/.build/mut_ev VERIF_REPLAY_DIR=/verif/.build/mut_replays python3 tools/vcheck.py $P 2>&1 | cut -c1-330 | grep -v "^NOTE" | head -6
done
cd /tmp/mut && git checkout -q -- src
