#!/usr/bin/env python3
"""setup self-test: the tools needed are present and cxx2c's type parser round-trips a few known spellings"""
import shutil, sys, os
sys.path.insert(0, os.path.dirname(os.path.abspath(__file__)))
import cxx2c
for t in ('clang++', 'goto-cc', 'goto-instrument', 'cbmc', 'gcc', 'g++'):
    if shutil.which(t) is None:
        print('missing tool', t); sys.exit(1)
assert cxx2c.parse_type('void (*)(void *)') == ('ptr', ('fn', ('b', 'void'), [('ptr', ('b', 'void'))], False))
assert cxx2c.parse_type('char *[15]') == ('arr', ('ptr', ('b', 'char')), 15)
assert cxx2c.norm_name('::babylon::X<unsigned long, 128UL>::Y') == 'babylon::X<unsigned long,128>::Y'
print('selftest ok')
