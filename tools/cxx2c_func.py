"""FuncLowerer: one instantiated C++ function (clang JSON AST) -> one C function."""
import re, os
from cxx2c import (Abort, abort, parse_type, norm_name, sanitize, MEMORY_ORDER, FUNC_KINDS, RECORD_KINDS,
                   OPERATOR_NAMES)

ATOMIC_METHODS = {'load', 'store', 'exchange', 'fetch_add', 'fetch_sub', 'fetch_or', 'fetch_and', 'fetch_xor',
                  'compare_exchange_strong', 'compare_exchange_weak'}

# std:: / builtin callees that are mapped to C helpers defined in vf_prelude.h (trusted, listed)
STD_FUNCS = {
    'max': 'VF_MAX', 'min': 'VF_MIN',
    '__builtin_expect': 'VF_EXPECT', '__builtin_unreachable': 'VF_UNREACHABLE',
    '__builtin_ctzll': 'vf_ctzll', '__builtin_clzll': 'vf_clzll', '__builtin_ctzl': 'vf_ctzll', '__builtin_clzl': 'vf_clzll',
    '__builtin_ctz': 'vf_ctz', '__builtin_clz': 'vf_clz', '__builtin_popcountll': 'vf_popcountll', '__builtin_popcount': 'vf_popcount', '__builtin_popcountl': 'vf_popcountll',
    '__builtin_memcpy': 'memcpy', '__builtin_memset': 'memset', 'memcpy': 'memcpy', 'memset': 'memset',
    'memmove': 'memmove', '__builtin_memmove': 'memmove',
}
PASS_THROUGH_FUNCS = {'move', 'forward', 'addressof', '__addressof', 'launder', 'as_const'}


def is_static_method(unit, d):
    if d.get('storageClass') == 'static':
        return True
    first = unit.ix.byid.get(unit.first_of.get(d.get('id'), d.get('id')))
    return bool(first is not None and first.get('storageClass') == 'static')


class FuncLowerer:
    def __init__(self, unit, d):
        self.u = unit
        self.d = d
        self.ix = unit.ix
        self.tmp_decls = []
        self.ntmp = 0
        self.loop_ord = 0
        self.local_names = {}     # decl id -> C name
        self.used_locals = set()
        self.cname = unit.func_cname(d)
        self.dropped_logs = 0
        self.atomic_site_count = {}
        self.scope_exits = []     # stack of lists of exit-action strings (RAII)
        self.pending_dtors = []   # destructor calls of temporaries, run at the end of the current full-expression
        self.ret_is_ref = False
        self.is_method = d.get('kind') in ('CXXMethodDecl', 'CXXConstructorDecl', 'CXXDestructorDecl', 'CXXConversionDecl') \
            and not is_static_method(unit, d)
        self.closure = None       # for lambda operator(): capture map id -> C expression
        cls = self.class_of_method(d) if d.get('kind') == 'CXXMethodDecl' else None
        if cls is not None and cls.get('definitionData', {}).get('isLambda'):
            self.closure = self.closure_map(cls)

    # ------------------------------------------------------------------ helpers
    def fresh_tmp(self, ty):
        self.ntmp += 1
        nm = '__t%d' % self.ntmp
        self.tmp_decls.append('  %s;' % self.u.ctype(ty, nm))
        return nm

    def local(self, decl):
        if decl['id'] in self.local_names:
            return self.local_names[decl['id']]
        nm = decl.get('name') or '__unnamed'
        base = nm
        if base in C_KEYWORDS:
            base = base + '_'
        c = base
        k = 1
        while c in self.used_locals:
            k += 1
            c = '%s_%d' % (base, k)
        self.used_locals.add(c)
        self.local_names[decl['id']] = c
        # positional names for specs: @p1@ ... parameters, @l1@ ... locals in declaration order (robust against renaming)
        if decl.get('kind') == 'ParmVarDecl':
            self.param_order = getattr(self, 'param_order', []) + [c]
        else:
            self.local_order = getattr(self, 'local_order', []) + [c]
        return c

    def class_of_method(self, d):
        sem = d.get('parentDeclContextId')
        p = self.ix.byid.get(sem) if sem else d.get('_parent')
        while p is not None and p.get('kind') in ('FunctionTemplateDecl',):
            p = p.get('_parent')
        return p

    def _init_capture_var(self, rec, field, taken):
        """id of the init-capture variable stored in `field`: a VarDecl referenced in the call operator that is declared nowhere
        in the AST and has the field's type; None unless exactly one candidate is left"""
        want = field.get('type', {}).get('desugaredQualType') or field.get('type', {}).get('qualType')
        cands = {}
        def walk(n):
            if n.get('kind') == 'DeclRefExpr':
                rd = n.get('referencedDecl', {})
                if rd.get('kind') == 'VarDecl' and rd.get('id') not in self.ix.byid and rd.get('id') not in taken:
                    t = rd.get('type', {})
                    if (t.get('desugaredQualType') or t.get('qualType')) == want:
                        cands[rd['id']] = rd.get('name')
            for c in n.get('inner', []):
                walk(c)
        for c in rec.get('inner', []):
            if c.get('kind') == 'CXXMethodDecl' and c.get('name') == 'operator()':
                walk(c)
        return list(cands)[0] if len(cands) == 1 else None

    def closure_map(self, rec):
        """captured variable id (or 'this') -> C expression over the closure object `self`"""
        u = self.u
        lam = rec.get('_parent')
        if lam is None or lam.get('kind') != 'LambdaExpr':
            abort('lambda record without LambdaExpr parent', rec)
        fields = [c for c in rec.get('inner', []) if c.get('kind') == 'FieldDecl']
        inits = [c for c in lam.get('inner', []) if c.get('kind') not in ('CXXRecordDecl', 'CompoundStmt')]
        if len(fields) != len(inits):
            abort('lambda capture count mismatch', lam)
        u.records.setdefault(u.qualname(rec), rec)
        u.record_fields(rec)      # names the capture fields cap0..capN
        m = {}
        for f, ini in zip(fields, inits):
            fname = u.field_cname(f)
            fty = u.type_of(f)
            acc = '(*self->%s)' % fname if u.is_ref(fty) else 'self->%s' % fname
            core = ini
            while core.get('kind') in ('ImplicitCastExpr', 'ParenExpr', 'UnaryOperator', 'CXXConstructExpr', 'MaterializeTemporaryExpr') and core.get('inner'):
                core = core['inner'][0]
            if core.get('kind') == 'CXXThisExpr':
                m['this'] = 'self->%s' % fname
            elif core.get('kind') == 'DeclRefExpr':
                m[core['referencedDecl']['id']] = acc
            else:
                # init-capture (name = expr): the body refers to a VarDecl that the AST only mentions by id and name
                vid = self._init_capture_var(rec, f, m)
                if vid is None:
                    abort('lambda capture initialiser of kind %s' % core.get('kind'), ini)
                m[vid] = acc
        return m

    def this_type(self):
        cls = self.class_of_method(self.d)
        if cls is None or cls.get('kind') not in RECORD_KINDS:
            abort('method without class', self.d)
        return ('ptr', ('rec', self.u.qualname(cls)))

    # ------------------------------------------------------------------ signature
    def signature(self, d=None, cname=None):
        d = d or self.d
        u = self.u
        fty = u.resolve(parse_type(u._decl_type_str(d)))
        if fty[0] != 'fn':
            abort('function type expected', d)
        ret = fty[1]
        params = []
        is_method = d.get('kind') in ('CXXMethodDecl', 'CXXConstructorDecl', 'CXXDestructorDecl', 'CXXConversionDecl') \
            and not is_static_method(u, d)
        if is_method:
            cls = self.class_of_method(d)
            if cls is not None and cls.get('kind') in RECORD_KINDS:
                params.append((('ptr', ('rec', u.qualname(cls))), 'self'))
            else:
                abort('method without class', d)
        pv = [c for c in d.get('inner', []) if c.get('kind') == 'ParmVarDecl']
        if len(pv) != len(fty[2]):
            abort('parameter count mismatch', d)
        for p, pt in zip(pv, fty[2]):
            pty = u.type_of(p)
            if u.is_ref(pty):
                pty = ('ptr', pty[1])
            if pty[0] == 'arr':
                pty = ('ptr', pty[1])
            name = self.local(p) if d is self.d else (p.get('name') or 'p%d' % len(params))
            params.append((pty, name))
        if d.get('kind') in ('CXXConstructorDecl', 'CXXDestructorDecl'):
            ret = ('b', 'void')
        ret_is_ref = u.is_ref(ret)
        if ret_is_ref:
            ret = ('ptr', ret[1])
        return ret, params, ret_is_ref

    def proto_text(self, d=None, cname=None):
        ret, params, _ = self.signature(d, cname)
        ps = ', '.join(self.u.ctype(t, n) for t, n in params) or 'void'
        return self.u.ctype(ret, '%s(%s)' % (cname or self.cname, ps))

    # ------------------------------------------------------------------ top level
    def lower(self):
        u = self.u
        d = self.d
        par = d.get('_parent')
        # lambda operator(): self is the closure struct
        ret, params, self.ret_is_ref = self.signature()
        self.ret_type = ret
        proto = self.proto_text()
        u.protos[self.cname] = proto + ';'
        body = None
        inits = []
        for c in d.get('inner', []):
            if c.get('kind') == 'CompoundStmt':
                body = c
            elif c.get('kind') == 'CXXCtorInitializer':
                inits.append(c)
            elif c.get('kind') == 'CXXTryStmt':
                abort('function-try-block', c)
        lines = []
        if d.get('kind') == 'CXXConstructorDecl':
            lines += self.ctor_inits(inits)
        if body is None:
            if d.get('explicitlyDefaulted') == 'default' or d.get('isImplicit'):
                lines += self.defaulted_body()
            else:
                abort('function without body', d)
        else:
            self.scope_exits.append([])
            for s in body.get('inner', []):
                lines += self.stmt(s, 1)
            lines += ['  ' + x for x in self.scope_exits.pop()]
        if d.get('kind') == 'CXXDestructorDecl':
            lines += self.dtor_epilogue()
        text = '/* %s  (%s:%s) */\n%s\n{\n%s%s\n}\n' % (
            u.qualname(d), d.get('_file'), d.get('_line'), proto,
            ''.join(x + '\n' for x in self.tmp_decls), '\n'.join(lines))
        u.report['functions'].append({'cxx': u.qualname(d), 'c': self.cname, 'file': d.get('_file'), 'line': d.get('_line'),
                                      'type': u._decl_type_str(d), 'dropped_log_stmts': self.dropped_logs,
                                      'loops': self.loop_ord, 'atomic_sites': dict(self.atomic_site_count),
                                      'params': list(getattr(self, 'param_order', [])), 'locals': list(getattr(self, 'local_order', []))})
        return text

    def defaulted_body(self):
        d = self.d
        k = d.get('kind')
        if k == 'CXXConstructorDecl':
            pv = [c for c in d.get('inner', []) if c.get('kind') == 'ParmVarDecl']
            if not pv:
                return []   # initializers already emitted by ctor_inits
            if len(pv) == 1:
                # copy / move constructor: memberwise == struct assignment for the records we accept
                self.require_trivially_copyable_members(d)
                return ['  *self = *%s;' % self.local(pv[0])]
        if k == 'CXXMethodDecl' and d.get('name') == 'operator=':
            pv = [c for c in d.get('inner', []) if c.get('kind') == 'ParmVarDecl']
            self.require_trivially_copyable_members(d)
            return ['  *self = *%s;' % self.local(pv[0]), '  return self;']
        if k == 'CXXDestructorDecl':
            return []
        abort('defaulted function of unknown shape', d)

    def require_trivially_copyable_members(self, d):
        cls = self.class_of_method(d)
        self.check_memberwise(cls, d)

    def check_memberwise(self, cls, where):
        u = self.u
        for kind, cname, x in u.record_fields(cls):
            if kind == 'field':
                t = u.type_of(x)
                while t[0] == 'arr':
                    t = t[1]
                if t[0] == 'rec':
                    sub = u.records.get(t[1])
                    if sub is None:
                        abort('memberwise copy of unknown record %s' % t[1], where)
                    dd = sub.get('definitionData', {})
                    for w in ('copyCtor', 'moveCtor', 'copyAssign', 'moveAssign'):
                        if dd.get(w, {}).get('userDeclared') and not dd.get(w, {}).get('trivial'):
                            # user-provided special member: cannot be a plain struct copy
                            if dd.get(w, {}).get('nonTrivial'):
                                abort('memberwise copy through user-provided %s of %s' % (w, t[1]), where)
                    self.check_memberwise(sub, where)
            elif kind == 'base':
                sub = u.records.get(x[1])
                if sub is not None:
                    self.check_memberwise(sub, where)

    def dtor_epilogue(self):
        """members and bases with non-trivial destructors are destroyed after the body"""
        u = self.u
        cls = self.class_of_method(self.d)
        out = []
        for kind, cname, x in reversed(u.record_fields(cls)):
            if kind == 'field':
                t = u.type_of(x)
                if t[0] == 'rec':
                    call = self.dtor_call(t[1], '&self->%s' % cname, x)
                    if call:
                        out.append('  ' + call + ';')
                elif t[0] == 'arr' and t[1][0] == 'rec' and self.dtor_call(t[1][1], 'x', x):
                    abort('array member with non-trivial destructor', x)
            elif kind == 'base':
                call = self.dtor_call(x[1], '&self->%s' % cname, self.d)
                if call:
                    out.append('  ' + call + ';')
        return out

    def dtor_call(self, recname, ptr_expr, where):
        """C call text for destroying *ptr_expr of record recname, or None when it is a no-op"""
        u = self.u
        rec = u.records.get(recname)
        if rec is None:
            from cxx2c import PREDEFINED_STRUCTS
            if recname in u.cfg.opaque_records or recname.startswith('std::pmr::memory_resource') or recname in PREDEFINED_STRUCTS or recname in u.cfg.trivial_copy:
                return None
            if recname in u.cfg.outside_methods:
                cn = sanitize(u.alias(recname)) + '_dtor'
                self.outside_proto(cn, ('b', 'void'), [('ptr', ('rec', recname))], recname + '::~', where)
                return '%s(%s)' % (cn, ptr_expr)
            abort('destructor of unknown record %s' % recname, where)
        dd = rec.get('definitionData', {})
        if dd.get('dtor', {}).get('trivial') or dd.get('dtor', {}).get('irrelevant') and not dd.get('dtor', {}).get('nonTrivial'):
            return None
        dt = None
        for c in rec.get('inner', []):
            if c.get('kind') == 'CXXDestructorDecl':
                dt = c
        if dt is None:
            # implicit non-trivial destructor: members need destruction
            sub = []
            for kind, cname, x in reversed(u.record_fields(rec)):
                if kind == 'field':
                    t = u.type_of(x)
                    if t[0] == 'rec':
                        c2 = self.dtor_call(t[1], '&(%s)->%s' % (ptr_expr, cname), x)
                        if c2:
                            sub.append(c2)
                elif kind == 'base':
                    c2 = self.dtor_call(x[1], '&(%s)->%s' % (ptr_expr, cname), where)
                    if c2:
                        sub.append(c2)
            if not sub:
                return None
            return '(' + ', '.join(sub) + ')'
        defn, first = u.func_def(dt['id'])
        qn = u.qualname(dt)
        if u.is_extern_name(qn):
            return '%s(%s)' % (self.extern_func(dt), ptr_expr)
        if defn is None:
            if dt.get('explicitlyDefaulted') == 'default' or dt.get('isImplicit'):
                defn = dt
            else:
                # declared-only (verification parameter type): an extern function with a contract or stub
                return '%s(%s)' % (self.extern_func(dt), ptr_expr)
        body = [c for c in defn.get('inner', []) if c.get('kind') == 'CompoundStmt']
        if body and not body[0].get('inner') and not self.members_need_dtor(rec):
            return None     # empty user-provided destructor (production configuration)
        u.want(defn)
        return '%s(%s)' % (u.func_cname(defn), ptr_expr)

    def members_need_dtor(self, rec):
        u = self.u
        for kind, cname, x in u.record_fields(rec):
            if kind == 'field':
                t = u.type_of(x)
                if t[0] == 'rec' and self.dtor_call(t[1], 'x', x):
                    return True
            elif kind == 'base':
                if self.dtor_call(x[1], 'x', rec):
                    return True
        return False

    def ctor_inits(self, inits):
        u = self.u
        out = []
        cls = self.class_of_method(self.d)
        for ini in inits:
            inner = ini.get('inner', [])
            if 'anyInit' in ini:
                fld = ini['anyInit']
                fdecl = self.ix.byid.get(fld['id'])
                if fdecl is None:
                    abort('ctor initializer for unknown field', ini)
                fty = u.type_of(fdecl)
                target = 'self->%s' % (u.field_cname(fdecl))
                e = inner[0]
                if e.get('kind') == 'CXXDefaultInitExpr' and not e.get('inner'):
                    # clang's JSON does not repeat the default member initialiser: take it from the field
                    finit = [x for x in fdecl.get('inner', []) if 'Attr' not in x.get('kind', '')]
                    if not finit:
                        abort('default member initialiser not found', fdecl)
                    e = finit[0]
                out += self.init_object(target, fty, e, 1)
            elif 'baseInit' in ini:
                bt = u.resolve(parse_type(ini['baseInit'].get('desugaredQualType') or ini['baseInit']['qualType']))
                if bt[0] != 'rec':
                    abort('base init of non-record', ini)
                # delegating or base constructor
                clsname = u.qualname(cls)
                if bt[1] == clsname:
                    target = '(*self)'
                elif (u.records.get(bt[1]) or u.records.get(u._fuzzy_record(bt[1]) or '') or {}).get('definitionData', {}).get('isEmpty'):
                    target = '(*(%s)self)' % u.ctype(('ptr', bt))     # empty base: same address, no member
                else:
                    target = 'self->__base_' + sanitize(bt[1].split('::')[-1])
                out += self.init_object(target, bt, inner[0], 1)
            elif 'delegatingInit' in ini:
                bt = u.resolve(parse_type(ini['delegatingInit'].get('desugaredQualType') or ini['delegatingInit']['qualType']))
                out += self.init_object('(*self)', bt, inner[0], 1)
            else:
                abort('unknown ctor initializer', ini)
        return out

    # ------------------------------------------------------------------ object initialisation
    def init_object(self, target, ty, e, ind):
        """statements initialising lvalue `target` of type ty from init expr e"""
        u = self.u
        pad = '  ' * ind
        e = self.strip_wrappers(e)
        k = e.get('kind')
        if u.is_ref(ty):
            return ['%s%s = %s;' % (pad, target, self.addr(e))]
        if ty[0] == 'atomic':
            # atomic member/variable initialisation is a plain store before publication
            if k == 'CXXConstructExpr':
                args = [a for a in e.get('inner', []) if a.get('kind') != 'CXXDefaultArgExpr']
                if not args:
                    return ['%s%s = 0;' % (pad, target)] if ty[1][0] != 'rec' else ['%s/* default-initialised atomic record */' % pad]
                return ['%s%s = %s;' % (pad, target, self.expr(args[0]))]
            if k == 'InitListExpr':
                args = e.get('inner', [])
                if not args:
                    return ['%s%s = 0;' % (pad, target)]
                return ['%s%s = %s;' % (pad, target, self.expr(args[0]))]
            return ['%s%s = %s;' % (pad, target, self.expr(e))]
        if ty[0] == 'rec':
            if k == 'CXXConstructExpr':
                return [pad + self.construct_into('&' + target if not target.startswith('(*') else target[2:-1], ty, e) + ';']
            if k == 'InitListExpr':
                return self.init_list_into(target, ty, e, ind)
            if k == 'CXXDefaultInitExpr':
                return self.init_object(target, ty, e['inner'][0], ind) if e.get('inner') else abort('default init without expr', e)
            if k == 'ImplicitValueInitExpr':
                u.need_struct(ty[1])
                return ['%s%s = (%s){0};' % (pad, target, u.ctype(ty))]
            if k == 'LambdaExpr':
                return self.lambda_into(target, ty, e, ind)
            return ['%s%s = %s;' % (pad, target, self.expr(e))]
        if ty[0] == 'arr':
            if k == 'InitListExpr':
                out = []
                elems = e.get('inner', [])
                filler = None
                if 'array_filler' in e:
                    elems = [x for x in e['array_filler'] if x.get('kind') != 'ImplicitValueInitExpr'] if False else elems
                for i, x in enumerate(elems):
                    out += self.init_object('%s[%d]' % (target, i), ty[1], x, ind)
                if ty[2] is not None and len(elems) < ty[2]:
                    abort('partially initialised array', e)
                return out
            if k == 'ImplicitValueInitExpr':
                return ['%smemset(%s, 0, sizeof(%s));' % (pad, target, target)]
            if k == 'CXXConstructExpr':
                # array of records default-constructed
                et = ty[1]
                if et[0] == 'rec' and not [a for a in e.get('inner', [])]:
                    call = self.construct_into('&%s[__i]' % target, et, e)
                    if call.startswith('(void)0'):
                        return []
                    return ['%sfor (size_t __i = 0; __i < %d; ++__i) { %s; }' % (pad, ty[2], call)]
            abort('array initialisation form %s' % k, e)
        if k == 'InitListExpr':
            inner = e.get('inner', [])
            if not inner:
                return ['%s%s = 0;' % (pad, target)]
            if len(inner) == 1:
                return ['%s%s = %s;' % (pad, target, self.expr(inner[0]))]
            abort('scalar init list with several elements', e)
        if k == 'ImplicitValueInitExpr':
            return ['%s%s = 0;' % (pad, target)]
        if k == 'CXXDefaultInitExpr':
            return self.init_object(target, ty, e['inner'][0], ind)
        return ['%s%s = %s;' % (pad, target, self.expr(e))]

    def init_list_into(self, target, ty, e, ind):
        u = self.u
        rec = u.records.get(ty[1])
        if rec is None:
            libc = {'iovec': [('iov_base', ('ptr', ('b', 'void'))), ('iov_len', ('b', 'unsigned long'))],
                    'timespec': [('tv_sec', ('b', 'long')), ('tv_nsec', ('b', 'long'))]}.get(ty[1])
            if libc is None or len(e.get('inner', [])) != len(libc):
                abort('init list for unknown record %s' % ty[1], e)
            out = []    # plain C struct of libc (declared by the prelude's system header): members in declaration order
            for (fname, fty), el in zip(libc, e['inner']):
                out += self.init_object('%s.%s' % (target, fname), fty, el, ind)
            return out
        fields = [(k, c, x) for k, c, x in u.record_fields(rec) if k in ('field', 'base')]
        elems = e.get('inner', [])
        out = []
        if len(elems) > len(fields):
            abort('too many initialisers', e)
        for (kind, cname, x), el in zip(fields, elems):
            fty = u.type_of(x) if kind == 'field' else x
            if el.get('kind') == 'CXXDefaultInitExpr' and not el.get('inner') and kind == 'field':
                # clang's JSON does not repeat the default member initialiser here: take it from the field declaration
                ini = [c for c in x.get('inner', []) if c.get('kind', '').endswith('Expr') or c.get('kind', '').endswith('Literal')]
                if len(ini) != 1:
                    abort('default member initialiser of %s not found' % cname, el)
                el = ini[0]
            out += self.init_object('%s.%s' % (target, cname), fty, el, ind)
        if len(elems) < len(fields):
            abort('init list shorter than record', e)
        return out

    def _has_bind_temporary(self, e):
        while e.get('kind') in ('ExprWithCleanups', 'CXXBindTemporaryExpr', 'ConstantExpr', 'FullExpr', 'MaterializeTemporaryExpr') or \
                (e.get('kind') in ('ImplicitCastExpr', 'CXXFunctionalCastExpr', 'CXXStaticCastExpr') and e.get('castKind') in ('NoOp', 'ConstructorConversion')):
            if e.get('kind') == 'CXXBindTemporaryExpr':
                return True
            if not e.get('inner'):
                break
            e = e['inner'][0]
        return False

    def strip_wrappers(self, e):
        while e.get('kind') in ('ExprWithCleanups', 'CXXBindTemporaryExpr', 'ConstantExpr', 'FullExpr') or \
                (e.get('kind') == 'MaterializeTemporaryExpr') or \
                (e.get('kind') in ('ImplicitCastExpr', 'CXXFunctionalCastExpr', 'CXXStaticCastExpr') and e.get('castKind') in ('NoOp', 'ConstructorConversion')):
            if e.get('kind') == 'ConstantExpr' and 'value' in e and not e.get('inner'):
                break
            e = e['inner'][0]
        return e

    def construct_into(self, ptr, ty, e):
        """C expression (call) constructing record ty at pointer expression ptr from CXXConstructExpr e"""
        u = self.u
        args = e.get('inner', [])
        ctor_sig = e.get('ctorType', {}).get('qualType')
        rec = u.records.get(ty[1])
        if rec is None:
            from cxx2c import PREDEFINED_STRUCTS
            if ty[1] in PREDEFINED_STRUCTS and not args:
                return '(void)0 /* trivial default ctor of C struct %s */' % ty[1]
            if (ty[1] in PREDEFINED_STRUCTS or ty[1] in u.cfg.trivial_copy) and len(args) == 1:
                return '(*(%s) = %s)' % (ptr, self.expr(args[0]))
            if ty[1] in u.cfg.outside_methods:
                real = [a for a in args if a.get('kind') != 'CXXDefaultArgExpr']
                cn = sanitize(u.alias(ty[1])) + '_ctor_%d' % len(real)
                ats, avs = self.outside_args(real)
                self.outside_proto(cn, ('b', 'void'), [('ptr', ty)] + ats, ty[1] + '::' + ty[1].split('::')[-1], e)
                return '%s(%s)' % (cn, ', '.join([ptr] + avs))
            abort('construct of unknown record %s' % ty[1], e)
        ctor = self.find_ctor(rec, ctor_sig, e)
        if ctor is None:
            abort('constructor %s of %s not found' % (ctor_sig, ty[1]), e)
        # copy/move elision of a prvalue of the same type
        if len(args) == 1 and (ctor.get('isImplicit') or ctor.get('explicitlyDefaulted') == 'default' or self.is_copy_move(ctor, ty)):
            a = self.strip_wrappers(args[0])
            if a.get('kind') in ('CXXConstructExpr', 'CXXTemporaryObjectExpr') and u.type_of(a) == ty:
                return self.construct_into(ptr, ty, a)
            if ctor.get('isImplicit') or ctor.get('explicitlyDefaulted') == 'default':
                d0, _ = u.func_def(ctor['id'])
                materialised = d0 is not None and any(c.get('kind') == 'CXXCtorInitializer' for c in d0.get('inner', []))
                trivial = rec.get('definitionData', {}).get('moveCtor', {}).get('trivial') or rec.get('definitionData', {}).get('copyCtor', {}).get('trivial')
                if not materialised:
                    self.check_memberwise(rec, e)
                    return '(*(%s) = %s)' % (ptr, self.expr(args[0]))
        qn = u.qualname(ctor)
        if u.is_extern_name(qn):
            fn = self.extern_func(ctor)
            return '%s(%s)' % (fn, ', '.join([ptr] + self.call_args(ctor, args)))
        defn, first = u.func_def(ctor['id'])
        if defn is None:
            if not (ctor.get('isImplicit') or ctor.get('explicitlyDefaulted')):
                # declared-only constructor of a verification parameter type
                fn = self.extern_func(ctor)
                return '%s(%s)' % (fn, ', '.join([ptr] + self.call_args(ctor, args)))
            abort('constructor %s has no definition' % qn, e)
        if not args and (defn.get('isImplicit') or defn.get('explicitlyDefaulted') == 'default') and \
                not any(c.get('kind') == 'CXXCtorInitializer' for c in defn.get('inner', [])):
            if rec.get('definitionData', {}).get('defaultCtor', {}).get('trivial'):
                return '(void)0 /* trivial default ctor */'
            # implicit default ctor that was never materialised: needs default member inits
            if self.has_member_inits(rec):
                abort('implicit default constructor with member initialisers not materialised in AST: %s' % qn, e)
            return '(void)0 /* no-op default ctor */'
        u.want(defn)
        return '%s(%s)' % (u.func_cname(defn), ', '.join([ptr] + self.call_args(defn, args)))

    def has_member_inits(self, rec):
        u = self.u
        for kind, cname, x in u.record_fields(rec):
            if kind == 'field':
                if x.get('hasInClassInitializer'):
                    return True
                t = u.type_of(x)
                if t[0] == 'rec':
                    sub = u.records.get(t[1])
                    if sub is not None and not sub.get('definitionData', {}).get('defaultCtor', {}).get('trivial'):
                        return True
                if t[0] == 'atomic':
                    pass
            elif kind == 'base':
                sub = u.records.get(x[1])
                if sub is not None and not sub.get('definitionData', {}).get('defaultCtor', {}).get('trivial'):
                    return True
        return False

    def is_copy_move(self, ctor, ty):
        pv = [c for c in ctor.get('inner', []) if c.get('kind') == 'ParmVarDecl']
        if len(pv) != 1:
            return False
        pt = self.u.type_of(pv[0])
        return self.u.is_ref(pt) and pt[1] == ty

    def find_ctor(self, rec, sig, where):
        cands = []

        def visit(n):
            for c in n.get('inner', []):
                if c.get('kind') == 'CXXConstructorDecl':
                    cands.append(c)
                elif c.get('kind') == 'FunctionTemplateDecl':
                    for x in c.get('inner', [])[0:]:
                        if x.get('kind') == 'CXXConstructorDecl' and any(y.get('kind') == 'TemplateArgument' for y in x.get('inner', [])):
                            cands.append(x)
        visit(rec)
        want = norm_name(sig) if sig else None
        for c in cands:
            if norm_name(c['type']['qualType']) == want:
                return c
        # compare resolved parameter types
        try:
            wt = self.u.resolve(parse_type(sig))
        except Abort:
            wt = None
        for c in cands:
            try:
                ct = self.u.resolve(parse_type(c['type']['qualType']))
            except Abort:
                continue
            if wt is not None and ct[2] == wt[2]:
                return c
        return None

    # ------------------------------------------------------------------ statements
    def stmt(self, s, ind):
        """one statement; destructors of temporaries created by its full-expressions run right after it"""
        saved = self.pending_dtors
        self.pending_dtors = []
        k = s.get('kind')
        out = self._stmt(s, ind)
        pend = self.pending_dtors
        self.pending_dtors = saved
        if pend:
            if k in ('IfStmt', 'WhileStmt', 'DoStmt', 'ForStmt', 'SwitchStmt', 'ReturnStmt', 'CompoundStmt', 'CaseStmt', 'DefaultStmt'):
                abort('temporary with a non-trivial destructor inside a %s head/return value (not in the accepted subset)' % k, s)
            out = out + ['  ' * ind + x for x in reversed(pend)]
        return out

    def _stmt(self, s, ind):
        pad = '  ' * ind
        k = s.get('kind')
        u = self.u
        if k == 'CompoundStmt':
            self.scope_exits.append([])
            out = [pad + '{']
            for c in s.get('inner', []):
                out += self.stmt(c, ind + 1)
            out += [pad + '  ' + x for x in self.scope_exits.pop()]
            out.append(pad + '}')
            return out
        if k == 'DeclStmt':
            out = []
            for c in s.get('inner', []):
                out += self.decl(c, ind)
            return out
        if k == 'NullStmt':
            return [pad + ';']
        if k == 'ReturnStmt':
            exits = [x for frame in reversed(self.scope_exits) for x in reversed(frame)]
            inner = s.get('inner', [])
            if not inner:
                return [pad + x for x in exits] + [pad + 'return;']
            e = inner[0]
            if self.ret_type == ('b', 'void'):
                return [pad + self.expr(e) + ';'] + [pad + x for x in exits] + [pad + 'return;']
            val = self.addr(e) if self.ret_is_ref else self.value_expr(e, self.ret_type)
            # temporaries of the returned full-expression are destroyed after the value is computed and before the locals
            tmpd = list(reversed(self.pending_dtors))
            self.pending_dtors = []
            if self.ret_is_ref and tmpd:
                abort('returning a reference computed from temporaries with destructors', s)
            if exits or tmpd:
                t = self.fresh_tmp(('ptr', self.ret_type) if self.ret_is_ref else self.ret_type)
                return [pad + '%s = %s;' % (t, val)] + [pad + x for x in tmpd] + [pad + x for x in exits] + [pad + 'return %s;' % t]
            return [pad + 'return %s;' % val]
        if k == 'IfStmt':
            inner = list(s.get('inner', []))
            if s.get('hasInit') or s.get('hasVar'):
                abort('if with init/var', s)
            cond = inner[0]
            then = inner[1]
            els = inner[2] if len(inner) > 2 else None
            if s.get('isConstexpr'):
                v = u._const_value(cond)
                # both branches may be present in instantiation only when value-dependent; take the live one
                if v in ('true', 'false', '0', '1', 0, 1, True, False):
                    live = v in ('true', '1', 1, True)
                    if live:
                        return self.stmt_block(then, ind)
                    return self.stmt_block(els, ind) if els is not None else []
            out = [pad + 'if (%s)' % self.cond(cond)]
            out += self.stmt_block(then, ind)
            if els is not None:
                out.append(pad + 'else')
                out += self.stmt_block(els, ind)
            return out
        if k == 'WhileStmt':
            inner = s.get('inner', [])
            if len(inner) != 2:
                abort('while with condition variable', s)
            self.loop_ord += 1
            lc = self.loop_contract()
            self.loop_guard_raii()
            rb = self.take_rebase()
            head = pad + 'while (%s)' % self.cond(inner[0])
            body = self.rebased(self.stmt_block(inner[1], ind), rb)
            return [head] + self.with_auto_temps(lc, body + [head]) + body
        if k == 'DoStmt':
            inner = s.get('inner', [])
            self.loop_ord += 1
            lc = self.loop_contract()
            rb = self.take_rebase()
            body = self.rebased(self.stmt_block(inner[0], ind), rb)
            tail = pad + 'while (%s);' % self.cond(inner[1])
            return [pad + 'do'] + self.with_auto_temps(lc, body + [tail]) + body + [tail]
        if k == 'ForStmt':
            inner = s.get('inner', [])
            # clang: init, condvar, cond, inc, body (missing ones are {} placeholders)
            if len(inner) != 5:
                abort('for statement shape', s)
            init, condvar, cond, inc, body = inner
            if condvar and condvar.get('kind'):
                abort('for with condition variable', s)
            out = [pad + '{']
            if init and init.get('kind'):
                out += self.stmt(init, ind + 1)
            self.loop_ord += 1
            lc = self.loop_contract()
            c = self.cond(cond) if cond and cond.get('kind') else '1'
            i = self.expr(inc) if inc and inc.get('kind') else ''
            head = '%s  for (; %s; %s)' % (pad, c, i)
            out.append(head)
            rb = self.take_rebase()
            bodyb = self.rebased(self.stmt_block(body, ind + 1), rb)
            out += self.with_auto_temps(lc, bodyb + [head])
            out += bodyb
            out.append(pad + '}')
            return out
        if k == 'BreakStmt':
            return [pad + 'break;']
        if k == 'ContinueStmt':
            return [pad + 'continue;']
        if k == 'SwitchStmt':
            inner = s.get('inner', [])
            if len(inner) != 2:
                abort('switch with init', s)
            out = [pad + 'switch (%s)' % self.expr(inner[0])]
            out += self.stmt_block(inner[1], ind)
            return out
        if k == 'CaseStmt':
            inner = s.get('inner', [])
            v = self.expr(inner[0])
            out = [pad + 'case %s:' % v]
            out += self.stmt(inner[-1], ind + 1)
            return out
        if k == 'DefaultStmt':
            out = [pad + 'default:']
            out += self.stmt(s['inner'][0], ind + 1)
            return out
        if k == 'CXXForRangeStmt':
            # clang has already desugared it: [init] __range, __begin, __end, cond, inc, loop variable, body
            inner = [x for x in s.get('inner', [])]
            if len(inner) != 8:
                abort('range-for shape (%d children)' % len(inner), s)
            init, rng, beg, end, cond, inc, var, body = inner
            out = [pad + '{']
            self.scope_exits.append([])      # __range / __begin / __end live in this block
            for d in (init, rng, beg, end):
                if d and d.get('kind'):
                    out += self.stmt(d, ind + 1)
            self.loop_ord += 1
            lc = self.loop_contract()
            out.append('%s  for (; %s; %s)' % (pad, self.cond(cond), self.expr(inc)))
            out += lc
            out.append(pad + '  {')
            self.scope_exits.append([])
            out += self.stmt(var, ind + 2)
            if body.get('kind') == 'CompoundStmt':
                for c in body.get('inner', []):
                    out += self.stmt(c, ind + 2)
            else:
                out += self.stmt(body, ind + 2)
            out += [pad + '    ' + x for x in self.scope_exits.pop()]
            out.append(pad + '  }')
            out += [pad + '  ' + x for x in self.scope_exits.pop()]
            out.append(pad + '}')
            return out
        if k in ('GotoStmt', 'LabelStmt', 'CXXTryStmt', 'CoreturnStmt', 'CXXThrowExpr', 'AttributedStmt'):
            if k == 'AttributedStmt':
                return self.stmt(s['inner'][-1], ind)
            abort('statement kind not in the accepted subset: %s' % k, s)
        # expression statement
        if self.is_log_stmt(s):
            self.dropped_logs += 1
            return [pad + '/* log statement dropped */;']
        core = s
        while core.get('kind') in ('ExprWithCleanups', 'ParenExpr') and core.get('inner'):
            core = core['inner'][0]
        if s.get('valueCategory') == 'lvalue' and core.get('kind') in ('CallExpr', 'CXXMemberCallExpr', 'CXXOperatorCallExpr'):
            # discarded-value lvalue (e.g. a call returning a reference): C++ does not read it
            x = self.expr(s)
            if x.startswith('(*') and balanced(x[2:-1]):
                return [pad + '(void)' + addr_of(x) + ';']
            return [pad + x + ';']
        return [pad + self.expr(s) + ';']

    def stmt_block(self, s, ind):
        """statement as a braced block"""
        if s.get('kind') == 'CompoundStmt':
            return self.stmt(s, ind)
        pad = '  ' * ind
        self.scope_exits.append([])
        body = self.stmt(s, ind + 1)
        ex = self.scope_exits.pop()
        return [pad + '{'] + body + [pad + '  ' + x for x in ex] + [pad + '}']

    def loop_guard_raii(self):
        pass

    def loop_contract(self):
        t = self.u.cfg.loop_contracts.get((self.cname, self.loop_ord))
        self._rebase = []
        if t is None:
            return []
        self.u.cfg.loop_contracts_used = getattr(self.u.cfg, 'loop_contracts_used', set())
        self.u.cfg.loop_contracts_used.add((self.cname, self.loop_ord))
        lines = []
        self._rebase = []
        po, lo = getattr(self, 'param_order', []), getattr(self, 'local_order', [])

        def positional(m):
            # @l3:i@ : the local named i if there is one (robust against reordered declarations), else the 3rd declared local
            # (robust against renaming); @p2@ / @l3@ : purely positional
            kind, n, nm = m.group(1), int(m.group(2)), m.group(3)
            seq = po if kind == 'p' else lo
            if nm and nm in seq:
                return nm
            if n < 1 or n > len(seq):
                raise Abort('loop contract of %s refers to @%s%d%s@ but only %d are declared before the loop' % (self.cname, kind, n, ':' + nm if nm else '', len(seq)))
            return seq[n - 1]
        t = re.sub(r'@([pl])(\d+)(?::(\w+))?@', positional, t)
        for x in t.strip().split('\n'):
            m = re.match(r'\s*VF_REBASE\((.+?),\s*(.+)\)\s*$', x)
            if m:
                # verification-only identity on a loop-modified pointer: p = base + (p - base).  The loop invariant must state
                # same_object(p, base); the statement changes no value, it only gives cbmc's dereferencing the object back after
                # the loop-contract instrumentation has havoced p (a havoced pointer dereferences to an unconstrained object).
                self._rebase.append('\n#ifdef VF_LOOPS_APPLIED\n%s = (%s) + ((%s) - (%s)); /* VF_REBASE: identity; only in jobs that apply loop contracts (the pointer is havoced there), see DESIGN */\n#endif\n' % (m.group(1), m.group(2), m.group(1), m.group(2)))
            else:
                lines.append('    ' + x)
        return lines

    def take_rebase(self):
        rb = getattr(self, '_rebase', [])
        self._rebase = []
        return rb

    def with_auto_temps(self, lc, block):
        """compiler-style temporaries (__tN) assigned inside the loop body are added to the loop's assigns clause automatically,
        so that a spec does not depend on how the lowering numbers its temporaries"""
        if not lc:
            return lc
        temps = sorted(set(re.findall(r'\b__t\d+\b', '\n'.join(block))), key=lambda x: int(x[3:]))
        if not temps:
            return lc
        out = []
        done = False
        for line in lc:
            m = re.match(r'^(\s*__CPROVER_assigns\()(.*)\)\s*$', line)
            if m and not done:
                have = set(re.findall(r'\b__t\d+\b', m.group(2)))
                extra = [t for t in temps if t not in have]
                line = m.group(1) + ', '.join([m.group(2)] + extra) + ')'
                done = True
            out.append(line)
        return out

    def rebased(self, block, rb):
        if not rb:
            return block
        if not block or block[0].strip() != '{':
            raise Abort('VF_REBASE needs a compound loop body')
        ind = block[0][:len(block[0]) - len(block[0].lstrip())]
        return [block[0]] + [ind + '  ' + x for x in rb] + block[1:]

    def is_log_stmt(self, s):
        """BABYLON_LOG(...) << ...; expands to a conditional / for construct around a LogStream"""
        txt = s.get('type', {}).get('qualType', '')
        def has_log(n, depth=0):
            if depth > 40:
                return False
            t = n.get('type', {}).get('qualType', '')
            if re.search(r'LogStream\b', t) or 'babylon::Logger' in t:    # LogStream, DefaultLogStream ... but not LogStreamBuffer
                return True
            return any(has_log(c, depth + 1) for c in n.get('inner', []) if isinstance(c, dict))
        return has_log(s)

    def cond(self, e):
        return self.expr(e)

    def decl(self, c, ind):
        pad = '  ' * ind
        u = self.u
        k = c.get('kind')
        if k in ('TypedefDecl', 'TypeAliasDecl', 'StaticAssertDecl', 'UsingDecl', 'CXXRecordDecl', 'EnumDecl', 'UsingDirectiveDecl'):
            if k == 'CXXRecordDecl' and c.get('completeDefinition'):
                # local class: register under its qualified name
                u.records.setdefault(u.qualname(c), c)
            return []
        if k != 'VarDecl':
            abort('declaration kind %s' % k, c)
        ty = u.type_of(c)
        name = self.local(c)
        if c.get('storageClass') == 'static' or c.get('tls'):
            return self.static_local(c, ty, name, ind)
        inner = [x for x in c.get('inner', []) if x.get('kind') not in ('TypeVisibilityAttr', 'UnusedAttr', 'MaybeUnusedAttr', 'AlignedAttr')]
        if u.is_ref(ty):
            if not inner:
                abort('reference without initialiser', c)
            return ['%s%s = %s;' % (pad, u.ctype(('ptr', ty[1]), name), self.addr(inner[0]))]
        out = []
        if ty[0] == 'rec' or ty[0] == 'arr' or ty[0] == 'atomic':
            out.append('%s%s;' % (pad, u.ctype(ty, name)))
            if inner:
                out += self.init_object(name, ty, inner[0], ind)
            elif ty[0] == 'rec':
                pass
            if ty[0] == 'rec':
                call = self.dtor_call(ty[1], '&' + name, c)
                if call:
                    self.scope_exits[-1].append(call + ';')
            return out
        if not inner:
            return ['%s%s;' % (pad, u.ctype(ty, name))]
        return ['%s%s = %s;' % (pad, u.ctype(ty, name), self.value_expr(inner[0], ty))]

    def static_local(self, c, ty, name, ind):
        u = self.u
        pad = '  ' * ind
        g = '%s__static_%s' % (self.cname, name)
        if u.is_ref(ty):
            abort('static reference local', c)
        u.static_locals[g] = u.ctype(ty, g)
        self.local_names[c['id']] = g
        u.consts[g] = 'extern %s; /* function-local static of %s (initialisation not modelled) */' % (u.ctype(ty, g), self.cname)
        return ['%s/* static local %s: see %s */' % (pad, name, g)]

    # ------------------------------------------------------------------ expressions
    def value_expr(self, e, ty=None):
        return self.expr(e)

    def addr(self, e):
        """C expression for the address of lvalue expression e (reference binding)"""
        x = self.expr(e)
        return addr_of(x)

    def expr(self, e):
        k = e.get('kind')
        m = getattr(self, 'e_' + k, None)
        if m is None:
            abort('expression kind not in the accepted subset: %s' % k, e)
        return m(e)

    # -- leaves
    def e_IntegerLiteral(self, e):
        ty = self.u.type_of(e)
        v = str(e['value'])
        suf = {'unsigned long': 'UL', 'long': 'L', 'unsigned int': 'U', 'unsigned long long': 'ULL', 'long long': 'LL'}.get(ty[1], '')
        return v + suf

    def e_CXXBoolLiteralExpr(self, e):
        return '1' if e['value'] else '0'

    def e_CXXNullPtrLiteralExpr(self, e):
        return '((void*)0)'

    def e_GNUNullExpr(self, e):
        return '((void*)0)'

    def e_CharacterLiteral(self, e):
        return str(e['value'])

    def e_FloatingLiteral(self, e):
        return str(e['value'])

    def e_StringLiteral(self, e):
        return e['value']

    def e_CXXThisExpr(self, e):
        if self.closure is not None and 'this' in self.closure:
            return self.closure['this']
        return 'self'

    def e_ParenExpr(self, e):
        return '(' + self.expr(e['inner'][0]) + ')'

    def e_ConstantExpr(self, e):
        if 'value' in e and re.match(r'^-?\d+$', str(e['value'])):
            ty = self.u.type_of(e)
            if ty[0] in ('b', 'enum'):
                return '((%s)%s)' % (self.u.ctype(ty), e['value'])
        if e.get('inner'):
            return self.expr(e['inner'][0])
        return str(e['value'])

    def e_CXXRewrittenBinaryOperator(self, e):
        # C++20: a != b rewritten by the compiler as !(a == b) etc.; the child is the rewritten expression
        r = self.strip_wrappers(e['inner'][0])
        if r.get('kind') == 'CXXOperatorCallExpr' and len(r['inner']) == 3:
            # (a <=> b) OP 0 on two pointer-like iterators (__normal_iterator, lowered to the pointer it wraps): a OP b
            cd = self.callee_decl(r['inner'][0])
            op = cd[0].get('name', '')[len('operator'):] if cd else ''
            sp = self.strip_wrappers(r['inner'][1])
            if op in ('<', '>', '<=', '>=') and sp.get('kind') == 'CXXOperatorCallExpr' and len(sp['inner']) == 3:
                cd2 = self.callee_decl(sp['inner'][0])
                a, b = sp['inner'][1], sp['inner'][2]
                ta, tb = self.u.strip_ref(self.u.type_of(a)), self.u.strip_ref(self.u.type_of(b))
                if cd2 and cd2[0].get('name') == 'operator<=>' and cd2[1] is None and ta[0] == 'ptr' and tb[0] == 'ptr':
                    return '(%s %s %s)' % (self.expr(a), op, self.expr(b))
        return self.expr(e['inner'][0])

    def e_ExprWithCleanups(self, e):
        return self.expr(e['inner'][0])

    def e_CXXBindTemporaryExpr(self, e):
        """a temporary whose destructor is not trivial: materialise it and destroy it at the end of the full-expression"""
        u = self.u
        ty = u.type_of(e)
        inner = e['inner'][0]
        if ty[0] != 'rec':
            return self.expr(inner)
        dt = self.dtor_call(ty[1], '&__TMP__', e)
        if dt is None:
            return self.expr(inner)
        if getattr(self, '_lifetime_extended', False):
            abort('lifetime-extended temporary with a non-trivial destructor', e)
        t = self.fresh_tmp(ty)
        self._last_bind_tmp = t
        self.pending_dtors.append(dt.replace('&__TMP__', '&' + t) + ';')
        si = self.strip_wrappers(inner)
        if si.get('kind') in ('CXXConstructExpr', 'CXXTemporaryObjectExpr'):
            return '(%s, %s)' % (self.construct_into('&' + t, ty, si), t)
        if si.get('kind') == 'InitListExpr' and ty[0] == 'rec':
            # aggregate initialisation of the temporary itself (no intermediate copy that would be destroyed in its place)
            stmts = self.init_list_into(t, ty, si, 0)
            return '(%s, %s)' % (', '.join(x.strip().rstrip(';') for x in stmts), t)
        return '(%s = %s, %s)' % (t, self.expr(inner), t)

    def e_SubstNonTypeTemplateParmExpr(self, e):
        return self.expr(e['inner'][-1])

    def e_CXXDefaultArgExpr(self, e):
        if e.get('inner'):
            return self.expr(e['inner'][0])
        abort('default argument without expression', e)

    def e_CXXDefaultInitExpr(self, e):
        return self.expr(e['inner'][0])

    def e_ImplicitValueInitExpr(self, e):
        ty = self.u.type_of(e)
        if ty[0] in ('b', 'ptr', 'enum'):
            return '0'
        return '((%s){0})' % self.u.ctype(ty)

    def e_CXXScalarValueInitExpr(self, e):
        return '((%s)0)' % self.u.ctype(self.u.type_of(e))

    def e_MaterializeTemporaryExpr(self, e):
        inner = e['inner'][0]
        ty = self.u.type_of(e)
        si = self.strip_wrappers(inner)
        if ty[0] == 'rec' and si.get('kind') in ('CXXConstructExpr', 'CXXTemporaryObjectExpr'):
            t = self.fresh_tmp(ty)
            if self._has_bind_temporary(inner):
                # strip_wrappers went through the CXXBindTemporaryExpr: the temporary still has to be destroyed at the end
                # of the full-expression (storage duration 'full expression'; lifetime-extended ones abort)
                dt = self.dtor_call(ty[1], '&' + t, e)
                if dt is not None:
                    if e.get('storageDuration') not in (None, 'full expression') or e.get('extendingDecl'):
                        abort('lifetime-extended temporary with a non-trivial destructor', e)
                    self.pending_dtors.append(dt + ';')
            return '(*(%s, &%s))' % (self.construct_into('&' + t, ty, si), t)
        if ty[0] == 'rec' and si.get('kind') == 'LambdaExpr':
            return self.e_LambdaExpr(si)
        b = inner
        while b.get('kind') in ('ExprWithCleanups', 'FullExpr') or (b.get('kind') in ('ImplicitCastExpr', 'CXXFunctionalCastExpr') and b.get('castKind') in ('NoOp', 'ConstructorConversion')):
            b = b['inner'][0]
        if ty[0] == 'rec' and b.get('kind') == 'CXXBindTemporaryExpr':
            # the bound temporary *is* the materialised object: no second copy (a copy would be destroyed in its place)
            self._last_bind_tmp = None
            x = self.e_CXXBindTemporaryExpr(b)
            if self._last_bind_tmp is not None:
                return '(*(%s, &%s))' % (x, self._last_bind_tmp)
            t = self.fresh_tmp(ty)
            return '(*(%s = %s, &%s))' % (t, x, t)
        t = self.fresh_tmp(ty)
        return '(*(%s = %s, &%s))' % (t, self.expr(inner), t)

    def e_DeclRefExpr(self, e):
        rd = e['referencedDecl']
        k = rd.get('kind')
        u = self.u
        if k == 'VarDecl' and rd.get('name') in MEMORY_ORDER and 'memory_order' in rd.get('type', {}).get('qualType', ''):
            return str(MEMORY_ORDER[rd['name']])
        if k in ('ParmVarDecl', 'VarDecl'):
            decl = self.ix.byid.get(rd['id'])
            if self.closure is not None and rd['id'] in self.closure:
                return self.closure[rd['id']]
            if rd['id'] in self.local_names:
                nm = self.local_names[rd['id']]
                dty = u.resolve(parse_type(rd['type'].get('desugaredQualType') or rd['type']['qualType']))
                if decl is not None:
                    dty = u.type_of(decl)
                return '(*%s)' % nm if u.is_ref(dty) else nm
            if decl is None:
                abort('reference to a variable outside the babylon AST: %s' % rd.get('name'), e)
            return self.global_var(decl, e)
        if k == 'EnumConstantDecl':
            nm = rd.get('name')
            if nm in MEMORY_ORDER:
                return str(MEMORY_ORDER[nm])
            decl = self.ix.byid.get(rd['id'])
            if decl is None:
                abort('enum constant outside AST: %s' % nm, e)
            v = u._const_value(decl)
            if v is None:
                # implicit enumerator value: position in enum
                par = decl.get('_parent')
                val = -1
                for c in par.get('inner', []):
                    if c.get('kind') != 'EnumConstantDecl':
                        continue
                    cv = u._const_value(c)
                    val = int(cv) if cv is not None else val + 1
                    if c is decl:
                        break
                v = val
            return '%s /* %s */' % (v, nm)
        if k in FUNC_KINDS:
            return self.func_ref(rd, e)
        if k == 'NonTypeTemplateParmDecl':
            abort('unsubstituted template parameter (uninstantiated pattern?)', e)
        if k == 'BindingDecl':
            abort('structured binding', e)
        abort('DeclRefExpr to %s' % k, e)

    def global_var(self, decl, e):
        """static data member / namespace-scope variable"""
        u = self.u
        qn = u.qualname(decl)
        cn = sanitize(re.sub(r'^babylon::', '', qn))
        ty = u.type_of(decl)
        if cn not in u.consts:
            init = [x for x in decl.get('inner', []) if x.get('kind') not in ('TemplateArgument',) and 'Attr' not in x.get('kind', '')]
            is_const = decl.get('constexpr') or 'const ' in (decl['type'].get('qualType') + ' ')
            if is_const and init and ty[0] in ('b', 'enum', 'ptr'):
                v = u._const_value(init[0]) if init[0].get('kind') == 'ConstantExpr' else None
                if v is None:
                    sub = FuncLowerer.__new__(FuncLowerer)
                    sub.__dict__.update(self.__dict__)
                    v = sub.expr(init[0])
                u.consts[cn] = '#define %s ((%s)(%s))' % (cn, u.ctype(ty), v)
            else:
                if u.is_ref(ty):
                    abort('global reference variable', decl)
                u.consts[cn] = 'extern %s; /* %s */' % (u.ctype(ty, cn), qn)
                u.report['externs'].append({'var': qn, 'c': cn})
        return cn

    def func_ref(self, rd, e):
        """a function used as a value (callee position is handled in calls)"""
        decl = self.ix.byid.get(rd['id'])
        if decl is None:
            abort('reference to function outside babylon AST: %s' % rd.get('name'), e)
        return self.callee_name(decl, e)

    def callee_name(self, decl, where):
        """C name of a babylon function; schedules its lowering unless extern"""
        u = self.u
        qn = u.qualname(decl)
        defn, first = u.func_def(decl['id'])
        if u.is_extern_name(qn) or decl.get('virtual') and not getattr(self, '_devirt', False):
            return self.extern_func(decl)
        if defn is None:
            if decl.get('pure'):
                return self.extern_func(decl)
            # declared-only function (verification parameter types, or defined in another TU)
            return self.extern_func(decl)
        if u._is_template_pattern(defn):
            abort('call resolved to an uninstantiated template pattern %s' % qn, where)
        u.want(defn)
        return u.func_cname(defn)

    def extern_func(self, decl):
        u = self.u
        first = u.first_of.get(decl['id'], decl['id'])
        fd = self.ix.byid.get(first, decl)
        cn = u.func_cname(fd)
        if cn not in u.extern_protos:
            sub = FuncLowerer(u, fd)
            u.extern_protos[cn] = 'extern ' + sub.proto_text(fd, cn) + ';'
            u.report['externs'].append({'cxx': u.qualname(fd), 'c': cn, 'virtual': bool(fd.get('virtual')),
                                        'type': u._decl_type_str(fd)})
        return cn

    # -- members
    def e_MemberExpr(self, e):
        u = self.u
        base = e['inner'][0]
        mid = e.get('referencedMemberDecl')
        md = self.ix.byid.get(mid)
        if md is None:
            bt = u.type_of(base)
            from cxx2c import PREDEFINED_STRUCTS
            rt = bt[1] if bt[0] == 'ptr' else bt
            if rt[0] == 'rec' and rt[1] in PREDEFINED_STRUCTS and e.get('name'):
                b = self.expr(base)
                return '%s->%s' % (b, e['name']) if e.get('isArrow') else '%s.%s' % (b, e['name'])    # plain C struct of libc
            abort('member %s of a record outside the babylon AST (%r)' % (e.get('name'), bt), e)
        k = md.get('kind')
        if k == 'FieldDecl':
            b = self.expr(base)
            nm = u.field_cname(md)
            prec = md.get('_parent')
            if prec is not None and prec.get('kind') in RECORD_KINDS:
                u.need_struct(u.qualname(prec))
            fty = u.type_of(md)
            acc = '%s->%s' % (b, nm) if e.get('isArrow') else '%s.%s' % (b, nm)
            fa = getattr(u.cfg, 'field_alias', {}).get((u.qualname(prec) if prec is not None else None, nm))
            if fa is not None:
                # group-declared overlap of this field with other storage of the same record (stated in DESIGN): '{obj}' is 'X.' / 'X->'
                acc = fa.replace('{obj}', ('%s->' % b) if e.get('isArrow') else ('%s.' % b))
            if u.is_ref(fty):
                return '(*%s)' % acc
            return acc
        if k == 'VarDecl':
            return self.global_var(md, e)
        if k in FUNC_KINDS:
            abort('bound member function used as value', e)
        if k == 'EnumConstantDecl':
            return str(u._const_value(md))
        abort('member kind %s' % k, e)

    # -- casts
    def e_ImplicitCastExpr(self, e):
        return self.cast(e)

    def e_CStyleCastExpr(self, e):
        return self.cast(e)

    def e_CXXStaticCastExpr(self, e):
        return self.cast(e)

    def e_CXXReinterpretCastExpr(self, e):
        return self.cast(e)

    def e_CXXConstCastExpr(self, e):
        return self.cast(e)

    def e_CXXFunctionalCastExpr(self, e):
        return self.cast(e)

    def e_BuiltinBitCastExpr(self, e):
        abort('bit_cast', e)

    def cast(self, e):
        u = self.u
        ck = e.get('castKind')
        sub = e['inner'][0]
        if ck in ('LValueToRValue', 'NoOp', 'ArrayToPointerDecay', 'FunctionToPointerDecay', 'ConstructorConversion',
                  'UserDefinedConversion', 'AtomicToNonAtomic', 'NonAtomicToAtomic', 'BuiltinFnToFnPtr'):
            if ck == 'LValueToRValue':
                st = u.type_of(sub)
                if st[0] == 'atomic':
                    abort('plain read of an atomic object', e)
            if ck == 'NoOp' and e.get('valueCategory') == 'lvalue' and e.get('kind') == 'CXXReinterpretCastExpr':
                pass
            return self.expr(sub)
        ty = u.type_of(e)
        if ck in ('IntegralCast', 'BitCast', 'IntegralToPointer', 'PointerToIntegral', 'FloatingCast', 'IntegralToFloating',
                  'FloatingToIntegral', 'BooleanToSignedIntegral'):
            if e.get('valueCategory') == 'lvalue':
                abort('lvalue cast %s' % ck, e)
            if ck == 'BitCast' and ty[0] == 'ptr' and ty[1][0] == 'atomic':
                ty = ('ptr', ty[1][1])
            if ck in ('IntegralToPointer', 'PointerToIntegral') and getattr(u.cfg, 'address_model', False):
                # group option address_model: pointer <-> integer conversions go through the group's address model (VF_P2I / VF_I2P in
                # spec.h), because cbmc keeps an object number in the top bits of a pointer, where tagged-pointer code keeps its tag
                if ck == 'PointerToIntegral':
                    return '((%s)VF_P2I((void *)(%s)))' % (u.ctype(ty), self.expr(sub))
                return '((%s)VF_I2P((unsigned long)(%s)))' % (u.ctype(ty), self.expr(sub))
            return '((%s)(%s))' % (u.ctype(ty), self.expr(sub))
        if ck == 'LValueBitCast':
            # reinterpret_cast<T&>(x)
            tt = ty
            if tt[0] == 'atomic':
                tt = tt[1]
            return '(*(%s)%s)' % (u.ctype(('ptr', tt)), addr_of(self.expr(sub)))
        if ck in ('IntegralToBoolean', 'PointerToBoolean', 'FloatingToBoolean', 'MemberPointerToBoolean'):
            return '((%s) != 0)' % self.expr(sub)
        if ck == 'NullToPointer':
            return '((%s)0)' % u.ctype(ty)
        if ck == 'ToVoid':
            return '((void)(%s))' % self.expr(sub)
        if ck in ('UncheckedDerivedToBase', 'DerivedToBase'):
            st = u.type_of(sub)
            x = self.expr(sub)
            is_ptr = st[0] == 'ptr'
            cur = st[1] if is_ptr else st
            if cur[0] == 'atomic':
                return x   # std::atomic<T> -> std::__atomic_base<T>: same object
            if cur[0] == 'rec' and u.records.get(cur[1]) is None and cur[1] in u.cfg.outside_methods:
                # allow-listed record outside the AST (an opaque blob whose members are contract stubs): its bases are the same
                # object seen through another stub type; only single inheritance chains at offset 0 are accepted (std smart pointers)
                if is_ptr:
                    return '((%s)(%s))' % (u.ctype(ty), x)
                return '(*(%s)%s)' % (u.ctype(('ptr', u.strip_ref(ty))), addr_of(x))
            for step in e.get('path', []):
                nm = '__base_' + sanitize(norm_name(step['name']).split('::')[-1])
                if cur[0] == 'rec':
                    u.need_struct(cur[1])
                    drec0 = u.records.get(cur[1]) or u.records.get(u._fuzzy_record(cur[1]) or '')
                    if drec0 is not None:
                        # the path names a class template base without its arguments: take the field name of the unique matching base
                        cands = []
                        for b in drec0.get('bases', []):
                            bt = u.resolve(parse_type(b['type'].get('desugaredQualType') or b['type']['qualType']))
                            if bt[0] == 'rec':
                                last = bt[1].split('::')[-1]
                                simple = bt[1].split('<')[0].split('::')[-1]      # class name without namespace and arguments
                                if sanitize(last) == nm[len('__base_'):] or simple == norm_name(step['name']).split('<')[0].split('::')[-1]:
                                    cands.append('__base_' + sanitize(last))
                        if len(set(cands)) == 1:
                            nm = cands[0]
                        elif os.environ.get('VF_DEBUG'):
                            print('DEBUG base path', cur, step.get('name'), cands, [b['type'] for b in drec0.get('bases', [])])
                drec_e = (u.records.get(cur[1]) or u.records.get(u._fuzzy_record(cur[1]) or '')) if cur[0] == 'rec' else None
                empty_base = None
                if drec_e is not None:
                    for b in drec_e.get('bases', []):
                        bt = u.resolve(parse_type(b['type'].get('desugaredQualType') or b['type']['qualType']))
                        if bt[0] == 'rec' and '__base_' + sanitize(bt[1].split('::')[-1]) == nm and (u.records.get(bt[1]) or {}).get('definitionData', {}).get('isEmpty'):
                            empty_base = bt
                if empty_base is not None:
                    # empty base: no member in the C struct, the base subobject is the same address seen as the base type
                    if is_ptr:
                        x = '((%s)(%s))' % (u.ctype(('ptr', empty_base)), x)
                    else:
                        x = '(*(%s)%s)' % (u.ctype(('ptr', empty_base)), addr_of(x))
                elif is_ptr:
                    x = '(&(%s)->%s)' % (x, nm)
                else:
                    x = '(%s).%s' % (x, nm)
                drec = u.records.get(cur[1]) if cur[0] == 'rec' else None
                nxt = None
                if drec is not None:
                    for b in drec.get('bases', []):
                        bt = u.resolve(parse_type(b['type'].get('desugaredQualType') or b['type']['qualType']))
                        if bt[0] == 'rec' and sanitize(bt[1].split('::')[-1]) == nm[len('__base_'):]:
                            nxt = bt
                cur = nxt if nxt is not None else cur
            return x
        if ck == 'BaseToDerived':
            # bases are laid out first; only the first (offset 0) base is accepted
            st = u.type_of(sub)
            if ty[0] == 'ptr':
                return '((%s)(%s))' % (u.ctype(ty), self.expr(sub))
            return '(*(%s)%s)' % (u.ctype(('ptr', u.strip_ref(ty))), addr_of(self.expr(sub)))
        if ck == 'Dependent':
            abort('dependent cast (uninstantiated template)', e)
        abort('cast kind %s' % ck, e)

    # -- operators
    def e_UnaryOperator(self, e):
        op = e['opcode']
        sub = e['inner'][0]
        if op == '&' and sub.get('kind') == 'DeclRefExpr' and sub['referencedDecl'].get('kind') == 'CXXMethodDecl':
            # &Class::method : pointer to member function, an opaque two-word value whose first word names the lowered function
            decl = self.ix.byid.get(sub['referencedDecl']['id'])
            if decl is None:
                abort('pointer to a member function outside the babylon AST', e)
            return '((struct vf_memfnptr){ (void *)%s, 0 })' % self.callee_name(decl, e)
        x = self.expr(sub)
        if op == '&':
            return addr_of(x)
        if op == '*':
            return '(*%s)' % x
        if e.get('isPostfix'):
            return '(%s%s)' % (x, op)
        if op in ('++', '--', '-', '+', '!', '~'):
            if op in ('-', '~', '+'):
                ty = self.u.type_of(e)
                return '((%s)(%s%s))' % (self.u.ctype(ty), op, x)
            return '(%s%s)' % (op, x)
        if op == '__extension__':
            return x
        abort('unary operator %s' % op, e)

    def e_BinaryOperator(self, e):
        u = self.u
        op = e['opcode']
        l, r = e['inner']
        if op in ('<', '>', '<=', '>='):
            lt = u.type_of(l)
            if lt[0] == 'ptr':
                return '((uintptr_t)(%s) %s (uintptr_t)(%s))' % (self.expr(l), op, self.expr(r))
        if op == ',':
            return '(%s, %s)' % (self.expr(l), self.expr(r))
        if op == '=':
            lt = u.type_of(l)
            if lt[0] == 'atomic':
                abort('plain assignment to atomic', e)
            return '(%s = %s)' % (self.expr(l), self.expr(r))
        if op in ('.*', '->*', '<=>'):
            abort('operator %s' % op, e)
        ty = u.type_of(e)
        x = '(%s %s %s)' % (self.expr(l), op, self.expr(r))
        if op in ('+', '-', '*', '/', '%', '<<', '>>', '&', '|', '^') and ty[0] == 'b' and ty[1] not in ('float', 'double', 'long double'):
            # the C usual arithmetic conversions agree with C++ here; make the result type explicit
            return '((%s)%s)' % (u.ctype(ty), x)
        return x

    def e_CompoundAssignOperator(self, e):
        l, r = e['inner']
        lt = self.u.type_of(l)
        if lt[0] == 'atomic':
            abort('compound assignment to atomic', e)
        return '(%s %s %s)' % (self.expr(l), e['opcode'], self.expr(r))

    def e_ConditionalOperator(self, e):
        c, a, b = e['inner']
        if e.get('valueCategory') == 'lvalue':
            return '(*(%s ? %s : %s))' % (self.expr(c), self.addr(a), self.addr(b))
        return '(%s ? %s : %s)' % (self.expr(c), self.expr(a), self.expr(b))

    def e_ArraySubscriptExpr(self, e):
        a, i = e['inner']
        return '%s[%s]' % (self.expr(a), self.expr(i))

    def e_UnaryExprOrTypeTraitExpr(self, e):
        u = self.u
        nm = e.get('name')
        if 'argType' in e:
            ty = u.resolve(parse_type(e['argType'].get('desugaredQualType') or e['argType']['qualType']))
            ty = u.strip_ref(ty)
            if ty[0] == 'atomic':
                ty = ty[1]
            t = u.ctype(ty)
        else:
            sub = e['inner'][0]
            ty = u.strip_ref(u.type_of(sub))
            if ty[0] == 'atomic':
                ty = ty[1]
            t = u.ctype(ty)
        if nm == 'sizeof':
            return '((size_t)sizeof(%s))' % t
        if nm in ('alignof', '__alignof'):
            return '((size_t)_Alignof(%s))' % t
        abort('type trait %s' % nm, e)

    def e_InitListExpr(self, e):
        ty = self.u.type_of(e)
        if ty[0] == 'rec':
            t = self.fresh_tmp(ty)
            stmts = self.init_list_into(t, ty, e, 0)
            return '(%s, %s)' % (', '.join(s.strip().rstrip(';') for s in stmts), t)
        inner = e.get('inner', [])
        if len(inner) == 1:
            return self.expr(inner[0])
        if not inner:
            return '0'
        abort('init list expression', e)

    def e_PredefinedExpr(self, e):
        return '""'

    def e_OpaqueValueExpr(self, e):
        abort('opaque value', e)

    def e_StmtExpr(self, e):
        abort('statement expression', e)

    def e_TypeTraitExpr(self, e):
        if 'value' in e:
            return '1' if e['value'] else '0'
        abort('type trait without value', e)

    def e_CXXNoexceptExpr(self, e):
        return '1' if e.get('value') else '0'

    def e_SizeOfPackExpr(self, e):
        abort('sizeof...', e)

    # -- construction
    def e_CXXConstructExpr(self, e):
        ty = self.u.type_of(e)
        from cxx2c import PREDEFINED_STRUCTS
        if ty[0] == 'rec' and ty[1] not in self.u.records and (ty[1] in PREDEFINED_STRUCTS or ty[1] in self.u.cfg.trivial_copy) and len(e.get('inner', [])) == 1:
            return self.expr(e['inner'][0])     # trivial copy of a plain C struct / a listed trivially copyable outside record
        if ty[0] == 'b' and len(e.get('inner', [])) == 1:
            return self.expr(e['inner'][0])     # copy of a scalar-modelled record
        if ty[0] == 'rec':
            t = self.fresh_tmp(ty)
            return '(%s, %s)' % (self.construct_into('&' + t, ty, e), t)
        if ty[0] == 'atomic':
            abort('atomic temporary', e)
        abort('construct of non-record', e)

    def e_CXXTemporaryObjectExpr(self, e):
        return self.e_CXXConstructExpr(e)

    def e_CXXNewExpr(self, e):
        u = self.u
        if e.get('isArray') or e.get('isGlobal') is False and False:
            pass
        ty = u.type_of(e)
        inner = e.get('inner', [])
        placement = e.get('isPlacement')
        if e.get('isArray'):
            abort('array new', e)
        obj_t = ty[1]
        if placement:
            # new (ptr) T(args): construct in place.  clang orders the children [initializer][placement arguments...]
            has_init = 'initStyle' in e
            init = inner[0] if has_init and inner else None
            places = inner[1:] if has_init else inner
            if len(places) != 1:
                abort('placement new with %d placement arguments' % len(places), e)
            place = places[0]
            t = self.fresh_tmp(ty)
            p = '(%s = (%s)(%s))' % (t, u.ctype(ty), self.expr(place))
        else:
            init = inner[0] if inner else None
            t = self.fresh_tmp(ty)
            u.need_struct(obj_t[1]) if obj_t[0] == 'rec' else None
            al = '_Alignof(%s)' % u.ctype(obj_t)
            p = '(%s = (%s)vf_operator_new(sizeof(%s), %s))' % (t, u.ctype(ty), u.ctype(obj_t), al)
        if init is None:
            return '(%s, %s)' % (p, t)
        si = self.strip_wrappers(init)
        if obj_t[0] == 'rec' and si.get('kind') in ('CXXConstructExpr', 'CXXTemporaryObjectExpr'):
            return '(%s, %s, %s)' % (p, self.construct_into(t, obj_t, si), t)
        stm = self.init_object('(*%s)' % t, obj_t, init, 0)
        return '(%s, %s, %s)' % (p, ', '.join(s.strip().rstrip(';') for s in stm), t)

    def e_CXXDeleteExpr(self, e):
        u = self.u
        sub = e['inner'][0]
        if e.get('isArray'):
            abort('array delete', e)
        pty = u.type_of(sub)
        obj = pty[1]
        t = self.fresh_tmp(pty)
        parts = ['%s = %s' % (t, self.expr(sub))]
        dt = None
        if obj[0] == 'rec':
            dt = self.dtor_call(obj[1], t, e)
        sz = 'sizeof(%s)' % u.ctype(obj) if obj[0] != 'rec' or obj[1] in u.records else '0'
        body = (dt + ', ' if dt else '') + 'vf_operator_delete(%s, %s)' % (t, sz)
        return '(%s, (%s != 0 ? (%s, 0) : 0))' % (parts[0], t, body)

    def e_CXXPseudoDestructorExpr(self, e):
        abort('pseudo destructor', e)

    def e_LambdaExpr(self, e):
        ty = self.u.type_of(e)
        t = self.fresh_tmp(ty)
        stmts = self.lambda_into(t, ty, e, 0)
        if not stmts:
            return t
        return '(%s, %s)' % (', '.join(s.strip().rstrip(';') for s in stmts), t)

    def lambda_into(self, target, ty, e, ind):
        """initialise closure object `target` from LambdaExpr e"""
        u = self.u
        pad = '  ' * ind
        rec = None
        for c in e.get('inner', []):
            if c.get('kind') == 'CXXRecordDecl':
                rec = c
        if rec is None:
            abort('lambda without closure record', e)
        u.records.setdefault(u.qualname(rec), rec)
        fields = [c for c in rec.get('inner', []) if c.get('kind') == 'FieldDecl']
        # capture initialisers follow the record in 'inner', one per field, then the body
        inits = [c for c in e.get('inner', []) if c.get('kind') not in ('CXXRecordDecl', 'CompoundStmt')]
        if len(inits) != len(fields):
            abort('lambda capture count mismatch (%d fields, %d inits)' % (len(fields), len(inits)), e)
        out = []
        u.record_fields(rec)      # names the capture fields
        for i, (f, ini) in enumerate(zip(fields, inits)):
            fname = u.field_cname(f)
            fty = u.type_of(f)
            if u.is_ref(fty):
                out.append('%s%s.%s = %s;' % (pad, target, fname, self.addr(ini)))
            else:
                out += self.init_object('%s.%s' % (target, fname), fty, ini, ind)
        return out

    # -- calls
    def call_args(self, callee_decl, args, param_types=None):
        """lower call arguments, binding references by address"""
        u = self.u
        out = []
        if param_types is None:
            pv = [c for c in callee_decl.get('inner', []) if c.get('kind') == 'ParmVarDecl']
            param_types = [u.type_of(p) for p in pv]
        for i, a in enumerate(args):
            pt = param_types[i] if i < len(param_types) else None
            if pt is not None and u.is_ref(pt):
                out.append(self.addr(a))
            elif pt is not None and pt[0] == 'rec':
                out.append(self.expr(a))
            else:
                out.append(self.expr(a))
        return out

    def e_CallExpr(self, e):
        u = self.u
        inner = e['inner']
        callee = inner[0]
        args = inner[1:]
        cd = self.callee_decl(callee)
        if cd is None:
            # indirect call through a function pointer value
            cty = u.type_of(callee)
            fty = cty[1] if cty[0] == 'ptr' else cty
            if fty[0] != 'fn':
                abort('call through non-function', e)
            a = self.call_args(None, args, fty[2])
            call = '(%s)(%s)' % (self.expr(callee), ', '.join(a))
            return self.wrap_ref_result(call, fty[1])
        rd, decl = cd
        name = rd.get('name')
        if decl is None:
            return self.std_call(rd, name, args, e)
        qn = u.qualname(decl)
        if qn in u.cfg.drop_calls:
            return '((void)0)'
        cn = self.callee_name(decl, e)
        a = self.call_args(decl, args)
        fty = u.resolve(parse_type(u._decl_type_str(decl)))
        return self.wrap_ref_result('%s(%s)' % (cn, ', '.join(a)), fty[1])

    def wrap_ref_result(self, call, ret):
        if self.u.is_ref(ret):
            return '(*%s)' % call
        return call

    def callee_decl(self, callee):
        c = callee
        while c.get('kind') in ('ImplicitCastExpr', 'ParenExpr') and c.get('castKind', 'FunctionToPointerDecay') in ('FunctionToPointerDecay', 'NoOp', 'BuiltinFnToFnPtr'):
            c = c['inner'][0]
        if c.get('kind') == 'DeclRefExpr' and c['referencedDecl'].get('kind') in FUNC_KINDS:
            rd = c['referencedDecl']
            return rd, self.ix.byid.get(rd['id'])
        return None

    def std_call(self, rd, name, args, e):
        u = self.u
        if name in PASS_THROUGH_FUNCS:
            if len(args) != 1:
                abort('std::%s with %d args' % (name, len(args)), e)
            x = self.expr(args[0])
            if name in ('addressof', '__addressof'):
                return addr_of(x)
            return x
        if name in ('max', 'min', 'lowest') and len(args) == 0:
            # std::numeric_limits<T>::min()/max() for integral T
            ty = u.strip_ref(u.type_of(e))
            lim = {'long': ('(-9223372036854775807L-1)', '9223372036854775807L'), 'int': ('(-2147483647-1)', '2147483647'),
                   'unsigned long': ('0UL', '18446744073709551615UL'), 'unsigned int': ('0U', '4294967295U'),
                   'short': ('(-32768)', '32767'), 'unsigned short': ('0', '65535'), 'signed char': ('(-128)', '127'), 'unsigned char': ('0', '255'),
                   'long long': ('(-9223372036854775807LL-1)', '9223372036854775807LL'), 'unsigned long long': ('0ULL', '18446744073709551615ULL')}
            if ty[0] != 'b' or ty[1] not in lim:
                abort('numeric_limits::%s of %r' % (name, ty), e)
            return lim[ty[1]][1 if name == 'max' else 0]
        if name in ('max', 'min'):
            a, b = args
            ty = u.strip_ref(u.type_of(e))
            t1, t2 = self.fresh_tmp(ty), self.fresh_tmp(ty)
            op = '<' if name == 'max' else '>'
            # std::max(a,b): (a < b) ? b : a ; std::min(a,b): (b < a) ? b : a
            if name == 'max':
                return '(%s = %s, %s = %s, (%s < %s) ? %s : %s)' % (t1, self.expr(a), t2, self.expr(b), t1, t2, t2, t1)
            return '(%s = %s, %s = %s, (%s < %s) ? %s : %s)' % (t1, self.expr(a), t2, self.expr(b), t2, t1, t2, t1)
        if name == 'swap':
            a, b = args
            ty = u.strip_ref(u.type_of(a))
            triv = ty[0] == 'rec' and (u.records.get(ty[1]) or {}).get('definitionData', {}).get('isTriviallyCopyable')
            if ty[0] not in ('b', 'ptr', 'enum') and not triv:   # trivially copyable records: three struct copies, as std::swap does
                abort('std::swap on non-scalar %r' % (ty,), e)
            t = self.fresh_tmp(ty)
            pa, pb = self.fresh_tmp(('ptr', ty)), self.fresh_tmp(('ptr', ty))
            return '(%s = %s, %s = %s, %s = *%s, *%s = *%s, *%s = %s, (void)0)' % (
                pa, self.addr(a), pb, self.addr(b), t, pa, pa, pb, pb, t)
        if name == 'exchange' and len(args) == 2:
            # std::exchange(obj, new_value) on scalars: old = obj; obj = new_value; yields old
            a, b = args
            ty = u.strip_ref(u.type_of(a))
            if ty[0] not in ('b', 'ptr', 'enum'):
                abort('std::exchange on non-scalar %r' % (ty,), e)
            t = self.fresh_tmp(ty)
            pa = self.fresh_tmp(('ptr', ty))
            nb = b
            while nb.get('kind') in ('MaterializeTemporaryExpr', 'ExprWithCleanups') and nb.get('inner'):
                nb = nb['inner'][0]
            vb = '((%s)0)' % u.ctype(ty) if nb.get('kind') == 'CXXNullPtrLiteralExpr' else '((%s)(%s))' % (u.ctype(ty), self.expr(nb))
            return '(%s = %s, %s = *%s, *%s = %s, %s)' % (pa, self.addr(a), t, pa, pa, vb, t)
        if name == 'atomic_thread_fence':
            site = self.site('fence', 'fence')
            return 'vf_fence(%s, %s)' % (self.expr(args[0]), site)
        if name in STD_FUNCS:
            fty = u.resolve(parse_type(rd['type']['qualType']))
            a = self.call_args(None, args, fty[2])
            return '%s(%s)' % (STD_FUNCS[name], ', '.join(a))
        if name in ('operator new', 'operator delete'):
            a = [self.expr(x) for x in args]
            return 'vf_%s_%d(%s)' % (OPERATOR_NAMES[name], len(a), ', '.join(a))
        of = getattr(self.u.cfg, 'outside_funcs', {})
        if name in of:
            cn = of[name]
            fty = u.resolve(parse_type(rd['type']['qualType']))
            ps = [('ptr', p[1]) if u.is_ref(p) else p for p in fty[2]]
            ret = fty[1]
            proto = 'extern ' + u.ctype(('ptr', ret[1]) if u.is_ref(ret) else ret, '%s(%s)' % (cn, ', '.join(u.ctype(p) for p in ps) or 'void')) + ';'
            if cn not in u.extern_protos:
                u.extern_protos[cn] = proto
                u.report['externs'].append({'cxx': name, 'c': cn, 'virtual': False, 'type': rd['type']['qualType']})
            a = self.call_args(None, args, fty[2])
            return self.wrap_ref_result('%s(%s)' % (cn, ', '.join(a)), ret)
        h = getattr(self.u.cfg, 'std_call_hook', None)
        if h is not None:
            r = h(self, rd, name, args, e)
            if r is not None:
                return r
        abort('call to function outside the babylon AST with no mapping: %s : %s' % (name, rd.get('type', {}).get('qualType')), e)

    def site(self, field, op):
        key = '%s.%s' % (field, op)
        n = self.atomic_site_count.get(key, 0) + 1
        self.atomic_site_count[key] = n
        sid = '%s:%s:%d' % (self.cname, key, n)
        lst = self.u.report['atomic_sites']
        lst.append(sid)
        return 'VF_SITE(%d /* %s */)' % (len(lst), sid)

    def e_CXXMemberCallExpr(self, e):
        u = self.u
        inner = e['inner']
        callee = inner[0]
        args = inner[1:]
        while callee.get('kind') in ('ParenExpr',):
            callee = callee['inner'][0]
        if callee.get('kind') != 'MemberExpr':
            abort('member call through %s' % callee.get('kind'), e)
        obj = callee['inner'][0]
        mid = callee.get('referencedMemberDecl')
        md = self.ix.byid.get(mid)
        name = callee.get('name')
        oty = u.type_of(obj)
        is_arrow = callee.get('isArrow')
        objt = oty[1] if is_arrow and oty[0] == 'ptr' else oty
        if objt[0] == 'atomic':
            return self.atomic_call(obj, is_arrow, name, args, e, objt)
        if md is None:
            h = getattr(self.u.cfg, 'member_call_hook', None)
            if h is not None:
                r = h(self, obj, is_arrow, name, args, e, objt)
                if r is not None:
                    return r
            if objt[0] == 'rec' and name in self.u.cfg.outside_methods.get(objt[1], ()):
                return self.outside_member_call(obj, is_arrow, name, args, e, objt)
            abort('member call %s on a record outside the babylon AST (%r)' % (name, objt), e)
        objp = self.expr(obj) if is_arrow else addr_of(self.expr(obj))
        static_call = is_static_method(u, md)
        qn = u.qualname(md)
        if qn in u.cfg.drop_calls:
            return '((void)0)'
        # a qualified call (Base::f()) is non-virtual
        if md.get('virtual') and callee.get('_qualified'):
            self._devirt = True
        cn = self.callee_name(md, e)
        self._devirt = False
        a = self.call_args(md, args)
        fty = u.resolve(parse_type(u._decl_type_str(md)))
        ret = fty[1]
        if md.get('kind') == 'CXXConversionDecl':
            pass
        if static_call:
            return self.wrap_ref_result('((void)%s, %s(%s))' % (objp, cn, ', '.join(a)), ret)
        return self.wrap_ref_result('%s(%s)' % (cn, ', '.join([objp] + a)), ret)

    def outside_args(self, args):
        """argument types/values for a function outside the AST: an lvalue of record type is bound by reference"""
        u = self.u
        ats, avs = [], []
        for a in args:
            t = u.type_of(a)
            if t[0] == 'arr':
                t = ('ptr', t[1])
            if t[0] == 'rec' and a.get('valueCategory') in ('lvalue', 'xvalue'):
                # lvalue or xvalue (std::move(x), implicit move in return, materialised temporary): an existing object
                ats.append(('ptr', t))
                avs.append(self.addr(a))
            else:
                ats.append(t)
                avs.append(self.expr(a))
        return ats, avs

    def outside_proto(self, cn, ret, argtypes, cxxname, where):
        u = self.u
        proto = 'extern ' + u.ctype(ret, '%s(%s)' % (cn, ', '.join(u.ctype(('ptr', t[1]) if t[0] == 'arr' else t) for t in argtypes) or 'void')) + ';'
        if cn in u.extern_protos and u.extern_protos[cn] != proto:
            abort('outside function %s used with two different signatures' % cn, where)
        if cn not in u.extern_protos:
            u.extern_protos[cn] = proto
            u.report['externs'].append({'cxx': cxxname, 'c': cn, 'virtual': False, 'type': 'from call site'})

    def outside_member_call(self, obj, is_arrow, name, args, e, objt):
        """method of an allow-listed record outside babylon: extern C function whose prototype is
        taken from the call site (argument and result types as clang resolved them)"""
        u = self.u
        cn = sanitize(u.alias(objt[1])) + '_' + sanitize(name)
        ret = u.type_of(e)
        is_lv = e.get('valueCategory') == 'lvalue'
        given = [a for a in args if a.get('kind') != 'CXXDefaultArgExpr']
        if len(given) != len(args):
            # defaulted arguments of a function outside the AST have no expression here: the stub is the n-argument form
            cn += '_%dargs' % len(given)
            args = given
        ats, avs = self.outside_args(args)
        self.outside_proto(cn, ('ptr', ret) if is_lv else ret, [('ptr', objt)] + ats, objt[1] + '::' + name, e)
        objp = self.expr(obj) if is_arrow else addr_of(self.expr(obj))
        call = '%s(%s)' % (cn, ', '.join([objp] + avs))
        return '(*%s)' % call if is_lv else call

    def e_CXXOperatorCallExpr(self, e):
        u = self.u
        inner = e['inner']
        callee = inner[0]
        args = inner[1:]
        cd = self.callee_decl(callee)
        if cd is None:
            abort('operator call without resolved callee', e)
        rd, decl = cd
        name = rd.get('name')
        a0t = u.strip_ref(u.type_of(args[0])) if args else None
        if a0t is not None and a0t[0] == 'atomic':
            return self.atomic_operator(name, args, e, a0t)
        if decl is None and a0t is not None and a0t[0] == 'ptr' and '__normal_iterator<' in (args[0].get('type', {}).get('desugaredQualType') or args[0].get('type', {}).get('qualType', '')):
            # __gnu_cxx::__normal_iterator<T*, C>: lowered to the pointer it wraps (cxx2c.resolve); its operators are the pointer's
            opsym = name[len('operator'):]
            if len(args) == 1 and opsym in ('*', '++', '--'):
                return '(%s%s)' % (opsym, self.expr(args[0]))
            if len(args) == 2 and opsym in ('++', '--'):
                return '(%s%s)' % (self.expr(args[0]), opsym)
            if len(args) == 2 and opsym in ('+', '-', '<', '>', '<=', '>=', '==', '!=', '+=', '-=', '='):
                return '(%s %s %s)' % (self.expr(args[0]), opsym, self.expr(args[1]))
            if len(args) == 2 and opsym == '[]':
                return '(%s[%s])' % (self.expr(args[0]), self.expr(args[1]))
            abort('iterator operator %s' % name, e)
        if decl is None and a0t is not None:
            from cxx2c import PREDEFINED_STRUCTS
            opsym = name[len('operator'):]
            scalar_model = a0t[0] == 'b' and any(v == a0t[1] for v in u.cfg.scalar_records.values())
            if scalar_model and len(args) == 2 and opsym in ('+', '-', '<', '>', '<=', '>=', '==', '!=', '+=', '-=', '='):
                return '(%s %s %s)' % (self.expr(args[0]), opsym, self.expr(args[1]))
            if opsym == '=' and a0t[0] == 'rec' and (a0t[1] in PREDEFINED_STRUCTS or a0t[1] in u.cfg.trivial_copy) and len(args) == 2:
                return '(%s = %s)' % (self.expr(args[0]), self.expr(args[1]))
        if decl is None and a0t is not None and a0t[0] == 'rec' and name in u.cfg.outside_methods.get(a0t[1], ()):
            cn = sanitize(u.alias(a0t[1])) + '_' + OPERATOR_NAMES.get(name, 'op_' + sanitize(name[8:]))
            ret = u.type_of(e)
            is_lv = e.get('valueCategory') == 'lvalue'
            rest = args[1:]
            ats, avs = self.outside_args(rest)
            self.outside_proto(cn, ('ptr', ret) if is_lv else ret, [('ptr', a0t)] + ats, a0t[1] + '::' + name, e)
            call = '%s(%s)' % (cn, ', '.join([self.addr(args[0])] + avs))
            return '(*%s)' % call if is_lv else call
        if decl is None:
            h = getattr(self.u.cfg, 'operator_call_hook', None)
            if h is not None:
                r = h(self, rd, name, args, e)
                if r is not None:
                    return r
            abort('operator %s on a type outside the babylon AST (%r)' % (name, a0t), e)
        qn = u.qualname(decl)
        if qn in u.cfg.drop_calls:
            return '((void)0)'
        cn = self.callee_name(decl, e)
        fty = u.resolve(parse_type(u._decl_type_str(decl)))
        if decl.get('kind') == 'CXXMethodDecl' and not is_static_method(u, decl):
            objp = self.addr(args[0])
            a = self.call_args(decl, args[1:])
            call = '%s(%s)' % (cn, ', '.join([objp] + a))
        else:
            call = '%s(%s)' % (cn, ', '.join(self.call_args(decl, args)))
        return self.wrap_ref_result(call, fty[1])

    # -- atomics
    def atomic_target(self, obj, is_arrow):
        x = self.expr(obj)
        return x if is_arrow else addr_of(x)

    def atomic_field_name(self, obj):
        n = obj
        while n.get('kind') in ('ImplicitCastExpr', 'ParenExpr', 'CXXReinterpretCastExpr', 'UnaryOperator') and n.get('inner'):
            n = n['inner'][0]
        if n.get('kind') == 'MemberExpr':
            return n.get('name')
        if n.get('kind') == 'DeclRefExpr':
            return n['referencedDecl'].get('name')
        if n.get('kind') == 'ArraySubscriptExpr':
            return self.atomic_field_name(n['inner'][0]) + '[]'
        if n.get('kind') == 'CXXMemberCallExpr':
            cal = n['inner'][0]
            if cal.get('kind') == 'MemberExpr':
                return '%s.%s()' % (self.atomic_field_name(cal['inner'][0]), cal.get('name'))
        if n.get('kind') == 'CXXThisExpr':
            return 'this'
        if n.get('kind') in ('CallExpr', 'CXXMemberCallExpr', 'CXXOperatorCallExpr'):
            return 'call'
        return n.get('kind')

    def atomic_call(self, obj, is_arrow, name, args, e, aty):
        u = self.u
        vt = aty[1]
        tag = u.type_tag(vt)
        p = self.atomic_target(obj, is_arrow)
        fld = self.atomic_field_name(obj)
        if name.startswith('operator '):
            # implicit conversion T(): seq_cst load
            site = self.site(fld, 'load')
            return self.atomic_op('load', vt, [p, '5', site])
        if name not in ATOMIC_METHODS:
            abort('atomic method %s' % name, e)
        site = self.site(fld, name)
        a = []
        real = [x for x in args]
        if name in ('compare_exchange_strong', 'compare_exchange_weak'):
            exp = self.addr(real[0])
            des = self.expr(real[1])
            orders = [self.expr(x) for x in real[2:]]
            if len(orders) == 1:
                o = orders[0]
                orders = [o, 'vf_cas_failure_order(%s)' % o]
            return self.atomic_op(name, vt, [p, exp, des] + orders + [site])
        a = [self.expr(x) for x in real]
        return self.atomic_op(name, vt, [p] + a + [site])

    def atomic_op(self, op, vt, args):
        u = self.u
        tag = u.type_tag(vt)
        fn = 'vf_atomic_%s_%s' % (op, tag)
        ct = u.ctype(vt) if vt[0] != 'ptr' else 'void *'
        if fn not in u.atomic_ops:
            if op == 'load':
                proto = '%s %s(%s *p, int order, int site);' % (ct, fn, ct)
            elif op == 'store':
                proto = 'void %s(%s *p, %s v, int order, int site);' % (fn, ct, ct)
            elif op in ('compare_exchange_strong', 'compare_exchange_weak'):
                proto = '_Bool %s(%s *p, %s *expected, %s desired, int success, int failure, int site);' % (fn, ct, ct, ct)
            else:
                proto = '%s %s(%s *p, %s v, int order, int site);' % (ct, fn, ct, ct)
            u.atomic_ops[fn] = proto
        if vt[0] == 'ptr':
            # pointer atomics go through void*
            args = list(args)
            args[0] = '(void **)(%s)' % args[0]
            if op in ('compare_exchange_strong', 'compare_exchange_weak'):
                args[1] = '(void **)(%s)' % args[1]
                args[2] = '(void *)(%s)' % args[2]
            elif op != 'load':
                args[1] = '(void *)(%s)' % args[1]
            call = '%s(%s)' % (fn, ', '.join(args))
            if op == 'load' or op == 'exchange':
                return '((%s)%s)' % (u.ctype(vt), call)
            return call
        return '%s(%s)' % (fn, ', '.join(args))

    def atomic_operator(self, name, args, e, aty):
        vt = aty[1]
        p = self.addr(args[0])
        fld = self.atomic_field_name(args[0])
        if name == 'operator=':
            site = self.site(fld, 'store')
            t = self.fresh_tmp(vt)
            return '(%s = %s, %s, %s)' % (t, self.expr(args[1]), self.atomic_op('store', vt, [p, t, '5', site]), t)
        if name in ('operator++', 'operator--'):
            op = 'fetch_add' if name == 'operator++' else 'fetch_sub'
            site = self.site(fld, op)
            call = self.atomic_op(op, vt, [p, '1', '5', site])
            if len(args) == 2:   # postfix
                return call
            return '((%s)(%s %s 1))' % (self.u.ctype(vt), call, '+' if op == 'fetch_add' else '-')
        if name in ('operator+=', 'operator-=', 'operator|=', 'operator&='):
            op = {'operator+=': 'fetch_add', 'operator-=': 'fetch_sub', 'operator|=': 'fetch_or', 'operator&=': 'fetch_and'}[name]
            sym = {'fetch_add': '+', 'fetch_sub': '-', 'fetch_or': '|', 'fetch_and': '&'}[op]
            site = self.site(fld, op)
            t = self.fresh_tmp(vt)
            return '(%s = %s, (%s)(%s %s %s))' % (t, self.expr(args[1]), self.u.ctype(vt),
                                                  self.atomic_op(op, vt, [p, t, '5', site]), sym, t)
        abort('atomic operator %s' % name, e)


C_KEYWORDS = {'auto', 'register', 'restrict', 'inline', 'new', 'delete', 'this', 'class', 'template', 'typename', 'namespace',
              'main', 'signed', 'unsigned', 'default', 'static', 'extern', 'typeof', 'asm', 'errno', 'free', 'malloc', 'exit', 'abs',
              'self'}


def addr_of(x):
    x = x.strip()
    m = re.match(r'^\(\*(.*)\)$', x)
    if m and balanced(m.group(1)):
        return m.group(1)
    return '(&%s)' % x


def balanced(s):
    d = 0
    for ch in s:
        if ch == '(':
            d += 1
        elif ch == ')':
            d -= 1
            if d < 0:
                return False
    return d == 0


def lambda_field_name(f, i):
    return f.get('name') or ('cap%d' % i)
