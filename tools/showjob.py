#!/usr/bin/env python3
"""debug helper: print non-SUCCESS properties of jobs under .build/<prop>"""
import json,sys,glob,os
prop=sys.argv[1]
for f in sorted(glob.glob('/verif/.build/%s/*/jobs/*/cbmc.json'%prop)):
    if len(sys.argv)>2 and sys.argv[2] not in f: continue
    try: d=json.load(open(f))
    except Exception as e: print(f,'unreadable'); continue
    print('==',f.split('/jobs/')[1].split('/')[0])
    for x in d:
        if 'result' in x:
            n=0
            for r in x['result']:
                n+=1
                if r['status']=='UNKNOWN':
                    unk=locals().get('unk',0)+1
                    continue
                if r['status']!='SUCCESS':
                    loc=r.get('sourceLocation',{})
                    print('  ',r['status'],r['property'],'|',r['description'][:150],'|',os.path.basename(loc.get('file','')),loc.get('line'))
            print('   total',n)
        if x.get('messageType') in('ERROR','WARNING'): print('  MSG',x['messageText'][:300])
