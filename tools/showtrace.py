#!/usr/bin/env python3
"""debug helper: showtrace.py <PROP> <jobdir-substr> <property-substr> : print the assignments of the trace of a failed property"""
import json,sys,glob
prop,job,pname=sys.argv[1:4]
for f in sorted(glob.glob('/verif/.build/%s/*/jobs/*%s*/cbmc.json'%(prop,job))):
    d=json.load(open(f))
    for x in d:
        for r in x.get('result',[]):
            if r['status']=='FAILURE' and pname in r['property']:
                print('==',r['property'],r['description'])
                for s in r.get('trace',[]):
                    if s.get('stepType')=='assignment' and not s.get('hidden'):
                        loc=s.get('sourceLocation',{})
                        v=s.get('value',{})
                        lhs=s.get('lhs','')
                        if lhs.startswith('__CPROVER') or 'dfcc' in lhs or 'write_set' in lhs or '__car' in lhs: continue
                        print('  %s:%s %s = %s'%(loc.get('function','')[:28],loc.get('line'),lhs,str(v.get('data') if v.get('data') is not None else (v.get('name') or v))[:80]))
                    elif s.get('stepType')=='function-call' and not s.get('hidden'):
                        print('  CALL',s.get('function',{}).get('displayName'))
                sys.exit(0)
