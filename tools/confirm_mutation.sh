#!/bin/bash
# confirm_mutation.sh <dir with patch.diff + demo.cpp> : in the scratch tree /tmp/confirm (a worktree of /repo, already built)
#  1. apply patch, rebuild, run the whole ctest suite (must pass), build+run the demo (must fail)
#  2. revert, rebuild the library, build+run the demo (must pass)
# writes <dir>/confirm.log ; exit 0 iff all four facts hold
D=$(realpath "$1"); T=/tmp/confirm; L="$D/confirm.log"; : > "$L"
# the scratch tree is created (and built once, with tests) on demand; remove it afterwards: git -C /repo worktree remove --force /tmp/confirm
[ -d $T ] || { git -C /repo worktree add -q --detach $T HEAD && (cd $T && cmake -G Ninja -B _build -DBUILD_TESTING=ON > /dev/null && cmake --build _build -j12 > /dev/null); }
LINK="-L/usr/lib/x86_64-linux-gnu -labsl_time -labsl_base -labsl_strings -labsl_int128 -labsl_raw_logging_internal -labsl_throw_delegate -labsl_hash -labsl_city -labsl_low_level_hash -labsl_raw_hash_set -labsl_str_format_internal -labsl_time_zone -lprotobuf -lpthread -latomic"
demo() { g++ -std=gnu++20 -O1 -fno-access-control -I$T/src -isystem /root/miniconda/include "$D/demo.cpp" $T/_build/libbabylon.a $LINK -o /tmp/confirm_demo >> "$L" 2>&1 || { echo "demo build failed" >> "$L"; return 99; }; timeout 300 /tmp/confirm_demo >> "$L" 2>&1; }
cd $T && git checkout -q -- src && git apply "$D/patch.diff" || { echo "patch does not apply" >> "$L"; exit 2; }
nice cmake --build _build -j8 >> "$L" 2>&1 || { echo "BUILD FAILED with mutation" >> "$L"; git checkout -q -- src; exit 3; }
nice ctest --test-dir _build -j8 --timeout 900 > /tmp/confirm_ctest_mut.log 2>&1; tail -3 /tmp/confirm_ctest_mut.log >> "$L"
grep -q "100% tests passed" /tmp/confirm_ctest_mut.log; TESTS=$?
demo; DM=$?
git checkout -q -- src; nice cmake --build _build -j8 --target babylon >> "$L" 2>&1
demo; DC=$?
(nice cmake --build _build -j8 >> "$L" 2>&1 &)   # bring the tree back to the clean build for the next mutation
echo "RESULT tests_pass_with_mutation=$((1-TESTS)) demo_exit_with_mutation=$DM demo_exit_clean=$DC" | tee -a "$L"
[ $TESTS -eq 0 ] && [ $DM -ne 0 ] && [ $DM -ne 99 ] && [ $DC -eq 0 ]
