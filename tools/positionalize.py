#!/usr/bin/env python3
"""positionalize.py <group> : rewrite the //@loop blocks of groups/<group>/spec.h so that parameters and locals of the lowered function
are referred to by position (@pN@ / @lN@) instead of by name; a later rename of a local in /repo then leaves the spec valid"""
import os, re, sys
HERE = os.path.dirname(os.path.abspath(__file__))
sys.path.insert(0, HERE)
import vcheck
gname = sys.argv[1]
G = vcheck.load_group(gname)
bdir = os.path.join(vcheck.ROOT if hasattr(vcheck, 'ROOT') else os.path.dirname(HERE), '.build', 'positionalize', gname)
os.makedirs(bdir, exist_ok=True)
u, gen = vcheck.build_group(G, bdir, {'groups': {}})
fn = {f['c']: f for f in u.report['functions']}
spec = os.path.join(G['dir'], G['spec'])
out, cur, changed = [], None, 0
for line in open(spec).read().split('\n'):
    m = re.match(r'\s*//@loop\s+(\S+)\s+(\d+)', line)
    if m:
        cur = fn.get(m.group(1))
    elif re.match(r'\s*//@end', line):
        cur = None
    elif cur is not None and line.lstrip().startswith('//@'):
        new = line
        for kind, names in (('p', cur.get('params', [])), ('l', cur.get('locals', []))):
            for i, nm in enumerate(names):
                if nm in ('self',) or nm.startswith('__'):
                    continue
                new = re.sub(r'(?<![\w.>@:])%s\b(?!@)' % re.escape(nm), '@%s%d:%s@' % (kind, i + 1, nm), new)
                new = re.sub(r'@%s%d@' % (kind, i + 1), '@%s%d:%s@' % (kind, i + 1, nm), new)
        if new != line:
            changed += 1
        line = new
    out.append(line)
open(spec, 'w').write('\n'.join(out))
print(gname, 'lines changed:', changed)
