/* vf_prelude.h -- trusted C definitions that stand for builtins / std helpers used by the lowered code */
#ifndef VF_PRELUDE_H
#define VF_PRELUDE_H
#include <stdint.h>
#include <stddef.h>
#include <string.h>
#include <time.h>
#include <sys/uio.h>
#define VF_SITE(n) (n)
struct vf_memfnptr { void *fn; long adj; };   /* Itanium ABI pointer to member function, opaque here */
#define VF_EXPECT(x, v) (x)
static inline int vf_cas_failure_order(int o) { return o == 4 ? 2 : (o == 3 ? 0 : o); }
static inline int vf_ctzll(unsigned long long x) { int n = 0; if (x == 0) return 64;
  if ((x & 0xFFFFFFFFULL) == 0) { n += 32; x >>= 32; } if ((x & 0xFFFFULL) == 0) { n += 16; x >>= 16; }
  if ((x & 0xFFULL) == 0) { n += 8; x >>= 8; } if ((x & 0xFULL) == 0) { n += 4; x >>= 4; }
  if ((x & 0x3ULL) == 0) { n += 2; x >>= 2; } if ((x & 0x1ULL) == 0) { n += 1; } return n; }
static inline int vf_clzll(unsigned long long x) { int n = 0; if (x == 0) return 64;
  if ((x >> 32) == 0) { n += 32; x <<= 32; } if ((x >> 48) == 0) { n += 16; x <<= 16; }
  if ((x >> 56) == 0) { n += 8; x <<= 8; } if ((x >> 60) == 0) { n += 4; x <<= 4; }
  if ((x >> 62) == 0) { n += 2; x <<= 2; } if ((x >> 63) == 0) { n += 1; } return n; }
static inline int vf_ctz(unsigned x) { return x == 0 ? 32 : vf_ctzll(x); }
static inline int vf_clz(unsigned x) { return x == 0 ? 32 : vf_clzll(x) - 32; }
static inline int vf_popcountll(unsigned long long x) { x = x - ((x >> 1) & 0x5555555555555555ULL);
  x = (x & 0x3333333333333333ULL) + ((x >> 2) & 0x3333333333333333ULL); x = (x + (x >> 4)) & 0x0F0F0F0F0F0F0F0FULL;
  return (int)((x * 0x0101010101010101ULL) >> 56); }
static inline int vf_popcount(unsigned x) { return vf_popcountll(x); }
void *vf_operator_new(size_t size, size_t align);
void vf_operator_delete(void *p, size_t size);
void vf_fence(int order, int site);
/* absl::Duration modelled as a signed 64-bit nanosecond count (trusted model; infinite durations are not modelled) */
long vf_dur_from_timespec(struct timespec ts);
struct timespec vf_dur_to_timespec(long d);
static inline long vf_dur_ns(long ns) { return ns; }
static inline long vf_dur_to_ns(long d) { return d; }
long vf_now_ns(void);
int *vf_errno_location(void);
#endif
