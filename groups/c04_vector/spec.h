/* C04 -- index arithmetic of ConcurrentVector (one element per index) and the retire list's timestamp test */
#ifndef C04_SPEC_H
#define C04_SPEC_H
unsigned long nondet_u64(void);
unsigned short nondet_u16(void);
unsigned int nondet_u32(void);

typedef struct VD_DynamicMeta DM_t;
#define DM_WF(m) ((m)->_block_mask_bits <= 31 && (m)->_block_mask == (1U << (m)->_block_mask_bits) - 1)

/* set_block_size(hint): the block size is the smallest power of two >= hint (hint <= 2^31), and mask/bits describe it.
 * The loop runs at most 31 times for such hints: closed by unwinding 33 with unwinding assertions (width-bounded, complete). */
size_t VD_DynamicMeta_set_block_size(DM_t *m, unsigned long hint)
__CPROVER_requires(__CPROVER_is_fresh(m, sizeof(*m)) && hint <= (1UL << 31))
__CPROVER_assigns(m->_block_mask, m->_block_mask_bits)
__CPROVER_ensures(DM_WF(m))
__CPROVER_ensures(__CPROVER_return_value == (unsigned long)m->_block_mask + 1)
__CPROVER_ensures(__CPROVER_return_value >= hint && (__CPROVER_return_value == 1 || (__CPROVER_return_value >> 1) < hint))
;

/* block_index / block_offset split an index without losing or duplicating anything */
uint32_t VD_DynamicMeta_block_index(DM_t *m, unsigned long index)
__CPROVER_requires(__CPROVER_is_fresh(m, sizeof(*m)) && DM_WF(m) && (index >> m->_block_mask_bits) <= 0xFFFFFFFFUL)
__CPROVER_assigns()
__CPROVER_ensures((unsigned long)__CPROVER_return_value == (index >> m->_block_mask_bits))
;
uint32_t VD_DynamicMeta_block_offset(DM_t *m, unsigned long index)
__CPROVER_requires(__CPROVER_is_fresh(m, sizeof(*m)) && DM_WF(m))
__CPROVER_assigns()
__CPROVER_ensures((unsigned long)__CPROVER_return_value == (index & (unsigned long)m->_block_mask))
__CPROVER_ensures(__CPROVER_return_value <= m->_block_mask)
;
uint32_t VD_DynamicMeta_block_size(DM_t *m)
__CPROVER_requires(__CPROVER_is_fresh(m, sizeof(*m)) && DM_WF(m))
__CPROVER_assigns()
__CPROVER_ensures(__CPROVER_return_value == m->_block_mask + 1)
;

/* K7 lemma over the real functions: index <-> (block, offset) is a bijection on [0, 2^32 * block_size):
 * distinct indices never share an element, equal indices always do (one element per index) */
#define SPLIT_LEMMA(NAME, META_T, IDX, OFF, SIZE, SETUP) \
void NAME(void) { \
  META_T m; SETUP; \
  unsigned long i = nondet_u64(), j = nondet_u64(); \
  unsigned long bs = SIZE(&m); \
  __CPROVER_assume(bs != 0 && i / bs <= 0xFFFFFFFFUL && j / bs <= 0xFFFFFFFFUL); \
  unsigned long bi = IDX(&m, i), oi = OFF(&m, i), bj = IDX(&m, j), oj = OFF(&m, j); \
  __CPROVER_assert(oi < bs, "K1 C04.split offset inside the block"); \
  __CPROVER_assert(bi * bs + oi == i, "K1 C04.split block*size+offset reconstructs the index"); \
  __CPROVER_assert((bi == bj && oi == oj) == (i == j), "K7 C04.split one element per index: equal cells iff equal indices"); \
  __CPROVER_assert(0, "VF_VACUITY_TWIN lemma reachable (must fail)"); \
}
SPLIT_LEMMA(lemma_split_dynamic, DM_t, VD_DynamicMeta_block_index, VD_DynamicMeta_block_offset, VD_DynamicMeta_block_size,
            unsigned bits = nondet_u32(); __CPROVER_assume(bits <= 31); m._block_mask_bits = bits; m._block_mask = (1U << bits) - 1)
SPLIT_LEMMA(lemma_split_static128, struct V128_StaticMeta, V128_StaticMeta_block_index, V128_StaticMeta_block_offset, V128_StaticMeta_block_size, (void)0)
SPLIT_LEMMA(lemma_split_static1, struct V1_StaticMeta, V1_StaticMeta_block_index, V1_StaticMeta_block_offset, V1_StaticMeta_block_size, (void)0)

/* ---- retire list: tagged head and the cooling-period test --------------------------------------------- */
_Bool RL_expire(unsigned long head, unsigned short now)
__CPROVER_assigns()
__CPROVER_ensures(__CPROVER_return_value == ((unsigned short)(now - (unsigned short)(head >> 48)) > 1))
;
uint64_t RL_make_head(struct RL_Node *node, unsigned long timestamp)
__CPROVER_requires(((uintptr_t)node >> 48) == 0 && timestamp <= 0xFFFF)
__CPROVER_assigns()
__CPROVER_ensures(__CPROVER_return_value == ((timestamp << 48) | (uintptr_t)node))
;
/* K7 lemma with a ghost real clock (64-bit unit counters, monotone): the head round-trips, and a positive expire()
 * answer implies at least two unit boundaries were crossed, i.e. more than one full unit (64 s) really elapsed since the
 * head's timestamp was taken -- also across 16-bit wrap (wrap can only cause false negatives within 2^16 units). */
void lemma_retire_clock(void) {
  unsigned long uh = nondet_u64(), un = nondet_u64();      /* real unit counts when the head was stamped / now */
  unsigned long addr = nondet_u64();
  __CPROVER_assume(uh <= un && un - uh < 65536 && (addr >> 48) == 0);
  unsigned short th = (unsigned short)uh, tn = (unsigned short)un;
  unsigned long head = RL_make_head((struct RL_Node *)addr, th);
  __CPROVER_assert((uintptr_t)RL_get_node(head) == addr, "K1 C04.retire node round-trips through the tagged head");
  __CPROVER_assert(RL_get_timestamp(head) == th, "K1 C04.retire timestamp round-trips through the tagged head");
  if (RL_expire(head, tn))
    __CPROVER_assert(un - uh >= 2, "K7 C04.retire expire => at least one full unit elapsed (no early free), incl. 16-bit wrap");
  if (un - uh >= 2 && un - uh < 65536 - 1)
    __CPROVER_assert(RL_expire(head, tn) || (unsigned short)(tn - th) <= 1, "K7 C04.retire expire is exactly the 16-bit difference test");
  __CPROVER_assert(0, "VF_VACUITY_TWIN lemma reachable (must fail)");
}
/* loop contract for DynamicMeta::set_block_size (unbounded route; replaces the width-bounded unwinding) */
//@loop VD_DynamicMeta_set_block_size 1
//@  __CPROVER_assigns(@l1:block_size@, self->_block_mask, self->_block_mask_bits)
//@  __CPROVER_loop_invariant(self->_block_mask_bits <= 31 && @l1:block_size@ == (1U << self->_block_mask_bits) && self->_block_mask == @l1:block_size@ - 1)
//@  __CPROVER_loop_invariant(self->_block_mask_bits == 0 || (unsigned long)(@l1:block_size@ >> 1) < @p1:block_size_hint@)
//@  __CPROVER_decreases(32 - self->_block_mask_bits)
//@end
#endif
