VD = 'babylon::ConcurrentVector<unsigned long, 0>'
V128 = 'babylon::ConcurrentVector<unsigned long, 128>'
V1 = 'babylon::ConcurrentVector<unsigned long, 1>'
RL = 'babylon::internal::concurrent_vector::RetireList<int, babylon_vf::Del>'
GROUP = dict(
    prop='C04',
    driver='driver.cpp',
    spec='spec.h',
    aliases=[(VD, 'VD'), (V128, 'V128'), (V1, 'V1'), (RL, 'RL'), ('babylon_vf::', '')],
    roots=[VD + '::DynamicMeta::set_block_size', VD + '::DynamicMeta::block_index', VD + '::DynamicMeta::block_offset', VD + '::DynamicMeta::block_size',
           V128 + '::StaticMeta::block_index', V128 + '::StaticMeta::block_offset', V128 + '::StaticMeta::block_size',
           V1 + '::StaticMeta::block_index', V1 + '::StaticMeta::block_offset', V1 + '::StaticMeta::block_size',
           RL + '::expire', RL + '::get_node', RL + '::get_timestamp', RL + '::make_head'],
    complete_records=[V128 + '::StaticMeta', V1 + '::StaticMeta'],
    reviewed_compiler_conditionals=['src/babylon/concurrent/vector.hpp:#if !__clang__ && BABYLON_GCC_VERSION < 50000'],
    assumptions=['indices below 2^32 * block_size (block_index returns uint32_t)', 'block size hints <= 2^31 (the 32-bit loop variable wraps above)',
                 'node addresses fit in 48 bits (x86-64/aarch64 user space)', 'the monotonic clock does not go backwards between a retire and a later gc'],
    jobs=[
        dict(id='C04.meta.set_block_size', enforce='VD_DynamicMeta_set_block_size', loops=True),
        dict(id='C04.meta.block_index', enforce='VD_DynamicMeta_block_index'),
        dict(id='C04.meta.block_offset', enforce='VD_DynamicMeta_block_offset'),
        dict(id='C04.meta.block_size', enforce='VD_DynamicMeta_block_size'),
        dict(id='C04.split.dynamic', harness='lemma_split_dynamic', timeout=600),
        dict(id='C04.split.static128', harness='lemma_split_static128', timeout=600),
        dict(id='C04.split.static1', harness='lemma_split_static1', timeout=600),
        dict(id='C04.retire.expire', enforce='RL_expire'),
        dict(id='C04.retire.make_head', enforce='RL_make_head'),
        dict(id='C04.retire.clock_lemma', harness='lemma_retire_clock'),
    ],
)
