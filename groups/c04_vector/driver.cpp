// driver TU for C04: ConcurrentVector index arithmetic and the retire list's timestamp logic
#include "babylon/concurrent/vector.h"
namespace babylon_vf {
struct Del { void operator()(int*) noexcept; };
using VD = ::babylon::ConcurrentVector<uint64_t, 0>;
using V128 = ::babylon::ConcurrentVector<uint64_t, 128>;
using V1 = ::babylon::ConcurrentVector<uint64_t, 1>;
using RL = ::babylon::internal::concurrent_vector::RetireList<int, Del>;
void force(VD& a, V128& b, V1& c, RL& r, int* p) {
  VD x {16}; V128 y {16}; V1 z {16};
  a.ensure(1); b.ensure(1); c.ensure(1); x.ensure(1); y.ensure(1); z.ensure(1);
  r.retire(p); r.gc();
}
}
