// driver TU for C15: ConcurrentTransientTopic<uint64_t, Sched> with a declared-only scheduling interface and callback type
#include "babylon/concurrent/transient_topic.h"
namespace babylon_vf {
struct Sched {
  static constexpr bool futex_need_create() noexcept { return false; }
  static uint32_t* create_futex() noexcept;
  static void destroy_futex(uint32_t*) noexcept;
  static int futex_wait(uint32_t*, uint32_t, const struct ::timespec*) noexcept;
  static int futex_wake_one(uint32_t*) noexcept;
  static int futex_wake_all(uint32_t*) noexcept;
  static void usleep(useconds_t) noexcept;
  static void yield() noexcept;
};
using Topic = ::babylon::ConcurrentTransientTopic<uint64_t, Sched>;
struct CbN { void operator()(Topic::Iterator, Topic::Iterator) noexcept; };
size_t force(Topic& t, CbN& cb, size_t n) {
  t.publish_n<true>(n, cb);
  t.close();
  auto c = t.subscribe();
  auto r = c.consume(n);
  t.clear();
  return r.size();
}
}
