T = 'babylon::ConcurrentTransientTopic<unsigned long, babylon_vf::Sched>'
SV = 'babylon::ConcurrentVector<babylon::ConcurrentTransientTopic<unsigned long, babylon_vf::Sched>::Slot, 128>'
SNAP = SV + '::Snapshot'
GROUP = dict(
    prop='C15',
    driver='driver.cpp',
    spec='spec.h',
    aliases=[(SNAP, 'Snap'), (SV, 'SlotVec'), (T, 'Topic'), ('babylon::Futex<babylon_vf::Sched, void>', 'Futex'), ('babylon_vf::', '')],
    opaque_by_value=[SV, SNAP],
    extern_re=[r'ConcurrentVector<.*>::(reserved_snapshot|ensure|for_each|size)', r'ConcurrentVector<.*>::Snapshot::(for_each|operator\[\]|Snapshot|~Snapshot)'],
    roots=[T + '::SlotFutex::is_closed', T + '::SlotFutex::is_published', T + '::publish_n', {'lambda_in': T + '::publish_n', 'ordinal': 1}, {'lambda_in': T + '::Consumer::consume', 'ordinal': 1}, {'lambda_in': T + '::clear', 'ordinal': 1}, T + '::close', T + '::clear', T + '::Consumer::consume',
           T + '::SlotFutex::wait_until_ready', T + '::SlotFutex::wait_until_ready_slow', T + '::SlotFutex::wakeup_waiters', T + '::SlotFutex::wakeup_waiters_slow',
           T + '::SlotFutex::set_published', T + '::SlotFutex::set_closed', T + '::SlotFutex::reset'],
    reviewed_compiler_conditionals=['src/babylon/concurrent/transient_topic.hpp:#if GCC_VERSION >= 120000'],
    assumptions=['SC; RMW atomicity; the 16-bit status store and the 32-bit word operations act on the same little-endian word (as the code assumes)',
                 'RELY: a set status is final and never INITIAL again while consumers exist (clear() is not concurrent); sufficiency of the seq_cst fence for the store/load (Dekker) pattern on real hardware',
                 'ConcurrentVector reserved_snapshot / Snapshot::for_each / ensure are contract stubs: for_each(begin,end) presents exactly the slots [begin,end) in order (C04); fewer than 2^20 slots per range (symbolic, not unwound)',
                 'futex_wait is kernel compare-and-sleep on the whole word; spurious returns allowed'],
    jobs=[
        dict(id='C15.wait_until_ready_slow', enforce='Topic_SlotFutex_wait_until_ready_slow', loops=True, backend='cadical'),
        dict(id='C15.wait_until_ready', enforce='Topic_SlotFutex_wait_until_ready', replace=['Topic_SlotFutex_wait_until_ready_slow'], backend='cadical'),
        dict(id='C15.wakeup_waiters_slow', enforce='Topic_SlotFutex_wakeup_waiters_slow', backend='cadical'),
        dict(id='C15.wakeup_waiters', enforce='Topic_SlotFutex_wakeup_waiters', replace=['Topic_SlotFutex_wakeup_waiters_slow'], backend='cadical'),
        dict(id='C15.set_published', enforce='Topic_SlotFutex_set_published', backend='cadical'),
        dict(id='C15.close', enforce='Topic_close', backend='cadical'),
        dict(id='C15.publish.range', enforce='Topic_publish_n_lambda_transient_topic_publish_n_1_op_call', replace=['Topic_SlotFutex_set_published', 'Topic_SlotFutex_wakeup_waiters'], loops=True, backend='cadical', timeout=600),
        dict(id='C15.publish_n', enforce='Topic_publish_n__1_CbNRef_void', backend='cadical'),
        dict(id='C15.consume.range', enforce='Topic_Consumer_consume_lambda_transient_topic_consume_1_op_call', replace=['Topic_SlotFutex_wait_until_ready', 'Topic_SlotFutex_is_closed', 'Topic_SlotFutex_is_published'], loops=True, backend='cadical', timeout=600),
        dict(id='C15.consume', enforce='Topic_Consumer_consume__u64', backend='cadical'),
        dict(id='C15.is_closed', enforce='Topic_SlotFutex_is_closed', backend='cadical'),
        dict(id='C15.is_published', enforce='Topic_SlotFutex_is_published', backend='cadical'),
    ],
)
