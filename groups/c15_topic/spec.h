/* C15 -- ConcurrentTransientTopic<uint64_t, S>: slot publication protocol (SlotFutex), publisher range, consumer scan.
 *
 * The slot word is status (low 16 bits: INITIAL 0 / PUBLISHED 1 / CLOSED 2) | waiter mark (bits above 16).
 * SC rely/guarantee model on ONE ghost-chosen slot word g_w (arbitrary: the obligations hold for every slot):
 *   RELY  the status never goes back to INITIAL while consumers exist (clear() is documented as not concurrent) and is final once
 *         set; other consumers may set the waiter mark on an INITIAL word (CAS) ; a waker may clear the mark (CAS) keeping the status.
 *   GUAR  consumer: the mark is installed by a CAS on the whole word whose expected value has status INITIAL, and the thread sleeps
 *         only on exactly that marked word (kernel compare-and-sleep): a status store that lands first makes the CAS or the sleep fail;
 *         publisher / closer: status store, then a seq_cst fence, then a load of the whole word, and wake_all whenever that load
 *         shows the mark (K6 order ghosts); the waker's CAS only clears the mark.
 *   Hence no lost wakeup under SC + the fence; sufficiency of the fence on weaker hardware is the documented Dekker argument (assumed).
 * Publisher range: publish_n takes [old, old+num) of the event counter by one fetch_add (no two publishers share a slot), runs the
 * callback once on the range before any slot of it is marked published, marks every slot exactly once, then wakes every slot.
 * Consumer scan: consume(num) counts exactly the leading published slots of [next, next+num) in index order, stops at a closed slot,
 * waits on an unpublished one, and advances its cursor by that count. */
#ifndef C15_SPEC_H
#define C15_SPEC_H
#include <stdint.h>
#include <stdlib.h>
unsigned long nondet_u64(void); unsigned int nondet_u32(void); _Bool nondet_bool(void);
typedef struct Topic_SlotFutex SF_t;
typedef struct Topic_Slot Slot_t;
#define ST(w) ((unsigned)(w) & 0xFFFFu)
#define MARKED(w) ((unsigned)(w) > 0xFFFFu)
#define INITIAL 0u
#define PUBLISHED 1u
#define CLOSED 2u
#define LPUB Topic_publish_n_lambda_transient_topic_publish_n_1_op_call
#define LCON Topic_Consumer_consume_lambda_transient_topic_consume_1_op_call
#define LCLR Topic_clear_lambda_transient_topic_clear_1_op_call

unsigned int *g_w;                 /* the focus slot's futex word */
unsigned g_ce_calls, g_fa_calls, g_fe_calls, g_cb_calls, g_cl_calls; size_t g_vec_size;
_Bool g_fmarked;                   /* publisher range: waiter mark of the focus slot as a ghost */
unsigned g_fst;                    /* consumer scan: status of the focus slot as a ghost (the scan itself never touches slot memory) */
_Bool g_env_on, g_ready_seen;
unsigned g_wakes, g_sleeps, g_status_stores, g_fences_after_store, g_loads_after_fence;
static void env_step(void) {
  if (!g_env_on) return;
  unsigned int nw = nondet_u32();
  if (ST(*g_w) != INITIAL) __CPROVER_assume(ST(nw) == ST(*g_w));      /* a set status is final */
  __CPROVER_assume(ST(nw) <= CLOSED);
  *g_w = nw;
}
unsigned int vf_atomic_load_u32(unsigned int *p, int order, int site) {
  if (p == g_w) { env_step(); if (g_fences_after_store) g_loads_after_fence++; }
  return *p;
}
unsigned short vf_atomic_load_u16(unsigned short *p, int order, int site) { if ((unsigned int *)p == g_w) env_step(); return *p; }
void vf_atomic_store_u16(unsigned short *p, unsigned short v, int order, int site) {
  if ((unsigned int *)p == g_w) {
    env_step();
    __CPROVER_assert(v == PUBLISHED || v == CLOSED, "K5 C15 a status store publishes or closes");
    g_status_stores++; g_fences_after_store = 0; g_loads_after_fence = 0;
  }
  *p = v;
}
void vf_atomic_store_u32(unsigned int *p, unsigned int v, int order, int site) { if (p == g_w) env_step(); *p = v; }
_Bool vf_atomic_compare_exchange_weak_u32(unsigned int *p, unsigned int *expected, unsigned int desired, int success, int failure, int site) {
  if (p == g_w) env_step();
  if (nondet_bool() || *p != *expected) { *expected = *p; return 0; }
  if (p == g_w) {
    if (site == SITE_Topic_SlotFutex_wait_until_ready_slow_futex_value_compare_exchange_weak_1)
      __CPROVER_assert(ST(*expected) == INITIAL && !MARKED(*expected) && desired == *expected + 0x10000u, "K5 C15.waiter installs the waiter mark by a CAS on an INITIAL word");
    else
      __CPROVER_assert(desired == ST(*expected), "K5 C15.waker's CAS only clears the waiter mark and keeps the status");
  }
  *p = desired;
  return 1;
}
void vf_fence(int order, int site) { if (order == 5 && g_status_stores) g_fences_after_store++; }
int Sched_futex_wake_all(uint32_t *f) { if (f == g_w) g_wakes++; return (int)nondet_u32(); }
int Sched_futex_wait(uint32_t *f, unsigned int val, struct timespec *timeout) {
  if (f == g_w) {
    env_step();
    __CPROVER_assert(MARKED(val) && ST(val) == INITIAL, "K5 C15.waiter sleeps only on an INITIAL word that carries the waiter mark");
    if (*f == val) { g_sleeps++; env_step(); }       /* kernel compare-and-sleep on the whole word */
  }
  return (int)nondet_u32();
}
Slot_t *g_slots; size_t g_n, g_k;      /* a range of g_n slots, focus position g_k */
static void vf_havoc_ghosts(void) {
  g_env_on = nondet_bool(); g_ready_seen = 0; g_wakes = g_sleeps = g_status_stores = g_fences_after_store = g_loads_after_fence = 0; g_ce_calls = 0; g_cl_calls = 0; g_vec_size = nondet_u64(); g_fa_calls = 0; g_fe_calls = 0; g_cb_calls = 0;
  g_fst = nondet_u32(); g_fmarked = nondet_bool(); g_n = nondet_u64(); g_k = nondet_u64(); __CPROVER_assume(g_n < (1UL << 20));
  g_slots = malloc((g_n + 1) * sizeof(Slot_t)); __CPROVER_assume(g_slots != 0);
}
#define SF_SHAPE(s) (__CPROVER_is_fresh(s, sizeof(*s)) && __CPROVER_pointer_equals(g_w, &(s)->_futex._value) && ST(*g_w) <= CLOSED)

/* ---- consumer side of the slot word */
void Topic_SlotFutex_wait_until_ready_slow(SF_t *s, unsigned int cur)
__CPROVER_requires(SF_SHAPE(s) && g_env_on && (ST(cur) == INITIAL || ST(cur) == ST(*g_w)))     /* cur was loaded from the word before */
__CPROVER_assigns(*g_w, g_sleeps)
__CPROVER_ensures(ST(*g_w) != INITIAL)          /* stable: a set status is final */
;
//@loop Topic_SlotFutex_wait_until_ready_slow 1
//@  __CPROVER_assigns(@p1:current_status_and_waiters@, @l1:status@, *g_w, g_sleeps)
//@  __CPROVER_loop_invariant(@l1:status@ == (unsigned short)@p1:current_status_and_waiters@ && (ST(@p1:current_status_and_waiters@) == INITIAL || ST(*g_w) == ST(@p1:current_status_and_waiters@)) && ST(*g_w) <= CLOSED)
//@end
void Topic_SlotFutex_wait_until_ready(SF_t *s)
#ifdef VF_ENFORCE_Topic_SlotFutex_wait_until_ready
__CPROVER_requires(SF_SHAPE(s) && g_env_on)
__CPROVER_assigns(*g_w, g_sleeps)
__CPROVER_ensures(ST(*g_w) != INITIAL)
#else      /* as a callee of the consumer scan: the focus slot's status is the ghost g_fst (linked to the word by C15.is_closed / C15.is_published / C15.wait_until_ready) */
__CPROVER_requires(g_env_on && g_fst <= CLOSED)
__CPROVER_assigns(g_fst, g_sleeps)
__CPROVER_ensures(g_fst <= CLOSED && (__CPROVER_old(g_fst) != INITIAL ==> g_fst == __CPROVER_old(g_fst)))
__CPROVER_ensures(s == &g_slots[g_k].futex ==> g_fst != INITIAL)
#endif
;
/* ---- publisher / closer side */
void Topic_SlotFutex_wakeup_waiters_slow(SF_t *s, unsigned int cur)
__CPROVER_requires(SF_SHAPE(s))
__CPROVER_assigns(*g_w, g_wakes)
__CPROVER_ensures(g_wakes == __CPROVER_old(g_wakes) + 1 && (!g_env_on ==> ST(*g_w) == ST(__CPROVER_old(*g_w))))
;
void Topic_SlotFutex_wakeup_waiters(SF_t *s)
#ifdef VF_ENFORCE_Topic_publish_n_lambda_transient_topic_publish_n_1_op_call      /* as a callee of the publisher range: ghost state of the focus slot */
__CPROVER_requires(1)
__CPROVER_assigns(g_wakes, g_loads_after_fence, g_fmarked)
__CPROVER_ensures(s == &g_slots[g_k].futex ==> (g_loads_after_fence == __CPROVER_old(g_loads_after_fence) + (g_fences_after_store ? 1u : 0u) && g_wakes == __CPROVER_old(g_wakes) + (__CPROVER_old(g_fmarked) ? 1u : 0u) && !g_fmarked))
__CPROVER_ensures(s != &g_slots[g_k].futex ==> (g_loads_after_fence == __CPROVER_old(g_loads_after_fence) && g_wakes == __CPROVER_old(g_wakes) && g_fmarked == __CPROVER_old(g_fmarked)))
#else
__CPROVER_requires(SF_SHAPE(s) && g_wakes == 0)
__CPROVER_assigns(*g_w, g_wakes, g_loads_after_fence)
/* the word is loaded (after the caller's fence); without interference a marked word is always answered with wake_all */
__CPROVER_ensures(g_fences_after_store ==> g_loads_after_fence >= 1)
__CPROVER_ensures((!g_env_on && MARKED(__CPROVER_old(*g_w))) ==> g_wakes == 1)
__CPROVER_ensures((!g_env_on && !MARKED(__CPROVER_old(*g_w))) ==> g_wakes == 0)
#endif
;
void Topic_SlotFutex_set_published(SF_t *s)
#ifdef VF_ENFORCE_Topic_publish_n_lambda_transient_topic_publish_n_1_op_call
__CPROVER_requires(1)
__CPROVER_assigns(g_fst, g_status_stores, g_fences_after_store, g_loads_after_fence)
__CPROVER_ensures(s == &g_slots[g_k].futex ==> (g_fst == PUBLISHED && g_status_stores == __CPROVER_old(g_status_stores) + 1 && g_fences_after_store == 0 && g_loads_after_fence == 0))
__CPROVER_ensures(s != &g_slots[g_k].futex ==> (g_fst == __CPROVER_old(g_fst) && g_status_stores == __CPROVER_old(g_status_stores) && g_fences_after_store == __CPROVER_old(g_fences_after_store) && g_loads_after_fence == __CPROVER_old(g_loads_after_fence)))
#else
__CPROVER_requires(SF_SHAPE(s))
__CPROVER_assigns(*g_w, g_status_stores, g_fences_after_store, g_loads_after_fence)
__CPROVER_ensures(g_status_stores == __CPROVER_old(g_status_stores) + 1 && g_fences_after_store == 0 && g_loads_after_fence == 0 && (!g_env_on ==> (ST(*g_w) == PUBLISHED && (*g_w >> 16) == (__CPROVER_old(*g_w) >> 16))))
#endif
;
/* close(): marks the slot at the current event index closed, fences, then looks for waiters */
void Topic_close(struct Topic *t)
__CPROVER_requires(__CPROVER_is_fresh(t, sizeof(*t)) && g_k <= g_n && t->_next_event_index == g_k && __CPROVER_pointer_equals(g_w, &g_slots[g_k].futex._futex._value) && ST(*g_w) == INITIAL && !g_env_on && g_wakes == 0)
__CPROVER_assigns(*g_w, g_status_stores, g_fences_after_store, g_loads_after_fence, g_wakes)
__CPROVER_ensures(ST(*g_w) == CLOSED && g_status_stores == 1 && g_fences_after_store >= 1 && g_loads_after_fence >= 1)
__CPROVER_ensures(MARKED(__CPROVER_old(*g_w)) ==> g_wakes == 1)
;
struct Topic_Slot *SlotVec_ensure(struct SlotVec *v, unsigned long index) { __CPROVER_assert(index <= g_n, "C15 model: ensure within the modelled slots"); return &g_slots[index]; }

/* ---- publisher: the lambda publish_n hands to for_each, on a range [begin, end) of slots */
_Bool g_cb_before_publish, g_focus_in_cb;
void CbN_op_call(struct CbN *cb, struct Topic_Iterator b, struct Topic_Iterator e) {
  g_cb_calls++;
  g_cb_before_publish = (g_status_stores == 0);
  g_focus_in_cb = (b._slot <= &g_slots[g_k] && &g_slots[g_k] < e._slot);
}
void LPUB(struct lambda_transient_topic_publish_n_1 *self, Slot_t *begin, Slot_t *end)
__CPROVER_requires(__CPROVER_is_fresh(self, sizeof(*self)) && __CPROVER_pointer_in_range_dfcc(g_slots, begin, g_slots + g_n) && __CPROVER_pointer_in_range_dfcc(begin, end, g_slots + g_n))
__CPROVER_requires((size_t)__CPROVER_POINTER_OFFSET(begin) % sizeof(Slot_t) == 0 && (size_t)__CPROVER_POINTER_OFFSET(end) % sizeof(Slot_t) == 0)
__CPROVER_requires(g_k < g_n && g_fst == INITIAL && g_cb_calls == 0 && g_wakes == 0 && g_status_stores == 0 && g_fences_after_store == 0 && g_loads_after_fence == 0)
__CPROVER_assigns(g_fst, g_fmarked, g_status_stores, g_fences_after_store, g_loads_after_fence, g_wakes, g_cb_calls, g_cb_before_publish, g_focus_in_cb)
__CPROVER_ensures(g_cb_calls == 1 && g_cb_before_publish)
/* focus slot inside the range: filled by the callback, published exactly once, fenced, examined, waiters woken */
__CPROVER_ensures((begin <= &g_slots[g_k] && &g_slots[g_k] < end) ==> (g_focus_in_cb && g_fst == PUBLISHED && g_status_stores == 1 && g_fences_after_store >= 1 && g_loads_after_fence >= 1))
__CPROVER_ensures((begin <= &g_slots[g_k] && &g_slots[g_k] < end && __CPROVER_old(g_fmarked)) ==> g_wakes == 1)
/* focus slot outside the range: untouched */
__CPROVER_ensures(!(begin <= &g_slots[g_k] && &g_slots[g_k] < end) ==> (g_fst == INITIAL && g_status_stores == 0 && g_wakes == 0))
;
/* focus slot inside [lo, hi), by byte offsets within g_slots (no pointer relation on a loop-havoced pointer) */
#define F_IN(lo, hi) ((size_t)__CPROVER_POINTER_OFFSET(lo) <= g_k * sizeof(Slot_t) && g_k * sizeof(Slot_t) < (size_t)__CPROVER_POINTER_OFFSET(hi))
//@loop Topic_publish_n_lambda_transient_topic_publish_n_1_op_call 1
//@  VF_REBASE(@l1:iter@, g_slots)
//@  __CPROVER_assigns(@l1:iter@, g_fst, g_status_stores, g_fences_after_store, g_loads_after_fence)
//@  __CPROVER_loop_invariant(__CPROVER_same_object(@l1:iter@, g_slots) && (size_t)__CPROVER_POINTER_OFFSET(@l1:iter@) <= g_n * sizeof(Slot_t) && (size_t)__CPROVER_POINTER_OFFSET(@l1:iter@) % sizeof(Slot_t) == 0 && @p1:begin@ <= @l1:iter@ && @l1:iter@ <= @p2:end@)
//@  __CPROVER_loop_invariant(g_status_stores == (F_IN(@p1:begin@, @l1:iter@) ? 1u : 0u) && g_fst == (F_IN(@p1:begin@, @l1:iter@) ? PUBLISHED : INITIAL) && g_fences_after_store == 0 && g_loads_after_fence == 0)
//@end
//@loop Topic_publish_n_lambda_transient_topic_publish_n_1_op_call 2
//@  VF_REBASE(@l2:iter_2@, g_slots)
//@  __CPROVER_assigns(@l2:iter_2@, g_wakes, g_loads_after_fence, g_fmarked)
//@  __CPROVER_loop_invariant(__CPROVER_same_object(@l2:iter_2@, g_slots) && (size_t)__CPROVER_POINTER_OFFSET(@l2:iter_2@) <= g_n * sizeof(Slot_t) && (size_t)__CPROVER_POINTER_OFFSET(@l2:iter_2@) % sizeof(Slot_t) == 0 && @p1:begin@ <= @l2:iter_2@ && @l2:iter_2@ <= @p2:end@)
//@  __CPROVER_loop_invariant(F_IN(@p1:begin@, @l2:iter_2@) ? (g_loads_after_fence == (g_fences_after_store ? 1u : 0u) && g_wakes == (__CPROVER_loop_entry(g_fmarked) ? 1u : 0u)) : (g_wakes == 0 && g_loads_after_fence == 0 && g_fmarked == __CPROVER_loop_entry(g_fmarked)))
//@end

/* publish_n<true>: the range is exactly [old counter, old counter + num), taken by one atomic add */
unsigned long g_fa_old; unsigned long g_fe_begin, g_fe_end;
unsigned long vf_atomic_fetch_add_u64(unsigned long *p, unsigned long v, int order, int site) { g_fa_old = *p; *p += v; g_fa_calls++; return g_fa_old; }
unsigned long vf_atomic_load_u64(unsigned long *p, int order, int site) { return *p; }
void vf_atomic_store_u64(unsigned long *p, unsigned long v, int order, int site) { *p = v; }
struct Snap SlotVec_reserved_snapshot(struct SlotVec *v, unsigned long size) { struct Snap s; return s; }
void Snap_for_each__lambda_transient_topic_publish_n_1_void(struct Snap *s, unsigned long begin, unsigned long end, struct lambda_transient_topic_publish_n_1 *cb) { g_fe_begin = begin; g_fe_end = end; g_fe_calls++; }
void Topic_publish_n__1_CbNRef_void(struct Topic *t, unsigned long num, struct CbN *cb)
__CPROVER_requires(__CPROVER_is_fresh(t, sizeof(*t)) && t->_next_event_index < (1UL << 62) && num < (1UL << 40) && g_fa_calls == 0 && g_fe_calls == 0)
__CPROVER_assigns(t->_next_event_index, g_fa_old, g_fa_calls, g_fe_begin, g_fe_end, g_fe_calls)
__CPROVER_ensures(g_fa_calls == 1 && g_fe_calls == 1 && g_fe_begin == __CPROVER_old(t->_next_event_index) && g_fe_end == g_fe_begin + num && t->_next_event_index == g_fe_end)
;

/* status tests: the real functions against the word (own jobs), and as callees of the scan against the ghost status */
#define STATUS_TEST(FN, WHICH) \
_Bool FN(SF_t *s) \
__CPROVER_requires(SF_SHAPE(s) && !g_env_on) \
__CPROVER_assigns() \
__CPROVER_ensures(__CPROVER_return_value == (ST(*g_w) == WHICH)) \
;
#define STATUS_TEST_GHOST(FN, WHICH) \
_Bool FN(SF_t *s) \
__CPROVER_requires(g_env_on && g_fst <= CLOSED) \
__CPROVER_assigns(g_fst) \
__CPROVER_ensures(g_fst <= CLOSED && (__CPROVER_old(g_fst) != INITIAL ==> g_fst == __CPROVER_old(g_fst))) \
__CPROVER_ensures(s == &g_slots[g_k].futex ==> __CPROVER_return_value == (g_fst == WHICH)) \
;
#ifdef VF_ENFORCE_Topic_Consumer_consume_lambda_transient_topic_consume_1_op_call
STATUS_TEST_GHOST(Topic_SlotFutex_is_closed, CLOSED)
STATUS_TEST_GHOST(Topic_SlotFutex_is_published, PUBLISHED)
#else
STATUS_TEST(Topic_SlotFutex_is_closed, CLOSED)
STATUS_TEST(Topic_SlotFutex_is_published, PUBLISHED)
#endif
/* ---- consumer scan: the lambda consume(num) hands to for_each */
void LCON(struct lambda_transient_topic_consume_1 *self, Slot_t *iter, Slot_t *end)
__CPROVER_requires(__CPROVER_is_fresh(self, sizeof(*self)) && __CPROVER_is_fresh(self->cap_closed, sizeof(_Bool)) && __CPROVER_is_fresh(self->cap_consumed, sizeof(size_t)) && *self->cap_consumed < (1UL << 40))
__CPROVER_requires(__CPROVER_pointer_in_range_dfcc(g_slots, iter, g_slots + g_n) && __CPROVER_pointer_in_range_dfcc(iter, end, g_slots + g_n))
__CPROVER_requires((size_t)__CPROVER_POINTER_OFFSET(iter) % sizeof(Slot_t) == 0 && (size_t)__CPROVER_POINTER_OFFSET(end) % sizeof(Slot_t) == 0)
__CPROVER_requires(g_k < g_n && g_fst <= CLOSED && g_env_on)
__CPROVER_assigns(*self->cap_closed, *self->cap_consumed, g_fst, g_sleeps)
/* a chunk after a closed slot is skipped entirely */
__CPROVER_ensures(__CPROVER_old(*self->cap_closed) ==> (*self->cap_closed && *self->cap_consumed == __CPROVER_old(*self->cap_consumed)))
/* the count grows by at most the chunk length; the focus slot is counted only when it was seen PUBLISHED, never when CLOSED or INITIAL */
__CPROVER_ensures(*self->cap_consumed >= __CPROVER_old(*self->cap_consumed) && *self->cap_consumed - __CPROVER_old(*self->cap_consumed) <= (size_t)(end - iter))
__CPROVER_ensures((!__CPROVER_old(*self->cap_closed) && iter <= &g_slots[g_k] && &g_slots[g_k] < end && *self->cap_consumed - __CPROVER_old(*self->cap_consumed) > (size_t)(&g_slots[g_k] - iter)) ==> g_fst == PUBLISHED)
/* the scan ends at the end of the chunk or at a closed slot, never at an unpublished one */
__CPROVER_ensures((!*self->cap_closed) ==> *self->cap_consumed - __CPROVER_old(*self->cap_consumed) == (size_t)(end - iter))
__CPROVER_ensures((!__CPROVER_old(*self->cap_closed) && *self->cap_closed && iter + (*self->cap_consumed - __CPROVER_old(*self->cap_consumed)) == &g_slots[g_k]) ==> g_fst == CLOSED)
;
//@loop Topic_Consumer_consume_lambda_transient_topic_consume_1_op_call 1
//@  VF_REBASE(@p1:iter@, g_slots)
//@  __CPROVER_assigns(@p1:iter@, *self->cap_closed, *self->cap_consumed, g_fst, g_sleeps)
//@  __CPROVER_loop_invariant(__CPROVER_same_object(@p1:iter@, g_slots) && (size_t)__CPROVER_POINTER_OFFSET(@p1:iter@) <= g_n * sizeof(Slot_t) && (size_t)__CPROVER_POINTER_OFFSET(@p1:iter@) % sizeof(Slot_t) == 0 && __CPROVER_loop_entry(@p1:iter@) <= @p1:iter@ && @p1:iter@ <= @p2:end@)
//@  __CPROVER_loop_invariant(!*self->cap_closed && *self->cap_consumed == __CPROVER_loop_entry(*self->cap_consumed) + (size_t)(@p1:iter@ - __CPROVER_loop_entry(@p1:iter@)) && g_fst <= CLOSED)
//@  __CPROVER_loop_invariant((__CPROVER_loop_entry(@p1:iter@) <= &g_slots[g_k] && &g_slots[g_k] < @p1:iter@) ==> g_fst == PUBLISHED)
//@end

/* ---- Consumer::consume(num): scans exactly [cursor, cursor + num), advances the cursor by the number of items the scan counted, and
 * returns the range [old cursor, old cursor + count) */
unsigned long g_ce_begin, g_ce_end, g_ce_count;
void Snap_for_each__lambda_transient_topic_consume_1_void(struct Snap *s, unsigned long begin, unsigned long end, struct lambda_transient_topic_consume_1 *cb) {
  g_ce_begin = begin; g_ce_end = end; g_ce_calls++;
  unsigned long k = nondet_u64(); __CPROVER_assume(k <= end - begin);
  __CPROVER_assert(*cb->cap_consumed == 0 && !*cb->cap_closed, "K5 C15.consume starts its scan with nothing counted");
  *cb->cap_consumed = k; *cb->cap_closed = nondet_bool(); g_ce_count = k;
}
void Snap_ctor__SnapshotR(struct Snap *self, struct Snap *o) { *self = *o; }
struct Topic_ConsumeRange Topic_Consumer_consume__u64(struct Topic_Consumer *c, unsigned long num)
__CPROVER_requires(__CPROVER_is_fresh(c, sizeof(*c)) && __CPROVER_is_fresh(c->_queue, sizeof(struct Topic)) && c->_next_consume_index < (1UL << 62) && num < (1UL << 40) && g_ce_calls == 0)
__CPROVER_assigns(c->_next_consume_index, g_ce_begin, g_ce_end, g_ce_count, g_ce_calls)
__CPROVER_ensures(g_ce_calls == 1 && g_ce_begin == __CPROVER_old(c->_next_consume_index) && g_ce_end == g_ce_begin + num)
__CPROVER_ensures(c->_next_consume_index == g_ce_begin + g_ce_count && __CPROVER_return_value._begin == g_ce_begin && __CPROVER_return_value._size == g_ce_count)
;

/* ---- clear(): every slot the vector holds is reset to INITIAL (also the one that carries the CLOSED marker, which lies beyond the
 * published range) and the event counter restarts at zero: after clear() the topic behaves like a new one */
unsigned long g_cl_begin, g_cl_end;
size_t SlotVec_size(struct SlotVec *v) { return g_vec_size; }
void SlotVec_for_each__lambda_transient_topic_clear_1_void(struct SlotVec *v, unsigned long begin, unsigned long end, struct lambda_transient_topic_clear_1 *cb) { g_cl_begin = begin; g_cl_end = end; g_cl_calls++; }
void Topic_clear(struct Topic *t)
__CPROVER_requires(__CPROVER_is_fresh(t, sizeof(*t)) && g_cl_calls == 0)
__CPROVER_assigns(t->_next_event_index, g_cl_begin, g_cl_end, g_cl_calls)
__CPROVER_ensures(g_cl_calls == 1 && g_cl_begin == 0 && g_cl_end == g_vec_size && t->_next_event_index == 0)
;
void LCLR(struct lambda_transient_topic_clear_1 *self, Slot_t *iter, Slot_t *end)
__CPROVER_requires(__CPROVER_is_fresh(self, sizeof(*self)) && __CPROVER_pointer_in_range_dfcc(g_slots, iter, g_slots + g_n) && __CPROVER_pointer_in_range_dfcc(iter, end, g_slots + g_n))
__CPROVER_requires((size_t)__CPROVER_POINTER_OFFSET(iter) % sizeof(Slot_t) == 0 && (size_t)__CPROVER_POINTER_OFFSET(end) % sizeof(Slot_t) == 0 && g_k < g_n && g_fst <= CLOSED)
__CPROVER_assigns(g_fst, g_fmarked)
__CPROVER_ensures((iter <= &g_slots[g_k] && &g_slots[g_k] < end) ==> (g_fst == INITIAL && !g_fmarked))
__CPROVER_ensures(!(iter <= &g_slots[g_k] && &g_slots[g_k] < end) ==> (g_fst == __CPROVER_old(g_fst) && g_fmarked == __CPROVER_old(g_fmarked)))
;
void Topic_SlotFutex_reset(SF_t *s)
#ifdef VF_ENFORCE_Topic_clear_lambda_transient_topic_clear_1_op_call
__CPROVER_requires(1)
__CPROVER_assigns(g_fst, g_fmarked)
__CPROVER_ensures(s == &g_slots[g_k].futex ? (g_fst == INITIAL && !g_fmarked) : (g_fst == __CPROVER_old(g_fst) && g_fmarked == __CPROVER_old(g_fmarked)))
#else
__CPROVER_requires(SF_SHAPE(s) && !g_env_on)
__CPROVER_assigns(*g_w)
__CPROVER_ensures(*g_w == INITIAL)
#endif
;
//@loop Topic_clear_lambda_transient_topic_clear_1_op_call 1
//@  VF_REBASE(@p1:iter@, g_slots)
//@  __CPROVER_assigns(@p1:iter@, g_fst, g_fmarked)
//@  __CPROVER_loop_invariant(__CPROVER_same_object(@p1:iter@, g_slots) && (size_t)__CPROVER_POINTER_OFFSET(@p1:iter@) <= g_n * sizeof(Slot_t) && (size_t)__CPROVER_POINTER_OFFSET(@p1:iter@) % sizeof(Slot_t) == 0 && __CPROVER_loop_entry(@p1:iter@) <= @p1:iter@ && @p1:iter@ <= @p2:end@)
//@  __CPROVER_loop_invariant(F_IN(__CPROVER_loop_entry(@p1:iter@), @p1:iter@) ? (g_fst == INITIAL && !g_fmarked) : (g_fst == __CPROVER_loop_entry(g_fst) && g_fmarked == __CPROVER_loop_entry(g_fmarked)))
//@end
#endif
