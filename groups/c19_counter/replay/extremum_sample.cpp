// native replay of C19.maxer.value (loop invariant "has_result == some slot carries the current version"):
// the only sample of the period equals the type's extremum
#include "babylon/concurrent/counter.h"
#include <cstdint>
#include <cstdio>
int main() {
  int bad = 0;
  {
    ::babylon::ConcurrentMaxer maxer;
    maxer << INT64_MIN;
    ssize_t v = 7;
    bool has = maxer.value(v);
    if (!has || v != INT64_MIN) { std::printf("maxer << INT64_MIN: value() says has=%d value=%ld (expected 1, INT64_MIN)\n", has, (long)v); bad++; }
  }
  {
    ::babylon::ConcurrentMiner miner;
    miner << INT64_MAX;
    ssize_t v = 7;
    bool has = miner.value(v);
    if (!has || v != INT64_MAX) { std::printf("miner << INT64_MAX: value() says has=%d value=%ld (expected 1, INT64_MAX)\n", has, (long)v); bad++; }
  }
  return bad ? 1 : 0;
}
