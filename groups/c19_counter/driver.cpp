// driver TU for C19 (partial): maxer/miner aggregation
#include "babylon/concurrent/counter.h"
namespace babylon_vf {
bool force(::babylon::ConcurrentMaxer& m, ssize_t& out) {
  m << 1; m.reset();
  return m.value(out);
}
}
