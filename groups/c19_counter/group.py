MAXER = 'babylon::internal::ConcurrentComparer<long, -1>'   # clang's JSON spells the bool argument `true` as -1
MINER = 'babylon::internal::ConcurrentComparer<long, false>'
GROUP = dict(
    prop='C19',
    driver='driver.cpp',
    spec='spec.h',
    aliases=[('babylon::CompactEnumerableThreadLocal<babylon::internal::ConcurrentComparer<long, -1>::Slot, 64, -1>', 'MaxStore'),
             (MAXER, 'Maxer')],
    type_aliases={'Slot': MAXER + '::Slot'},   # the substituted template argument is printed as written
    opaque_by_value=['babylon::CompactEnumerableThreadLocal<babylon::internal::ConcurrentComparer<long, -1>::Slot, 64, -1>',
                     'babylon::CompactEnumerableThreadLocal<babylon::internal::ConcurrentComparer<long, false>::Slot, 64, -1>'],
    extern_re=[r'CompactEnumerableThreadLocal<.*>::(for_each|local)'],
    # one instantiation per lambda location: clang prints the closure type of both instantiations as the same
    # "(lambda at counter.h:159:23)", so the miner (symmetric code, Max=false) is not lowered in this group
    roots=[{'name': MAXER + '::value', 'sig': 'long &'}, MAXER + '::operator<<',
           {'lambda_in': MAXER + '::value', 'ordinal': 1}],
    reviewed_compiler_conditionals=[],
    assumptions=['CompactEnumerableThreadLocal::for_each presents every slot ever used exactly once (abstract stub that calls the real lowered lambda); local() returns the private slot of the calling thread (stub)',
                 'quiescent reads: no sample is recorded while value() scans', 'the miner (Max=false) is the same template code and is not lowered separately'],
    jobs=[
        dict(id='C19.maxer.value', enforce='Maxer_value__i64R_const', loops=True),
        dict(id='C19.maxer.record', enforce='Maxer_op_shl', replace=['MaxStore_local__1']),
    ],
)
