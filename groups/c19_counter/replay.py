import os, sys
sys.path.insert(0, os.path.join(os.path.dirname(os.path.abspath(__file__)), '..', '..', 'tools'))
import replaylib
HERE = os.path.dirname(os.path.abspath(__file__))


def replay(job, failed, report, bdir):
    if job['id'] != 'C19.maxer.value':
        report['native_replay'] = 'no staged replay for this obligation'
        return False
    rc, out = replaylib.build_and_run(os.path.join(HERE, 'replay', 'extremum_sample.cpp'), os.path.join(bdir, 'replay'))
    report['native_replay'] = {'program': 'groups/c19_counter/replay/extremum_sample.cpp', 'exit': rc, 'output': out,
                               'staging': 'counterexample class: a current-version slot whose value equals the extremum of T'}
    return rc == 1
