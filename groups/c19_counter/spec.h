/* C19 (partial) -- ConcurrentMaxer: value(T&) reports the extreme of the current period; operator<< records into the thread's slot */
#ifndef C19_SPEC_H
#define C19_SPEC_H
unsigned long nondet_u64(void);
long nondet_i64(void);
_Bool nondet_bool(void);
typedef struct Maxer Maxer_t;
typedef struct Maxer_Slot Slot_t;
_Bool g_any;        /* some presented slot carries the current version */
long g_max;         /* maximum of the values of those slots */
Slot_t g_slot;      /* the slot currently presented by for_each */
Slot_t *g_local;    /* the calling thread's slot (local()) */
static void vf_havoc_ghosts(void) { g_any = 0; g_max = 0; }

/* for_each: an arbitrary number of arbitrary slots, each handed to the REAL lambda of value(); the ghost (g_any, g_max) is the
 * reference result.  The loop invariant is the induction hypothesis "the lambda's captured state equals the reference so far". */
void MaxStore_for_each__lambda_counter_value_2_void(struct MaxStore *st, struct lambda_counter_value_2 *cb) {
  unsigned long n = nondet_u64();
  for (unsigned long i = 0; i < n; ++i)
    __CPROVER_assigns(i, g_any, g_max, g_slot, *cb->cap_result, *cb->cap_has_result)
    __CPROVER_loop_invariant(i <= n)
    __CPROVER_loop_invariant(*cb->cap_has_result == g_any)
    __CPROVER_loop_invariant(!g_any || *cb->cap_result == g_max)
    __CPROVER_decreases(n - i)
  {
    g_slot.version = nondet_u64(); g_slot.value = nondet_i64();
    if (g_slot.version == cb->cap_this->_version) { if (!g_any || g_slot.value > g_max) g_max = g_slot.value; g_any = 1; }
    Maxer_value_lambda_counter_value_2_op_call(cb, &g_slot);
  }
}

/* value(T&): true iff the period has a sample, and then the maximum of the period; otherwise the argument is untouched */
_Bool Maxer_value__i64R_const(Maxer_t *m, long *out)
__CPROVER_requires(__CPROVER_is_fresh(m, sizeof(*m)) && __CPROVER_is_fresh(out, sizeof(*out)) && !g_any)
__CPROVER_assigns(*out, g_any, g_max, g_slot)
__CPROVER_ensures(__CPROVER_return_value == g_any)
__CPROVER_ensures(g_any ==> *out == g_max)
__CPROVER_ensures(!g_any ==> *out == __CPROVER_old(*out))
;

Slot_t *MaxStore_local__1(struct MaxStore *st) __CPROVER_assigns() __CPROVER_ensures(__CPROVER_return_value == g_local);

/* operator<<(value): first sample of a period overwrites the slot, later ones keep the maximum; only the caller's slot changes */
Maxer_t *Maxer_op_shl(Maxer_t *m, long value)
__CPROVER_requires(__CPROVER_is_fresh(m, sizeof(*m)) && __CPROVER_is_fresh(g_local, sizeof(*g_local)))
__CPROVER_assigns(g_local->version, g_local->value)
__CPROVER_ensures(g_local->version == m->_version)
__CPROVER_ensures(__CPROVER_old(g_local->version) != m->_version ==> g_local->value == value)
__CPROVER_ensures(__CPROVER_old(g_local->version) == m->_version ==> g_local->value == (value > __CPROVER_old(g_local->value) ? value : __CPROVER_old(g_local->value)))
__CPROVER_ensures(__CPROVER_return_value == m)
;
#endif
