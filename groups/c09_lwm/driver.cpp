// driver TU for C09 (low water mark): Epoch::low_water_mark and its scanning lambda
#include "babylon/concurrent/epoch.h"
namespace babylon_vf {
uint64_t force(::babylon::Epoch& e) { return e.low_water_mark(); }
}
