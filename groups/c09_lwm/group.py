SV = 'babylon::ConcurrentVector<babylon::Epoch::Slot, 0>'
SNAP = 'babylon::ConcurrentVector<babylon::Epoch::Slot, 0>::ConstSnapshot'
GROUP = dict(
    prop='C09',
    driver='driver.cpp',
    spec='spec.h',
    aliases=[(SNAP, 'Snap'), (SV, 'SlotVec'), ('babylon::IdAllocator<unsigned int>', 'IdAlloc')],
    opaque_by_value=['babylon::IdAllocator<unsigned int>', SV, SNAP],
    extern_re=[r'ConcurrentVector<babylon::Epoch::Slot,\s*0>::', r'IdAllocator<unsigned int>::', r'ThreadId', r'Epoch::accessor_number'],
    roots=[{'lambda_in': 'babylon::Epoch::low_water_mark', 'ordinal': 1}, 'babylon::Epoch::low_water_mark'],
    reviewed_compiler_conditionals=['src/babylon/concurrent/epoch.h:#if GCC_VERSION >= 120000'],
    assumptions=['slot versions are arbitrary at every read (other threads enter and leave regions concurrently); the contract is relative to the values read',
                 'ConcurrentVector::snapshot / Snapshot::size / Snapshot::for_each are stubs: for_each hands the callback [begin,end) in order in contiguous segments (C04 index arithmetic)',
                 'accessor_number() / ThreadId::end<Epoch>() are arbitrary; that they bound every registered slot index is C14 (id allocation)',
                 'sufficiency of the fences (store buffering) is prose'],
    jobs=[
        dict(id='C09.lwm', enforce='Epoch_low_water_mark', replace=['Epoch_low_water_mark_lambda_epoch_low_water_mark_1_op_call'], backend='cadical',
             covers=['g_number == 0 && g_reads > 3', 'g_number > 5 && g_number < g_size && g_f + 1 < g_number && g_f > 1']),
        dict(id='C09.lwm.scan', enforce='Epoch_low_water_mark_lambda_epoch_low_water_mark_1_op_call', loops=True, backend='cadical', covers=['g_b > g_a + 3 && g_f > g_a && g_f + 1 < g_b']),
    ],
)
