/* C09 (low water mark) -- Epoch::low_water_mark() and its scanning lambda.
 * "Never early" rests on low_water_mark() being a lower bound of what every registered slot publishes: the scan must read EVERY slot
 * below min(number of accessors (or thread ids), size of the slot snapshot) exactly once, with acquire, and return exactly the
 * minimum of the values it read (UINT64_MAX when there is none).  Slot versions may change concurrently (other threads entering and
 * leaving regions): each read returns whatever the slot shows at that moment; the contract is relative to the values read.
 *   lambda  [iter, end) inside the slot array: every slot of the range read once (acquire), running minimum maintained exactly;
 *   scan    for_each is asked for exactly [0, min(number, size)) and the result is the minimum over all reads; in particular it is
 *           <= the value read from any watched slot g_f of that range.
 * The segment walk of ConcurrentVector::Snapshot::for_each (one or two contiguous segments here) is C04's; the store-buffering
 * argument that makes a lower bound of the READ values a lower bound of what region holders rely on is prose (DESIGN 6, C09). */
#ifndef C09L_SPEC_H
#define C09L_SPEC_H
#include <stdint.h>
#include <stdlib.h>
unsigned long nondet_u64(void);
typedef struct Epoch_Slot Slot_t;
typedef struct lambda_epoch_low_water_mark_1 Scan_t;
#define LSCAN Epoch_low_water_mark_lambda_epoch_low_water_mark_1_op_call
Slot_t *g_slots; size_t g_n;               /* slot array of the snapshot (typed), its length */
size_t g_a, g_b;                           /* range of the lambda call under contract */
size_t g_f; unsigned long g_read_f; _Bool g_f_read;    /* watched slot: value read, whether it was read */
unsigned long g_min_reads; size_t g_reads, g_next;      /* minimum over all reads so far; number of reads; next slot index expected */
_Bool g_order_ok, g_seq_ok;
size_t g_number, g_tid_end, g_size; unsigned g_foreach_calls; size_t g_fe_begin, g_fe_end;
static void vf_havoc_ghosts(void) {
  g_n = nondet_u64(); __CPROVER_assume(g_n < (1UL << 20));
  g_slots = malloc((g_n + 1) * sizeof(Slot_t)); __CPROVER_assume(g_slots != 0);
  g_a = nondet_u64(); g_b = nondet_u64(); g_f = nondet_u64(); g_read_f = 0; g_f_read = 0;
  g_min_reads = 0xFFFFFFFFFFFFFFFFUL; g_reads = 0; g_next = nondet_u64(); g_order_ok = 1; g_seq_ok = 1;
  g_number = nondet_u64(); g_tid_end = nondet_u64(); g_size = nondet_u64(); g_foreach_calls = 0; g_fe_begin = g_fe_end = 0;
}
unsigned long vf_atomic_load_u64(unsigned long *p, int order, int site) {
  if (!(order == 2 || order == 4 || order == 5)) g_order_ok = 0;
  /* the slot read must be the next one of the range: every slot once, none skipped */
  if (!(__CPROVER_same_object(p, g_slots) && p == &g_slots[g_next].version)) g_seq_ok = 0;
  unsigned long v = nondet_u64();          /* whatever the slot shows now (other threads enter and leave regions concurrently) */
  if (g_next == g_f) { g_read_f = v; g_f_read = 1; }
  if (v < g_min_reads) g_min_reads = v;
  __CPROVER_assume(g_reads < (1UL << 40)); g_reads++; g_next++;
  return v;
}
#define SLOT_AT(p, k) (__CPROVER_same_object(p, g_slots) && __CPROVER_POINTER_OFFSET(p) % sizeof(Slot_t) == 0 && __CPROVER_POINTER_OFFSET(p) / sizeof(Slot_t) == (k))
void LSCAN(Scan_t *c, Slot_t *iter, Slot_t *end)
__CPROVER_requires(__CPROVER_is_fresh(c, sizeof(*c)) && __CPROVER_is_fresh(c->VF_CAP_lambda_epoch_low_water_mark_1_1, 8) && g_a <= g_b && g_b <= g_n)
__CPROVER_requires(__CPROVER_pointer_equals(iter, g_slots + g_a) && __CPROVER_pointer_equals(end, g_slots + g_b) && g_next == g_a && *c->VF_CAP_lambda_epoch_low_water_mark_1_1 == g_min_reads && g_order_ok && g_seq_ok)
__CPROVER_assigns(*c->VF_CAP_lambda_epoch_low_water_mark_1_1, g_read_f, g_f_read, g_min_reads, g_reads, g_next, g_order_ok, g_seq_ok)
__CPROVER_ensures(g_order_ok && g_seq_ok && g_next == g_b && g_reads == __CPROVER_old(g_reads) + (g_b - g_a))
__CPROVER_ensures(*c->VF_CAP_lambda_epoch_low_water_mark_1_1 == g_min_reads && g_min_reads <= __CPROVER_old(g_min_reads))
__CPROVER_ensures((g_f >= g_a && g_f < g_b) ==> (g_f_read && g_min_reads <= g_read_f))
__CPROVER_ensures((g_f < g_a || g_f >= g_b) ==> (g_f_read == __CPROVER_old(g_f_read) && g_read_f == __CPROVER_old(g_read_f)))      /* slots outside the range are not read */
;
//@loop Epoch_low_water_mark_lambda_epoch_low_water_mark_1_op_call 1
//@  VF_REBASE(@p1:iter@, g_slots)
//@  __CPROVER_assigns(@p1:iter@, *self->VF_CAP_lambda_epoch_low_water_mark_1_1, g_read_f, g_f_read, g_min_reads, g_reads, g_next, g_order_ok, g_seq_ok)
//@  __CPROVER_loop_invariant(g_a <= g_next && g_next <= g_b && SLOT_AT(@p1:iter@, g_next) && g_order_ok && g_seq_ok && g_reads == __CPROVER_loop_entry(g_reads) + (g_next - g_a))
//@  __CPROVER_loop_invariant(*self->VF_CAP_lambda_epoch_low_water_mark_1_1 == g_min_reads && g_min_reads <= __CPROVER_loop_entry(g_min_reads) && ((g_f >= g_a && g_f < g_next) ==> (g_f_read && g_min_reads <= g_read_f)) && ((g_f < g_a || g_f >= g_next) ==> (g_f_read == __CPROVER_loop_entry(g_f_read) && g_read_f == __CPROVER_loop_entry(g_read_f))))
//@  __CPROVER_decreases(g_b - g_next)
//@end

/* ---- the scan as a whole */
struct Snap SlotVec_snapshot__void_const(struct SlotVec *v) { struct Snap s; return s; }
size_t Epoch_accessor_number(struct Epoch *e) { return g_number; }
uint16_t internal_ThreadIdImpl_L_0_R_end__Epoch(void) { return (uint16_t)g_tid_end; }
size_t Snap_size(struct Snap *s) { return g_size; }
/* Snapshot::for_each(begin, end, cb): hands cb the slots [begin, end) in order, in contiguous segments (C04); two segments here */
void Snap_for_each__lambda_epoch_low_water_mark_1_void(struct Snap *s, unsigned long begin, unsigned long end, Scan_t *cb) {
  g_foreach_calls++; g_fe_begin = begin; g_fe_end = end;
  if (begin > end || end > g_n) return;      /* (asked for a range outside the snapshot: reported by the caller's postcondition) */
  size_t mid = nondet_u64(); __CPROVER_assume(begin <= mid && mid <= end);
  g_a = begin; g_b = mid; g_next = begin;
  LSCAN(cb, g_slots + begin, g_slots + mid);
  g_a = mid; g_b = end;
  LSCAN(cb, g_slots + mid, g_slots + end);
}
#define EFF_NUMBER (g_number != 0 ? g_number : (size_t)(uint16_t)g_tid_end)
#define SCAN_N (EFF_NUMBER < g_size ? EFF_NUMBER : g_size)
uint64_t Epoch_low_water_mark(struct Epoch *e)
__CPROVER_requires(__CPROVER_is_fresh(e, sizeof(*e)) && g_size == g_n && g_reads == 0 && g_min_reads == 0xFFFFFFFFFFFFFFFFUL && g_order_ok && g_seq_ok && g_foreach_calls == 0 && !g_f_read)
__CPROVER_assigns(g_a, g_b, g_next, g_read_f, g_f_read, g_min_reads, g_reads, g_order_ok, g_seq_ok, g_foreach_calls, g_fe_begin, g_fe_end)
__CPROVER_ensures(g_foreach_calls == 1 && g_fe_begin == 0 && g_fe_end == SCAN_N)            /* every registered slot the snapshot holds is scanned */
__CPROVER_ensures(g_order_ok && g_seq_ok && g_reads == SCAN_N && __CPROVER_return_value == g_min_reads)
__CPROVER_ensures(g_f < SCAN_N ==> (g_f_read && __CPROVER_return_value <= g_read_f))
;
#endif
