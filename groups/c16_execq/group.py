EQ = 'babylon::ConcurrentExecutionQueue<unsigned long, babylon_vf::Sched>'
GROUP = dict(
    prop='C16',
    driver='driver.cpp',
    spec='spec.h',
    aliases=[(EQ, 'EQ'), ('babylon::ConcurrentBoundedQueue<unsigned long, babylon_vf::Sched>', 'Q'), ('babylon_vf::', '')],
    opaque_by_value=['babylon::ConcurrentBoundedQueue<unsigned long, babylon_vf::Sched>',
                     'babylon::MoveOnlyFunction<void(babylon::ConcurrentBoundedQueue<unsigned long, babylon_vf::Sched>::Iterator, babylon::ConcurrentBoundedQueue<unsigned long, babylon_vf::Sched>::Iterator)>'],
    extern_re=[r'ConcurrentBoundedQueue<.*>::(try_pop_n|capacity|push)', r'Executor::submit'],
    roots=[EQ + '::signal_push_event', EQ + '::start_consumer', EQ + '::consume_until_empty', EQ + '::join'],
    reviewed_compiler_conditionals=[],
    assumptions=['single consumer: while consume_until_empty runs nobody else resets the event counter (0->1 transitions are unique by RMW atomicity)',
                 'a producer signals only after its push returned; try_pop_n returning 0 means the next ticket is not published (queue contract, C01)',
                 'Executor::submit may refuse any attempt (nondeterministic stub); SC interleavings'],
    jobs=[
        dict(id='C16.consume_until_empty', enforce='EQ_consume_until_empty', loops=True),
        dict(id='C16.start_consumer', enforce='EQ_start_consumer', loops=True),
        dict(id='C16.signal_push_event', enforce='EQ_signal_push_event', replace=['EQ_start_consumer']),
    ],
)
