// driver TU for C16: ConcurrentExecutionQueue event-counter protocol
#include "babylon/concurrent/execution_queue.h"
namespace babylon_vf {
struct Sched {
  static constexpr bool futex_need_create() noexcept { return false; }
  static uint32_t* create_futex() noexcept;
  static void destroy_futex(uint32_t*) noexcept;
  static int futex_wait(uint32_t*, uint32_t, const struct ::timespec*) noexcept;
  static int futex_wake_one(uint32_t*) noexcept;
  static int futex_wake_all(uint32_t*) noexcept;
  static void usleep(useconds_t) noexcept;
  static void yield() noexcept;
};
using EQ = ::babylon::ConcurrentExecutionQueue<uint64_t, Sched>;
int force(EQ& q, ::babylon::Executor& e) {
  q.initialize(8, e, [](EQ::Iterator, EQ::Iterator) {});
  q.execute(1);
  q.join();
  return 0;
}
}
