/* C16 -- ConcurrentExecutionQueue: the event-counter protocol between producers and the (single) consumer.
 *
 * Ghost model of the queue side (the queue itself is C01's):
 *   g_tickets   push tickets taken so far (monotone, environment)          g_cons   items consumed so far (only the consumer)
 *   g_sig_next  the producer of ticket number g_cons (the next item to consume) has already signalled its push
 * Facts used as RELY (each follows from "a producer signals only after its push returned" and the queue's ticket order):
 *   the environment never decreases _events while a consumer is live, takes tickets, and can make g_sig_next true only together
 *   with an increase of _events; an empty poll means the next ticket is not published yet, hence not signalled.
 * Obligation at the consumer's exit CAS: no signalled item is stranded (every unconsumed item still has its signal ahead, and
 * that signal will find _events == 0 and launch a consumer). */
#ifndef C16_SPEC_H
#define C16_SPEC_H
unsigned long nondet_u64(void);
_Bool nondet_bool(void);
int nondet_int(void);
typedef struct EQ EQ_t;
unsigned long *g_ev;           /* &_events */
unsigned long g_tickets, g_cons;
_Bool g_sig_next;
_Bool g_consumer_role;         /* the function under verification is the live consumer (nobody else resets _events) */
unsigned g_launched, g_exits, g_polls_since_load;
unsigned long g_fetch_old;
_Bool g_last_poll_empty, g_reset;
static void vf_havoc_ghosts(void) { g_reset = 0; g_tickets = nondet_u64(); g_cons = nondet_u64(); g_sig_next = nondet_bool(); g_launched = 0; g_exits = 0; g_last_poll_empty = 0; }
#define G_INV (g_cons <= g_tickets && (g_cons != g_tickets || !g_sig_next))

static void env_step(void) {
  unsigned long ev = nondet_u64(), tk = nondet_u64(); _Bool sg = nondet_bool();
  __CPROVER_assume(tk >= g_tickets);
  if (g_consumer_role) __CPROVER_assume(ev >= *g_ev);                 /* only the consumer resets the counter */
  __CPROVER_assume(sg == g_sig_next || (sg && ev > *g_ev && g_cons < tk));   /* a signal bumps the counter */
  __CPROVER_assume(!(g_cons == tk) || !sg);
  *g_ev = ev; g_tickets = tk; g_sig_next = sg;
}
unsigned long vf_atomic_load_u64(unsigned long *p, int order, int site) {
  if (p == g_ev) env_step();
  __CPROVER_assert(order == 2 || order == 4 || order == 5, "K6 C16 event counter loads are at least acquire");
  return *p;
}
unsigned long vf_atomic_fetch_add_u64(unsigned long *p, unsigned long v, int order, int site) {
  if (p == g_ev) env_step();
  __CPROVER_assert(order == 4 || order == 5, "K6 C16 the signalling increment is acq_rel");
  unsigned long old = *p; *p = old + v; g_fetch_old = old; return old;
}
_Bool vf_atomic_compare_exchange_strong_u64(unsigned long *p, unsigned long *expected, unsigned long desired, int success, int failure, int site) {
  if (p == g_ev) env_step();
  if (*p != *expected) { *expected = *p; return 0; }
  *p = desired;
  if (p == g_ev && desired == 0) g_reset = 1;      /* the counter was moved to zero atomically from the value the caller had seen */
  if (p == g_ev && site == SITE_EQ_consume_until_empty_events_compare_exchange_strong_1) {
    /* K5: the consumer leaves only right after an empty poll, and then nothing signalled is left behind */
    __CPROVER_assert(g_last_poll_empty, "K5 C16.exit the consumer gives up only after an empty poll");
    __CPROVER_assert(g_cons == g_tickets || !g_sig_next, "K5 C16.exit no signalled item is stranded when the consumer resets the counter");
    __CPROVER_assert(desired == 0, "K5 C16.exit the counter is reset to zero (the next signal launches a consumer)");
    g_exits++;
  }
  return 1;
}
size_t Q_capacity(struct Q *q) { return 8; }
/* try_pop_n<false,false>: consumes k available items (k == 0: the next ticket is not published, so it has not signalled) */
size_t Q_try_pop_n__0_0_MoveOnlyFunction_L_void_Q_Iterator_Q_Iterator_RRef_void(struct Q *q, struct MoveOnlyFunction_L_void_Q_Iterator_Q_Iterator_R *cb, unsigned long num) {
  env_step();
  unsigned long k = nondet_u64();
  __CPROVER_assume(k <= num && k <= g_tickets - g_cons);
  if (k == 0) { __CPROVER_assume(g_cons == g_tickets || !g_sig_next); g_last_poll_empty = 1; }
  else { g_cons += k; g_sig_next = nondet_bool(); __CPROVER_assume(g_cons != g_tickets || !g_sig_next); g_last_poll_empty = 0; }
  return k;
}
int g_submit_ret;
int Executor_submit__void_EQ_P_noexcept_EQP__vf_memfnptr_Sched_RPR(struct Executor *e, struct vf_memfnptr fn, EQ_t **arg) {
  __CPROVER_assert(fn.fn == (void *)EQ_consume_until_empty, "K1 C16 the launched function is the consumer loop");
  int r = nondet_int();                 /* the executor may refuse any attempt */
  if (r == 0) g_launched++;
  g_submit_ret = r;
  return r;
}
void Sched_usleep(unsigned int us) { }

#ifdef VF_ENFORCE_EQ_consume_until_empty
#define ROLE_CONSUMER 1
#else
#define ROLE_CONSUMER 0
#endif
#define EQ_SHAPE(q) (__CPROVER_is_fresh(q, sizeof(*q)) && __CPROVER_pointer_equals(g_ev, &(q)->_events) && G_INV && g_consumer_role == ROLE_CONSUMER)

/* consume_until_empty(): runs as the single live consumer; returns only through the exit CAS */
void EQ_consume_until_empty(EQ_t *q)
__CPROVER_requires(EQ_SHAPE(q) && q->_events >= 1 && g_exits == 0)
__CPROVER_assigns(q->_events, g_tickets, g_cons, g_sig_next, g_exits, g_last_poll_empty, g_reset)
__CPROVER_ensures(g_exits == 1)
;
//@loop EQ_consume_until_empty 1
//@  __CPROVER_assigns(@l1:events@, self->_events, g_tickets, g_cons, g_sig_next, g_exits, g_last_poll_empty, g_reset)
//@  __CPROVER_loop_invariant(@l1:events@ <= self->_events && G_INV && g_exits == 0)
//@end

/* start_consumer(): returns 0 only after an accepted launch; returns -1 only after it reset the counter to zero */
int EQ_start_consumer(EQ_t *q)
__CPROVER_requires(EQ_SHAPE(q) && q->_events >= 1 && g_launched == 0)
__CPROVER_assigns(q->_events, g_tickets, g_sig_next, g_launched, g_submit_ret, g_reset)
__CPROVER_ensures(__CPROVER_return_value == 0 || __CPROVER_return_value == -1)
__CPROVER_ensures(__CPROVER_return_value == 0 ==> g_launched == 1)
/* giving up is allowed only by a successful CAS of the counter to zero: otherwise signals counted meanwhile have no consumer */
__CPROVER_ensures(__CPROVER_return_value == -1 ==> (g_launched == 0 && g_reset))
;
//@loop EQ_start_consumer 1
//@  __CPROVER_assigns(@l1:events@, self->_events, g_tickets, g_sig_next, g_launched, g_submit_ret, g_reset)
//@  __CPROVER_loop_invariant(g_launched == 0 && G_INV && !g_reset)
//@end

/* signal_push_event(): launches a consumer exactly when it moved the counter from 0 to 1 */
int EQ_signal_push_event(EQ_t *q)
__CPROVER_requires(EQ_SHAPE(q) && q->_events < (1UL << 62) && g_launched == 0)
__CPROVER_assigns(q->_events, g_tickets, g_sig_next, g_launched, g_submit_ret, g_fetch_old, g_reset)
__CPROVER_ensures(g_launched <= 1)
/* at most one consumer at a time: a launch is attempted only by the producer that moved the counter from 0 to 1 */
__CPROVER_ensures(g_fetch_old != 0 ==> (g_launched == 0 && __CPROVER_return_value == 0))
__CPROVER_ensures((g_fetch_old == 0 && __CPROVER_return_value == 0) ==> g_launched == 1)
;
/* join(): returns only after observing the counter at zero */
void EQ_join(EQ_t *q)
__CPROVER_requires(EQ_SHAPE(q))
__CPROVER_assigns(q->_events, g_tickets, g_sig_next, g_reset)
__CPROVER_ensures(1)
;
#endif
