/* C20 (second sentence) -- AsyncFileAppender: what the writer thread does with the scatter lists it collected.
 *
 * write_use_plain_writev(dest, fd): every element of dest.iov is handed to writev exactly once, in list order, in calls of at
 *   most IOV_MAX elements (a longer call fails with EINVAL and the whole batch would be lost), on the descriptor it was given;
 *   every page base of the list is collected and returned to the page allocator by exactly one deallocate call; the list and the
 *   function's static page buffer are empty afterwards.
 * discard(entry): the pages of the entry's scatter list all go back to the allocator by one deallocate call, nothing is written.
 *
 * std::vector<iovec> / std::vector<void*> are outside the babylon AST: they are executable stubs over ghost state (data pointer,
 * length, one watched index g_f whose value is recorded), the same style as C10's task vector.  __gnu_cxx::__normal_iterator is
 * lowered to the pointer it wraps. */
#ifndef C20A_SPEC_H
#define C20A_SPEC_H
#include <stdint.h>
#include <stdlib.h>
unsigned long nondet_u64(void); long nondet_i64(void); int nondet_int(void);
#define VF_IOV_MAX 1024L   /* <limits.h> IOV_MAX == <sys/uio.h> UIO_MAXIOV on Linux */

/* ---- the scatter list (std::vector<iovec>) */
struct iovec *g_iov;      /* typed array of g_in + 1 elements */
size_t g_in;              /* length of the list at entry */
size_t g_isz;             /* current length */
struct iovec *IovVec_begin(struct IovVec *v) { return g_iov; }
struct iovec *IovVec_end(struct IovVec *v) { return g_iov + g_isz; }
void IovVec_clear(struct IovVec *v) { g_isz = 0; }
#ifndef VF_KEEP_WRITING
_Bool IovVec_empty(struct IovVec *v) { return g_isz == 0; }
#endif
struct iovec *IovVec_data(struct IovVec *v) { return g_iov; }
size_t IovVec_size(struct IovVec *v) { return g_isz; }
/* ---- the page buffer (std::vector<void*>) */
size_t g_psz, g_f; void *g_fval; void **g_pdata;
void **PtrVec_emplace_back(struct PtrVec *v, void *x) {
  if (g_psz == g_f) g_fval = x;
  __CPROVER_assume(g_psz < (1UL << 40)); g_psz++;
  return &g_fval;
}
void PtrVec_push_back(struct PtrVec *v, void *x) { if (g_psz == g_f) g_fval = x; __CPROVER_assume(g_psz < (1UL << 40)); g_psz++; }
void **PtrVec_data(struct PtrVec *v) { return g_pdata; }
size_t PtrVec_size(struct PtrVec *v) { return g_psz; }
void PtrVec_clear(struct PtrVec *v) { g_psz = 0; }
/* ---- writev: ghost recorder of what reaches the file */
size_t g_wr; int g_fd; unsigned g_bad_fd;
ssize_t vf_writev(int fd, struct iovec *p, int cnt) {
  __CPROVER_assert(cnt >= 1 && (long)cnt <= VF_IOV_MAX, "C20 appender: a writev call carries between 1 and IOV_MAX elements (more is EINVAL: the batch is lost)");
  __CPROVER_assert(g_wr + (size_t)cnt <= g_isz, "C20 appender: writev is given elements of the list only");
  __CPROVER_assert(p == g_iov + g_wr, "C20 appender: writev continues exactly where the previous call stopped (each element once, in order)");
  if (fd != g_fd) g_bad_fd++;
  g_wr += (size_t)cnt;
  return nondet_i64();
}
/* ---- page allocator: ghost recorder of what is returned */
unsigned g_dcalls; size_t g_dn; void *g_dfval; void **g_dptr;
void PageAllocator_deallocate__voidPP_u64(struct PageAllocator *self, void **pages, unsigned long num) {
  __CPROVER_assume(g_dcalls < 1000); g_dcalls++; g_dn = num; g_dfval = g_fval; g_dptr = pages;
}

/* ---- discard / destination / pop lambda */
typedef struct AsyncFileAppender App_t;
typedef struct AsyncFileAppender_Destination Dest_t;
typedef struct AsyncFileAppender_Item Item_t;
typedef struct ConcurrentBoundedQueue_L_AsyncFileAppender_Item_SchedInterface_R_Iterator QIt_t;
typedef struct lambda_async_file_appender_keep_writing_1 PopL_t;
#define LPOP AsyncFileAppender_keep_writing_lambda_async_file_appender_keep_writing_1_op_call
size_t g_ps;                                  /* the allocator's page size */
unsigned g_appends; struct LogEntry *g_app_entry; struct IovVec *g_app_vec; size_t g_app_ps;
size_t g_dsz, g_fidx; Dest_t *g_dests; struct FileObject *g_file; unsigned g_set_index_calls; size_t g_set_index_val; unsigned g_dest_emplaced, g_vec_ctor, g_vec_dtor;
size_t g_qn, g_stop_at, g_appended; Item_t *g_items; Dest_t *g_cur_dest; size_t g_cur_idx; unsigned g_dest_calls; _Bool g_order_ok, g_dest_ok, g_ps_ok;
size_t g_cap, g_batch_asked; unsigned g_rounds; _Bool g_stop_seen; unsigned g_chk, g_closes, g_oldfds; int g_last_fd, g_last_old; struct FileObject *g_last_file; size_t g_round_dsz; _Bool g_round_complete;
Dest_t *g_wdest; size_t g_iov_cap, g_items_cap;
static void vf_havoc_ghosts(void) {
  g_cap = nondet_u64(); g_rounds = 0; g_stop_seen = 0; g_chk = g_closes = g_oldfds = 0; g_last_fd = -1; g_last_old = -1; g_last_file = 0; g_round_dsz = 0; g_round_complete = 0; g_wdest = 0;
  g_ps = nondet_u64(); g_appends = 0; g_app_entry = 0; g_app_vec = 0; g_app_ps = 0;
  g_dsz = nondet_u64(); __CPROVER_assume(g_dsz < (1UL << 20)); g_dests = malloc((g_dsz + 2) * sizeof(Dest_t)); __CPROVER_assume(g_dests != 0);
  g_fidx = nondet_u64(); g_file = 0; g_set_index_calls = 0; g_set_index_val = 0; g_dest_emplaced = g_vec_ctor = g_vec_dtor = 0;
  g_qn = nondet_u64(); __CPROVER_assume(g_qn < (1UL << 20)); g_items = malloc((g_qn + 1) * sizeof(Item_t)); __CPROVER_assume(g_items != 0); g_items_cap = g_qn;
  g_stop_at = nondet_u64(); g_appended = 0; g_cur_dest = 0; g_dest_calls = 0; g_order_ok = 1; g_dest_ok = 1; g_ps_ok = 1;
  g_in = nondet_u64(); __CPROVER_assume(g_in < (1UL << 32));
  g_iov = malloc((g_in + 1) * sizeof(struct iovec)); __CPROVER_assume(g_iov != 0); g_iov_cap = g_in;
  g_isz = nondet_u64(); g_psz = 0; g_f = nondet_u64(); g_fval = 0; g_pdata = malloc(8); __CPROVER_assume(g_pdata != 0);
  g_wr = 0; g_fd = nondet_int(); g_bad_fd = 0; g_dcalls = 0; g_dn = nondet_u64(); g_dfval = 0; g_dptr = 0;
}

void AsyncFileAppender_write_use_plain_writev(struct AsyncFileAppender *self, struct AsyncFileAppender_Destination *dest, int fd)
__CPROVER_requires(__CPROVER_is_fresh(self, sizeof(*self)) && __CPROVER_is_fresh(dest, sizeof(*dest)) && __CPROVER_is_fresh(self->_page_allocator, 8))
__CPROVER_requires(g_isz == g_in && g_in < (1UL << 32) && g_wr == 0 && fd == g_fd && g_bad_fd == 0 && g_dcalls == 0)
#ifdef VF_KEEP_WRITING
__CPROVER_requires(dest == g_wdest)
#endif
__CPROVER_requires(g_psz == 0)   /* the function-local static buffer is empty between calls: it is cleared on every exit (ensures below) */
__CPROVER_assigns(g_isz, g_psz, g_fval, g_wr, g_bad_fd, g_dcalls, g_dn, g_dfval, g_dptr)
__CPROVER_ensures(g_wr == g_in && g_bad_fd == 0)                       /* everything written, once, in order, to the given descriptor */
__CPROVER_ensures(g_dcalls == 1 && g_dn == g_in && g_dptr == g_pdata)  /* one deallocate of exactly as many pages as list elements */
__CPROVER_ensures(g_f < g_in ==> g_dfval == g_iov[g_f].iov_base)       /* and page k of that call is the base of element k, for every k */
__CPROVER_ensures(g_isz == 0 && g_psz == 0)
;
size_t PageAllocator_page_size(struct PageAllocator *a) { return g_ps; }
/* LogEntry::append_to_iovec (the reader: C20.reader / pages_append): appends the entry's scatter list to the given vector */
void LogEntry_append_to_iovec(struct LogEntry *e, unsigned long page_size, struct IovVec *v) {
#ifdef VF_POP_LAMBDA
  /* pop lambda: item k of the batch must be appended k-th (each once, in pop order), with the allocator's page size, to the list of
     the destination that destination() returned for this very item's file */
  if (e != &g_items[g_appended].entry) g_order_ok = 0;
  if (g_cur_dest == 0 || v != &g_cur_dest->iov || g_cur_dest->file != g_items[g_appended].file) g_dest_ok = 0;
  if (page_size != g_ps) g_ps_ok = 0;
  g_cur_dest = 0;
  __CPROVER_assume(g_appended < (1UL << 30)); g_appended++;
#else
  __CPROVER_assume(g_appends < 1000); g_appends++; g_app_entry = e; g_app_vec = v; g_app_ps = page_size;
  g_isz = g_in;          /* the list (empty before) now holds the entry's g_in scatter elements */
#endif
}
#define IOV_AT(p) (__CPROVER_same_object(p, g_iov) && __CPROVER_POINTER_OFFSET(p) % sizeof(struct iovec) == 0 && __CPROVER_POINTER_OFFSET(p) / sizeof(struct iovec) == g_wr)
//@loop AsyncFileAppender_write_use_plain_writev 1
//@  VF_REBASE(@l3:iter@, g_iov)
//@  __CPROVER_assigns(@l3:iter@, g_psz, g_fval, g_wr, g_bad_fd)
//@  __CPROVER_loop_invariant(g_isz == g_in && g_wr <= g_in && g_psz == g_wr && g_bad_fd == 0 && IOV_AT(@l3:iter@))
//@  __CPROVER_loop_invariant(g_f < g_wr ==> g_fval == g_iov[g_f].iov_base)
//@  __CPROVER_decreases(g_in - g_wr)
//@end
//@loop AsyncFileAppender_write_use_plain_writev 2
//@  __CPROVER_assigns(@l6:i@, g_psz, g_fval)
//@  __CPROVER_loop_invariant(0 <= @l6:i@ && @l6:i@ <= @l5:size@ && g_psz == g_wr + (size_t)@l6:i@)
//@  __CPROVER_loop_invariant(g_f < g_wr + (size_t)@l6:i@ ==> g_fval == g_iov[g_f].iov_base)
//@  __CPROVER_decreases(@l5:size@ - @l6:i@)
//@end

/* discard(entry): the entry's scatter list is built once with the allocator's page size, every element's base is handed back to
 * the allocator in ONE deallocate call (element k as page k), nothing is written, and both static buffers are empty again */
void AsyncFileAppender_discard(App_t *self, struct LogEntry *entry)
__CPROVER_requires(__CPROVER_is_fresh(self, sizeof(*self)) && __CPROVER_is_fresh(entry, sizeof(*entry)) && __CPROVER_is_fresh(self->_page_allocator, 8))
__CPROVER_requires(g_isz == 0 && g_psz == 0 && g_in < (1UL << 32) && g_wr == 0 && g_dcalls == 0 && g_appends == 0)   /* static buffers empty between calls (ensures below) */
__CPROVER_assigns(g_isz, g_psz, g_fval, g_dcalls, g_dn, g_dfval, g_dptr, g_appends, g_app_entry, g_app_vec, g_app_ps)
__CPROVER_ensures(g_appends == 1 && g_app_entry == entry && g_app_ps == g_ps && g_app_vec == &AsyncFileAppender_discard__static_iov)
__CPROVER_ensures(g_dcalls == 1 && g_dn == g_in && g_dptr == g_pdata && (g_f < g_in ==> g_dfval == g_iov[g_f].iov_base))
__CPROVER_ensures(g_isz == 0 && g_psz == 0 && g_wr == 0)
;
//@loop AsyncFileAppender_discard 1
//@  VF_REBASE(__begin1, g_iov)
//@  __CPROVER_assigns(__begin1, g_psz, g_fval)
//@  __CPROVER_loop_invariant(g_isz == g_in && g_psz <= g_in && __CPROVER_same_object(__begin1, g_iov) && __CPROVER_POINTER_OFFSET(__begin1) % sizeof(struct iovec) == 0 && __CPROVER_POINTER_OFFSET(__begin1) / sizeof(struct iovec) == g_psz)
//@  __CPROVER_loop_invariant(__CPROVER_same_object(__end1, g_iov) && __CPROVER_POINTER_OFFSET(__end1) == g_in * sizeof(struct iovec))
//@  __CPROVER_loop_invariant(g_f < g_psz ==> g_fval == g_iov[g_f].iov_base)
//@  __CPROVER_decreases(g_in - g_psz)
//@end

/* destination(file): the per-file list.  A file that is registered (index() != SIZE_MAX) gets the entry at its index -- the
 * registry invariant "dests[file->index()].file == file" is what the registration branch establishes: a new file is given the
 * index of the entry appended for it, that entry names the file and starts with an empty list */
size_t FileObject_index(struct FileObject *f) { __CPROVER_assert(f == g_file, "C20 appender: index of the file being looked up"); return g_fidx; }
void FileObject_set_index(struct FileObject *f, unsigned long i) { __CPROVER_assert(f == g_file, "C20 appender: only the looked-up file is (re)indexed"); g_set_index_calls++; g_set_index_val = i; }
unsigned long std_vector_L_AsyncFileAppender_Destination_R_size(struct std_vector_L_AsyncFileAppender_Destination_R *v) { return g_dsz; }
Dest_t *std_vector_L_AsyncFileAppender_Destination_R_op_index(struct std_vector_L_AsyncFileAppender_Destination_R *v, unsigned long i) {
  __CPROVER_assert(i < g_dsz, "K4 C20 appender: destination index inside the registry");
  __CPROVER_assume(g_dests[i].file == g_file);        /* registry invariant for the file whose index this is */
  return &g_dests[i];
}
Dest_t *std_vector_L_AsyncFileAppender_Destination_R_emplace_back(struct std_vector_L_AsyncFileAppender_Destination_R *v, Dest_t *d) {
  g_dests[g_dsz].file = d->file; g_dest_emplaced++; g_dsz++; return &g_dests[g_dsz - 1];
}
Dest_t *std_vector_L_AsyncFileAppender_Destination_R_back(struct std_vector_L_AsyncFileAppender_Destination_R *v) { __CPROVER_assert(g_dsz >= 1, "K4 C20 appender: back() of a non-empty registry"); return &g_dests[g_dsz - 1]; }
void IovVec_ctor_0(struct IovVec *v) { g_vec_ctor++; }
void IovVec_dtor(struct IovVec *v) { g_vec_dtor++; }
Dest_t *AsyncFileAppender_destination(App_t *self, struct FileObject *file)
#ifdef VF_ENFORCE_AsyncFileAppender_destination
__CPROVER_requires(__CPROVER_is_fresh(self, sizeof(*self)) && file == g_file && (g_fidx == (size_t)-1 || g_fidx < g_dsz) && g_dsz < (1UL << 20) && g_set_index_calls == 0 && g_dest_emplaced == 0)
__CPROVER_assigns(g_dsz, g_set_index_calls, g_set_index_val, g_dest_emplaced, g_vec_ctor, g_vec_dtor, __CPROVER_object_whole(g_dests))
__CPROVER_ensures(__CPROVER_return_value->file == file)
__CPROVER_ensures(g_fidx != (size_t)-1 ==> (__CPROVER_return_value == &g_dests[g_fidx] && g_dsz == __CPROVER_old(g_dsz) && g_set_index_calls == 0 && g_dest_emplaced == 0))
__CPROVER_ensures(g_fidx == (size_t)-1 ==> (__CPROVER_return_value == &g_dests[__CPROVER_old(g_dsz)] && g_dsz == __CPROVER_old(g_dsz) + 1 && g_set_index_calls == 1
                  && g_set_index_val == __CPROVER_old(g_dsz) && g_dest_emplaced == 1))
#else
/* as used by the pop lambda: some entry of the registry that names the file */
__CPROVER_requires(file == g_items[g_appended].file)
__CPROVER_assigns(g_cur_dest, g_cur_idx, g_dest_calls, __CPROVER_object_whole(g_dests))
__CPROVER_ensures(g_cur_idx <= g_dsz && __CPROVER_pointer_equals(g_cur_dest, &g_dests[g_cur_idx]) && __CPROVER_pointer_equals(__CPROVER_return_value, &g_dests[g_cur_idx])
                  && g_dests[g_cur_idx].file == file && g_dest_calls == __CPROVER_old(g_dest_calls) + 1)
#endif
;

/* the pop lambda: walks the batch [iter, end) the queue hands it.  Every item before the stop marker (entry.size == 0) is appended
 * exactly once, in pop order, to the destination of ITS file with the allocator's page size; the stop marker sets `stop` and ends
 * the walk; nothing after it is touched.  (Queue iterators are ghost positions; the queue's side is C01.) */
#define QPOS(it) ((size_t)(it)._slot)
_Bool ConcurrentBoundedQueue_L_AsyncFileAppender_Item_SchedInterface_R_Iterator_op_lt(QIt_t *a, QIt_t b) { return QPOS(*a) < QPOS(b); }
void ConcurrentBoundedQueue_L_AsyncFileAppender_Item_SchedInterface_R_Iterator_ctor__IteratorR(QIt_t *a, QIt_t *b) { *a = *b; }
QIt_t ConcurrentBoundedQueue_L_AsyncFileAppender_Item_SchedInterface_R_Iterator_op_inc__i32(QIt_t *a, int x) { QIt_t o = *a; a->_slot = (void *)(QPOS(*a) + 1); return o; }
Item_t *ConcurrentBoundedQueue_L_AsyncFileAppender_Item_SchedInterface_R_Iterator_op_star(QIt_t *a) {
  __CPROVER_assert(QPOS(*a) < g_qn, "K4 C20 appender: only items of the batch are read");
  size_t k = QPOS(*a);
  __CPROVER_assume((g_items[k].entry.size == 0) == (k == g_stop_at));      /* where the stop marker sits (g_stop_at >= g_qn: not in this batch) */
  return &g_items[k];
}
void LPOP(PopL_t *c, QIt_t iter, QIt_t end)
__CPROVER_requires(__CPROVER_is_fresh(c, sizeof(*c)) && __CPROVER_is_fresh(c->VF_CAP_lambda_async_file_appender_keep_writing_1_1, sizeof(_Bool)) && __CPROVER_is_fresh(c->cap_this, sizeof(App_t)) && __CPROVER_is_fresh(c->cap_this->_page_allocator, 8))
__CPROVER_requires(QPOS(iter) == 0 && QPOS(end) == g_qn && g_appended == 0 && g_order_ok && g_dest_ok && g_ps_ok && g_dest_calls == 0 && g_cur_dest == 0)
__CPROVER_assigns(*c->VF_CAP_lambda_async_file_appender_keep_writing_1_1, g_appended, g_order_ok, g_dest_ok, g_ps_ok, g_cur_dest, g_cur_idx, g_dest_calls, __CPROVER_object_whole(g_dests), __CPROVER_object_whole(g_items))
__CPROVER_ensures(g_order_ok && g_dest_ok && g_ps_ok)
__CPROVER_ensures(g_stop_at < g_qn ? (g_appended == g_stop_at && *c->VF_CAP_lambda_async_file_appender_keep_writing_1_1) : (g_appended == g_qn && *c->VF_CAP_lambda_async_file_appender_keep_writing_1_1 == __CPROVER_old(*c->VF_CAP_lambda_async_file_appender_keep_writing_1_1)))
__CPROVER_ensures(g_dest_calls == g_appended)
;
//@loop AsyncFileAppender_keep_writing_lambda_async_file_appender_keep_writing_1_op_call 1
//@  __CPROVER_assigns(@p1:iter@, g_appended, g_order_ok, g_dest_ok, g_ps_ok, g_cur_dest, g_cur_idx, g_dest_calls, __CPROVER_object_whole(g_dests), __CPROVER_object_whole(g_items))
//@  __CPROVER_loop_invariant(QPOS(@p1:iter@) == g_appended && g_appended <= g_qn && g_appended <= g_stop_at && g_order_ok && g_dest_ok && g_ps_ok && g_dest_calls == g_appended && g_cur_dest == 0 && QPOS(@p2:end@) == g_qn)
//@  __CPROVER_loop_invariant(*self->VF_CAP_lambda_async_file_appender_keep_writing_1_1 == __CPROVER_loop_entry(*self->VF_CAP_lambda_async_file_appender_keep_writing_1_1))
//@  __CPROVER_decreases(g_qn - g_appended)
//@end

/* keep_writing (the writer thread): rounds of "pop a batch, then visit every destination".  Obligations:
 *   - after every pop, EVERY destination of the registry is visited once: its file is asked for its descriptor pair, a returned
 *     old descriptor (>= 0) is closed exactly once, and a non-empty list is written (write_use_plain_writev, against its contract)
 *     on the descriptor just obtained for that very file -- so nothing popped stays unwritten when the round ends;
 *   - the loop is left only after a round whose batch contained the stop marker (close()), and that round's lists are written too.
 * The pop itself is the queue's (C01); its callback is the lambda above (its contract is used here). */
#ifdef VF_KEEP_WRITING
size_t ConcurrentBoundedQueue_L_AsyncFileAppender_Item_SchedInterface_R_capacity(struct ConcurrentBoundedQueue_L_AsyncFileAppender_Item_SchedInterface_R *q) { return g_cap; }
size_t ConcurrentBoundedQueue_L_AsyncFileAppender_Item_SchedInterface_R_try_pop_n__0_0_lambda_async_file_appender_keep_writing_1_void(struct ConcurrentBoundedQueue_L_AsyncFileAppender_Item_SchedInterface_R *q, PopL_t *cb, unsigned long batch) {
  __CPROVER_assert(g_isz == 0, "C20 appender: every non-empty destination list was written before the next batch is popped");
  __CPROVER_assert(g_rounds == 0 || g_round_complete, "C20 appender: every destination was visited after the previous batch");
  __CPROVER_assert(!g_stop_seen, "C20 appender: nothing is popped after the stop marker");
  __CPROVER_assume(g_rounds < 1000000); g_rounds++; g_round_complete = 0;
  /* the batch: g_qn <= batch items, stop marker at g_stop_at (>= g_qn: none) */
  g_qn = nondet_u64(); __CPROVER_assume(g_qn <= batch && g_qn <= g_items_cap); g_stop_at = nondet_u64(); g_appended = 0; g_dest_calls = 0; g_cur_dest = 0; g_order_ok = g_dest_ok = g_ps_ok = 1;
  QIt_t b, e; b._slot = (void *)0; e._slot = (void *)g_qn;
  LPOP(cb, b, e);
  if (g_stop_at < g_qn) g_stop_seen = 1;
  return g_qn;
}
Dest_t *std_vector_L_AsyncFileAppender_Destination_R_begin(struct std_vector_L_AsyncFileAppender_Destination_R *v) {
  g_round_dsz = nondet_u64(); __CPROVER_assume(g_round_dsz <= g_dsz); g_chk = 0; g_round_complete = (g_round_dsz == 0); return g_dests;      /* the registry as it is after this round's pop */
}
Dest_t *std_vector_L_AsyncFileAppender_Destination_R_end(struct std_vector_L_AsyncFileAppender_Destination_R *v) { return g_dests + g_round_dsz; }
struct std_tuple_L_int_int_R FileObject_check_and_get_file_descriptor(struct FileObject *f) {
  struct std_tuple_L_int_int_R r; r.e0 = nondet_int(); r.e1 = nondet_int();
  __CPROVER_assert(g_chk < g_round_dsz && f == g_dests[g_chk].file, "C20 appender: destination k's own file is asked for its descriptors, once per round");
  __CPROVER_assert(g_last_old < 0, "C20 appender: a returned old descriptor is closed before the next file is asked");
  __CPROVER_assert(g_isz == 0, "C20 appender: a non-empty destination list is written before the next destination is visited");
  g_last_fd = r.e0; g_last_old = r.e1; g_last_file = f; if (r.e1 >= 0) { __CPROVER_assume(g_oldfds < 1000000); g_oldfds++; }
  if (nondet_int() & 1) {
    /* this destination's list is non-empty (g_in elements): fresh bookkeeping for write_use_plain_writev's contract, which must be
       given this destination and the descriptor returned here; whether the code looks at the list or not, it must be written */
    g_in = nondet_u64(); __CPROVER_assume(g_in >= 1 && g_in <= g_iov_cap); g_isz = g_in; g_wr = 0; g_dcalls = 0; g_bad_fd = 0; g_psz = 0; g_fd = r.e0; g_wdest = &g_dests[g_chk];
  }
  g_chk++; if (g_chk == g_round_dsz) g_round_complete = 1;
  return r;
}
int vf_close(int fd) { __CPROVER_assert(fd >= 0 && fd == g_last_old, "C20 appender: only the old descriptor just returned is closed, once"); g_last_old = -1; g_closes++; return 0; }
int vf_usleep(unsigned us) { return 0; }
_Bool IovVec_empty(struct IovVec *v) {
  __CPROVER_assert(g_chk >= 1 && v == &g_dests[g_chk - 1].iov, "C20 appender: the list examined is the one of the destination just asked");
  return g_isz == 0;
}
#endif
void AsyncFileAppender_keep_writing(App_t *self)
__CPROVER_requires(__CPROVER_is_fresh(self, sizeof(*self)) && __CPROVER_is_fresh(self->_page_allocator, 8) && g_isz == 0 && g_rounds == 0 && !g_stop_seen && g_closes == 0 && g_oldfds == 0 && g_last_old == -1 && self->_backoff_us <= 100000)
__CPROVER_assigns(self->_backoff_us, g_rounds, g_stop_seen, g_chk, g_closes, g_oldfds, g_last_fd, g_last_old, g_last_file, g_round_dsz, g_round_complete, g_qn, g_stop_at, g_appended, g_dest_calls, g_cur_dest, g_cur_idx,
                  g_order_ok, g_dest_ok, g_ps_ok, g_in, g_isz, g_wr, g_dcalls, g_bad_fd, g_psz, g_fd, g_wdest, g_fval, g_dn, g_dfval, g_dptr, __CPROVER_object_whole(g_dests), __CPROVER_object_whole(g_items))
__CPROVER_ensures(g_stop_seen && g_rounds >= 1)                                   /* left only after the stop marker */
__CPROVER_ensures(g_isz == 0 && (g_round_dsz == 0 || g_round_complete))           /* the last round's lists are written, every destination visited */
__CPROVER_ensures(g_closes == g_oldfds && g_last_old < 0)                          /* every old descriptor closed exactly once */
;
#define DEST_AT(p, k) (__CPROVER_same_object(p, g_dests) && __CPROVER_POINTER_OFFSET(p) % sizeof(Dest_t) == 0 && __CPROVER_POINTER_OFFSET(p) / sizeof(Dest_t) == (k))
//@loop AsyncFileAppender_keep_writing 1
//@  __CPROVER_assigns(@l1:stop@, self->_backoff_us, g_rounds, g_stop_seen, g_chk, g_closes, g_oldfds, g_last_fd, g_last_old, g_last_file, g_round_dsz, g_round_complete, g_qn, g_stop_at, g_appended, g_dest_calls, g_cur_dest, g_cur_idx, g_order_ok, g_dest_ok, g_ps_ok, g_in, g_isz, g_wr, g_dcalls, g_bad_fd, g_psz, g_fd, g_wdest, g_fval, g_dn, g_dfval, g_dptr, __CPROVER_object_whole(g_dests), __CPROVER_object_whole(g_items))
//@  __CPROVER_loop_invariant(!@l1:stop@ && !g_stop_seen && g_isz == 0 && (g_rounds == 0 || g_round_complete) && g_closes == g_oldfds && g_last_old < 0)
//@end
//@loop AsyncFileAppender_keep_writing 2
//@  VF_REBASE(__begin2, g_dests)
//@  __CPROVER_assigns(__begin2, g_chk, g_closes, g_oldfds, g_last_fd, g_last_old, g_last_file, g_round_complete, g_in, g_isz, g_wr, g_dcalls, g_bad_fd, g_psz, g_fd, g_wdest, g_fval, g_dn, g_dfval, g_dptr)
//@  __CPROVER_loop_invariant(g_chk <= g_round_dsz && g_round_dsz <= g_dsz && DEST_AT(__begin2, g_chk) && DEST_AT(__end2, g_round_dsz) && g_isz == 0 && g_last_old < 0 && g_closes == g_oldfds && g_round_complete == (g_chk == g_round_dsz))
//@  __CPROVER_decreases(g_round_dsz - g_chk)
//@end
#endif
