/* C20 (second sentence) -- AsyncFileAppender: what the writer thread does with the scatter lists it collected.
 *
 * write_use_plain_writev(dest, fd): every element of dest.iov is handed to writev exactly once, in list order, in calls of at
 *   most IOV_MAX elements (a longer call fails with EINVAL and the whole batch would be lost), on the descriptor it was given;
 *   every page base of the list is collected and returned to the page allocator by exactly one deallocate call; the list and the
 *   function's static page buffer are empty afterwards.
 * discard(entry): the pages of the entry's scatter list all go back to the allocator by one deallocate call, nothing is written.
 *
 * std::vector<iovec> / std::vector<void*> are outside the babylon AST: they are executable stubs over ghost state (data pointer,
 * length, one watched index g_f whose value is recorded), the same style as C10's task vector.  __gnu_cxx::__normal_iterator is
 * lowered to the pointer it wraps. */
#ifndef C20A_SPEC_H
#define C20A_SPEC_H
#include <stdint.h>
#include <stdlib.h>
unsigned long nondet_u64(void); long nondet_i64(void); int nondet_int(void);
#define VF_IOV_MAX 1024L   /* <limits.h> IOV_MAX == <sys/uio.h> UIO_MAXIOV on Linux */

/* ---- the scatter list (std::vector<iovec>) */
struct iovec *g_iov;      /* typed array of g_in + 1 elements */
size_t g_in;              /* length of the list at entry */
size_t g_isz;             /* current length */
struct iovec *IovVec_begin(struct IovVec *v) { return g_iov; }
struct iovec *IovVec_end(struct IovVec *v) { return g_iov + g_isz; }
void IovVec_clear(struct IovVec *v) { g_isz = 0; }
_Bool IovVec_empty(struct IovVec *v) { return g_isz == 0; }
struct iovec *IovVec_data(struct IovVec *v) { return g_iov; }
size_t IovVec_size(struct IovVec *v) { return g_isz; }
/* ---- the page buffer (std::vector<void*>) */
size_t g_psz, g_f; void *g_fval; void **g_pdata;
void **PtrVec_emplace_back(struct PtrVec *v, void *x) {
  if (g_psz == g_f) g_fval = x;
  __CPROVER_assume(g_psz < (1UL << 40)); g_psz++;
  return &g_fval;
}
void PtrVec_push_back(struct PtrVec *v, void **x) { if (g_psz == g_f) g_fval = *x; __CPROVER_assume(g_psz < (1UL << 40)); g_psz++; }
void **PtrVec_data(struct PtrVec *v) { return g_pdata; }
size_t PtrVec_size(struct PtrVec *v) { return g_psz; }
void PtrVec_clear(struct PtrVec *v) { g_psz = 0; }
/* ---- writev: ghost recorder of what reaches the file */
size_t g_wr; int g_fd; unsigned g_bad_fd;
ssize_t vf_writev(int fd, struct iovec *p, int cnt) {
  __CPROVER_assert(cnt >= 1 && (long)cnt <= VF_IOV_MAX, "C20 appender: a writev call carries between 1 and IOV_MAX elements (more is EINVAL: the batch is lost)");
  __CPROVER_assert(g_wr + (size_t)cnt <= g_isz, "C20 appender: writev is given elements of the list only");
  __CPROVER_assert(p == g_iov + g_wr, "C20 appender: writev continues exactly where the previous call stopped (each element once, in order)");
  if (fd != g_fd) g_bad_fd++;
  g_wr += (size_t)cnt;
  return nondet_i64();
}
/* ---- page allocator: ghost recorder of what is returned */
unsigned g_dcalls; size_t g_dn; void *g_dfval; void **g_dptr;
void PageAllocator_deallocate__voidPP_u64(struct PageAllocator *self, void **pages, unsigned long num) {
  __CPROVER_assume(g_dcalls < 1000); g_dcalls++; g_dn = num; g_dfval = g_fval; g_dptr = pages;
}

static void vf_havoc_ghosts(void) {
  g_in = nondet_u64(); __CPROVER_assume(g_in < (1UL << 32));
  g_iov = malloc((g_in + 1) * sizeof(struct iovec)); __CPROVER_assume(g_iov != 0);
  g_isz = g_in; g_psz = 0; g_f = nondet_u64(); g_fval = 0; g_pdata = malloc(8); __CPROVER_assume(g_pdata != 0);
  g_wr = 0; g_fd = nondet_int(); g_bad_fd = 0; g_dcalls = 0; g_dn = nondet_u64(); g_dfval = 0; g_dptr = 0;
}

void AsyncFileAppender_write_use_plain_writev(struct AsyncFileAppender *self, struct AsyncFileAppender_Destination *dest, int fd)
__CPROVER_requires(__CPROVER_is_fresh(self, sizeof(*self)) && __CPROVER_is_fresh(dest, sizeof(*dest)) && __CPROVER_is_fresh(self->_page_allocator, 8))
__CPROVER_requires(g_isz == g_in && g_in < (1UL << 32) && g_wr == 0 && fd == g_fd && g_bad_fd == 0 && g_dcalls == 0)
__CPROVER_requires(g_psz == 0)   /* the function-local static buffer is empty between calls: it is cleared on every exit (ensures below) */
__CPROVER_assigns(g_isz, g_psz, g_fval, g_wr, g_bad_fd, g_dcalls, g_dn, g_dfval, g_dptr)
__CPROVER_ensures(g_wr == g_in && g_bad_fd == 0)                       /* everything written, once, in order, to the given descriptor */
__CPROVER_ensures(g_dcalls == 1 && g_dn == g_in && g_dptr == g_pdata)  /* one deallocate of exactly as many pages as list elements */
__CPROVER_ensures(g_f < g_in ==> g_dfval == g_iov[g_f].iov_base)       /* and page k of that call is the base of element k, for every k */
__CPROVER_ensures(g_isz == 0 && g_psz == 0)
;
#define IOV_AT(p) (__CPROVER_same_object(p, g_iov) && __CPROVER_POINTER_OFFSET(p) % sizeof(struct iovec) == 0 && __CPROVER_POINTER_OFFSET(p) / sizeof(struct iovec) == g_wr)
//@loop AsyncFileAppender_write_use_plain_writev 1
//@  VF_REBASE(iter, g_iov)
//@  __CPROVER_assigns(iter, g_psz, g_fval, g_wr, g_bad_fd)
//@  __CPROVER_loop_invariant(g_isz == g_in && g_wr <= g_in && g_psz == g_wr && g_bad_fd == 0 && IOV_AT(iter))
//@  __CPROVER_loop_invariant(g_f < g_wr ==> g_fval == g_iov[g_f].iov_base)
//@  __CPROVER_decreases(g_in - g_wr)
//@end
//@loop AsyncFileAppender_write_use_plain_writev 2
//@  __CPROVER_assigns(i, g_psz, g_fval)
//@  __CPROVER_loop_invariant(0 <= i && i <= size && g_psz == g_wr + (size_t)i)
//@  __CPROVER_loop_invariant(g_f < g_wr + (size_t)i ==> g_fval == g_iov[g_f].iov_base)
//@  __CPROVER_decreases(size - i)
//@end
#endif
