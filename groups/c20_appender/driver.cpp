// driver TU for C20 (second half): AsyncFileAppender hand-off to the writer thread, defined in async_file_appender.cpp
#include "babylon/logging/async_file_appender.cpp"
