A = 'babylon::AsyncFileAppender'
IOV = 'std::vector<iovec>'
PV = 'std::vector<void*>'
DV = 'std::vector<babylon::AsyncFileAppender::Destination>'
import re
def _std_hook(fe, rd, name, args, e):
    # std::get<I>(tuple<int,int>&): member access on the two-int struct the group declares for the tuple
    if name == 'get' and len(args) == 1:
        m = re.search(r'tuple_element(?:_t)?<(\d+)', rd.get('type', {}).get('qualType', ''))
        if m:
            return '(%s.e%s)' % (fe.expr(args[0]), m.group(1))
    return None
GROUP = dict(
    std_call_hook=_std_hook,
    extra_structs={'std::tuple<int,int>': 'struct @ { int e1; int e0; };'},
    trivial_copy=['std::tuple<int,int>'],
    prop='C20',
    driver='driver.cpp',
    spec='spec.h',
    aliases=[(IOV, 'IovVec'), (PV, 'PtrVec'), ('babylon::', '')],
    outside_methods={IOV: ['begin', 'end', 'clear', 'empty', 'data', 'size'], PV: ['emplace_back', 'push_back', 'data', 'size', 'clear'], DV: ['operator[]', 'size', 'emplace_back', 'back', 'begin', 'end']},
    opaque_by_value=[IOV, PV, 'std::thread', DV],
    outside_funcs={'writev': 'vf_writev', 'close': 'vf_close', 'usleep': 'vf_usleep'},
    extern_re=[r'ConcurrentBoundedQueue<.*>::', r'LogEntry::append_to_iovec', r'FileObject::'],
    roots=[A + '::write_use_plain_writev', A + '::discard', A + '::destination', {'lambda_in': A + '::keep_writing', 'ordinal': 1}, A + '::keep_writing'],
    reviewed_compiler_conditionals=[],
    assumptions=['std::vector<iovec>, std::vector<void*>, std::vector<Destination> are executable ghost stubs (data pointer, length, one watched index); writev / close / deallocate / check_and_get_file_descriptor are ghost recorders with arbitrary results',
                 'the queue (try_pop_n hands its callback one contiguous batch, in pop order, each item once) is C01; queue iterators are ghost positions',
                 'LogEntry::append_to_iovec appends the scatter list of one entry (C20 reader jobs)', 'function-local static buffers are empty at entry (every exit leaves them empty: postcondition)'],
    jobs=[
        dict(id='C20.appender.keep_writing', enforce='AsyncFileAppender_keep_writing', replace=['AsyncFileAppender_write_use_plain_writev', 'AsyncFileAppender_keep_writing_lambda_async_file_appender_keep_writing_1_op_call'],
             loops=True, backend='cadical', defines=['VF_KEEP_WRITING 1', 'VF_POP_LAMBDA 1'], timeout=900, object_bits=10, covers=['g_rounds >= 2 && g_closes >= 1 && g_round_dsz >= 2']),
        dict(id='C20.appender.discard', enforce='AsyncFileAppender_discard', loops=True, backend='cadical', timeout=600, covers=['g_in > 2000 && g_f < g_in && g_f > 1000']),
        dict(id='C20.appender.destination', enforce='AsyncFileAppender_destination', backend='cadical', covers=['g_fidx == (size_t)-1 && g_dsz > 5', 'g_fidx != (size_t)-1 && g_fidx > 3']),
        dict(id='C20.appender.pop', enforce='AsyncFileAppender_keep_writing_lambda_async_file_appender_keep_writing_1_op_call', replace=['AsyncFileAppender_destination'], loops=True, backend='cadical', defines=['VF_POP_LAMBDA 1'], covers=['g_qn > 1000 && g_stop_at < g_qn && g_stop_at > 500', 'g_qn > 1000 && g_stop_at >= g_qn']),
        dict(id='C20.appender.writev', enforce='AsyncFileAppender_write_use_plain_writev', loops=True, backend='cadical', refute_unwind=1030, covers=['g_in > 3000 && g_f < g_in && g_f > 2000']),
    ],
)
