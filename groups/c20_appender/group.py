A = 'babylon::AsyncFileAppender'
IOV = 'std::vector<iovec>'
PV = 'std::vector<void*>'
DV = 'std::vector<babylon::AsyncFileAppender::Destination>'
GROUP = dict(
    prop='C20',
    driver='driver.cpp',
    spec='spec.h',
    aliases=[(IOV, 'IovVec'), (PV, 'PtrVec'), ('babylon::', '')],
    outside_methods={IOV: ['begin', 'end', 'clear', 'empty', 'data', 'size'], PV: ['emplace_back', 'push_back', 'data', 'size', 'clear']},
    opaque_by_value=[IOV, PV, 'std::thread', DV],
    outside_funcs={'writev': 'vf_writev'},
    roots=[A + '::write_use_plain_writev'],
    reviewed_compiler_conditionals=[],
    assumptions=[],
    jobs=[
        dict(id='C20.appender.writev', enforce='AsyncFileAppender_write_use_plain_writev', loops=True, backend='cadical', refute_unwind=1030),
    ],
)
