/* C11 (partial) -- varint size prediction and unknown-field skipping */
#ifndef C11_SPEC_H
#define C11_SPEC_H
/* number of 7-bit groups needed for v (at least 1): the length of protobuf's varint encoding */
static inline unsigned long spec_varint_len(unsigned long v) {
  return v < (1UL << 7) ? 1 : v < (1UL << 14) ? 2 : v < (1UL << 21) ? 3 : v < (1UL << 28) ? 4 : v < (1UL << 35) ? 5 :
         v < (1UL << 42) ? 6 : v < (1UL << 49) ? 7 : v < (1UL << 56) ? 8 : v < (1UL << 63) ? 9 : 10;
}
size_t SerializationHelper_varint_size(unsigned long value)
__CPROVER_assigns()
__CPROVER_ensures(__CPROVER_return_value == spec_varint_len(value))   /* K1: predicted size == bytes a varint writer produces, all 2^64 values */
;

/* ghost byte cursor of the coded input stream */
unsigned long g_consumed;
unsigned long g_last_varint;
_Bool g_skip_negative;
unsigned long nondet_u64(void);
static void vf_havoc_ghosts(void) { g_consumed = nondet_u64(); g_skip_negative = 0; }

_Bool CodedInputStream_ReadVarint64(struct CodedInputStream *self, unsigned long *value)
__CPROVER_requires(__CPROVER_w_ok(value, sizeof(*value)))
__CPROVER_assigns(*value, g_consumed, g_last_varint)
__CPROVER_ensures(__CPROVER_return_value ? (g_consumed == __CPROVER_old(g_consumed) + spec_varint_len(*value) && g_last_varint == *value)
                                         : g_consumed >= __CPROVER_old(g_consumed))
;
_Bool CodedInputStream_Skip(struct CodedInputStream *self, int count)
__CPROVER_assigns(g_consumed, g_skip_negative)
__CPROVER_ensures(count < 0 ? (!__CPROVER_return_value && g_skip_negative && g_consumed == __CPROVER_old(g_consumed))
                            : ((g_skip_negative == __CPROVER_old(g_skip_negative)) &&
                               (__CPROVER_return_value ? g_consumed == __CPROVER_old(g_consumed) + (unsigned long)count : g_consumed >= __CPROVER_old(g_consumed))))
;

/* consume_unknown_field(tag, is): exactly one field of wire type 0/1/2/5 is consumed, 3/4/6/7 are rejected untouched */
_Bool SerializationHelper_consume_unknown_field(unsigned int tag, struct CodedInputStream *is)
__CPROVER_requires(g_consumed <= (1UL << 62) && !g_skip_negative)
__CPROVER_assigns(g_consumed, g_last_varint, g_skip_negative)
__CPROVER_ensures(((tag & 7) == 3 || (tag & 7) == 4 || (tag & 7) == 6 || (tag & 7) == 7) ==> (!__CPROVER_return_value && g_consumed == __CPROVER_old(g_consumed)))
__CPROVER_ensures(((tag & 7) == 0 && __CPROVER_return_value) ==> g_consumed == __CPROVER_old(g_consumed) + spec_varint_len(g_last_varint))
__CPROVER_ensures(((tag & 7) == 1 && __CPROVER_return_value) ==> g_consumed == __CPROVER_old(g_consumed) + 8)
__CPROVER_ensures(((tag & 7) == 5 && __CPROVER_return_value) ==> g_consumed == __CPROVER_old(g_consumed) + 4)
__CPROVER_ensures(((tag & 7) == 2 && __CPROVER_return_value && g_last_varint < (1UL << 31)) ==> g_consumed == __CPROVER_old(g_consumed) + spec_varint_len(g_last_varint) + g_last_varint)
/* a length prefix below 2^31 never reaches Skip as a negative count */
__CPROVER_ensures(((tag & 7) != 2 || g_last_varint < (1UL << 31)) ==> !g_skip_negative)
;
#endif
