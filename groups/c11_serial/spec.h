/* C11 (partial) -- varint size prediction and unknown-field skipping */
#ifndef C11_SPEC_H
#define C11_SPEC_H
/* number of 7-bit groups needed for v (at least 1): the length of protobuf's varint encoding */
static inline unsigned long spec_varint_len(unsigned long v) {
  return v < (1UL << 7) ? 1 : v < (1UL << 14) ? 2 : v < (1UL << 21) ? 3 : v < (1UL << 28) ? 4 : v < (1UL << 35) ? 5 :
         v < (1UL << 42) ? 6 : v < (1UL << 49) ? 7 : v < (1UL << 56) ? 8 : v < (1UL << 63) ? 9 : 10;
}
size_t SerializationHelper_varint_size(unsigned long value)
__CPROVER_assigns()
__CPROVER_ensures(__CPROVER_return_value == spec_varint_len(value))   /* K1: predicted size == bytes a varint writer produces, all 2^64 values */
;

/* ghost byte cursor of the coded input stream */
unsigned long g_consumed;
unsigned long g_last_varint;
_Bool g_skip_negative;
unsigned long nondet_u64(void);
unsigned long g_scalar; unsigned long g_str_len, g_ws_calls; unsigned long g_written; unsigned long g_remaining, g_stream_off, g_str_src_off; _Bool g_str_in_order;
static void vf_havoc_ghosts(void) { g_consumed = nondet_u64(); g_skip_negative = 0; g_written = nondet_u64(); g_remaining = nondet_u64(); g_stream_off = nondet_u64(); g_str_src_off = g_stream_off; g_str_in_order = 1; g_scalar = nondet_u64(); g_str_len = nondet_u64(); g_ws_calls = 0; }

_Bool CodedInputStream_ReadVarint64(struct CodedInputStream *self, unsigned long *value)
__CPROVER_requires(__CPROVER_w_ok(value, sizeof(*value)))
__CPROVER_assigns(*value, g_consumed, g_last_varint)
__CPROVER_ensures(__CPROVER_return_value ? (g_consumed == __CPROVER_old(g_consumed) + spec_varint_len(*value) && g_last_varint == *value)
                                         : g_consumed >= __CPROVER_old(g_consumed))
;
_Bool CodedInputStream_Skip(struct CodedInputStream *self, int count)
__CPROVER_assigns(g_consumed, g_skip_negative, g_remaining, g_stream_off)
__CPROVER_ensures((count >= 0 && (unsigned long)count <= __CPROVER_old(g_remaining)) ==> (__CPROVER_return_value && g_remaining == __CPROVER_old(g_remaining) - (unsigned long)count && g_stream_off == __CPROVER_old(g_stream_off) + (unsigned long)count))
__CPROVER_ensures(count < 0 ? (!__CPROVER_return_value && g_skip_negative && g_consumed == __CPROVER_old(g_consumed))
                            : ((g_skip_negative == __CPROVER_old(g_skip_negative)) &&
                               (__CPROVER_return_value ? g_consumed == __CPROVER_old(g_consumed) + (unsigned long)count : g_consumed >= __CPROVER_old(g_consumed))))
;

/* consume_unknown_field(tag, is): exactly one field of wire type 0/1/2/5 is consumed, 3/4/6/7 are rejected untouched */
_Bool SerializationHelper_consume_unknown_field(unsigned int tag, struct CodedInputStream *is)
__CPROVER_requires(g_consumed <= (1UL << 62) && !g_skip_negative)
__CPROVER_assigns(g_consumed, g_last_varint, g_skip_negative, g_remaining, g_stream_off)
__CPROVER_ensures(((tag & 7) == 3 || (tag & 7) == 4 || (tag & 7) == 6 || (tag & 7) == 7) ==> (!__CPROVER_return_value && g_consumed == __CPROVER_old(g_consumed)))
__CPROVER_ensures(((tag & 7) == 0 && __CPROVER_return_value) ==> g_consumed == __CPROVER_old(g_consumed) + spec_varint_len(g_last_varint))
__CPROVER_ensures(((tag & 7) == 1 && __CPROVER_return_value) ==> g_consumed == __CPROVER_old(g_consumed) + 8)
__CPROVER_ensures(((tag & 7) == 5 && __CPROVER_return_value) ==> g_consumed == __CPROVER_old(g_consumed) + 4)
__CPROVER_ensures(((tag & 7) == 2 && __CPROVER_return_value && g_last_varint < (1UL << 31)) ==> g_consumed == __CPROVER_old(g_consumed) + spec_varint_len(g_last_varint) + g_last_varint)
/* a length prefix below 2^31 never reaches Skip as a negative count */
__CPROVER_ensures(((tag & 7) != 2 || g_last_varint < (1UL << 31)) ==> !g_skip_negative)
;

/* ---- protobuf size / write primitives (trusted library semantics, as spec functions of the value) */
size_t vf_VarintSize64(unsigned long v) { return spec_varint_len(v); }
size_t vf_VarintSize32(unsigned int v) { return spec_varint_len(v); }
size_t vf_VarintSize32SignExtended(int v) { return v < 0 ? 10 : spec_varint_len((unsigned int)v); }
size_t vf_EnumSize(int v) { return vf_VarintSize32SignExtended(v); }
size_t vf_Int32Size(int v) { return vf_VarintSize32SignExtended(v); }
unsigned long g_w_last;
void CodedOutputStream_WriteVarint64(struct CodedOutputStream *os, unsigned long v) { g_written += spec_varint_len(v); g_w_last = v; }

/* enum traits: the predicted size is the number of bytes serialize writes, for every 64-bit enumerator value, and
 * deserialize(serialize(v)) gives v back (ReadVarint64 returns what WriteVarint64 wrote: g_last_varint) */
size_t EnumTraits_calculate_serialized_size(unsigned long *value)
__CPROVER_requires(__CPROVER_is_fresh(value, sizeof(*value)))
__CPROVER_assigns()
__CPROVER_ensures(__CPROVER_return_value == spec_varint_len(*value))
;
void EnumTraits_serialize(unsigned long *value, struct CodedOutputStream *os)
__CPROVER_requires(__CPROVER_is_fresh(value, sizeof(*value)) && g_written < (1UL << 60))
__CPROVER_assigns(g_written, g_w_last)
__CPROVER_ensures(g_written == __CPROVER_old(g_written) + spec_varint_len(*value) && g_w_last == *value)
;
_Bool EnumTraits_deserialize(struct CodedInputStream *is, unsigned long *value)
__CPROVER_requires(__CPROVER_is_fresh(value, sizeof(*value)) && g_consumed < (1UL << 60))
__CPROVER_assigns(*value, g_consumed, g_last_varint)
__CPROVER_ensures(__CPROVER_return_value ==> (*value == g_last_varint && g_consumed == __CPROVER_old(g_consumed) + spec_varint_len(g_last_varint)))
;
/* ---- string traits: deserialize takes every byte up to the current limit, whatever the chunking of the underlying stream */
_Bool CodedInputStream_GetDirectBufferPointer(struct CodedInputStream *is, void **data, int *size) {
  if (g_remaining == 0) return 0;
  unsigned long k = nondet_u64(); __CPROVER_assume(k >= 1 && k <= g_remaining && k < (1UL << 31));   /* the next chunk of the stream */
  *data = (void *)(0x100000UL + g_stream_off); *size = (int)k;
  return 1;
}
#undef VF_SKIP_STUB
void String_clear(struct String *s) { g_str_len = 0; }
struct String *String_append(struct String *s, char *p, unsigned long n) {
  if ((unsigned long)p != 0x100000UL + g_str_len + g_str_src_off) g_str_in_order = 0;     /* bytes must arrive in stream order */
  g_str_len += n; return s;
}
struct String *String_assign(struct String *s, char *p, unsigned long n) {
  if ((unsigned long)p != 0x100000UL + g_str_src_off) g_str_in_order = 0;
  g_str_len = n; return s;
}
unsigned long String_size(struct String *s) { return g_str_len; }
_Bool StringTraits_deserialize(struct CodedInputStream *is, struct String *value)
__CPROVER_requires(g_remaining < (1UL << 40) && g_str_in_order && g_stream_off == g_str_src_off && g_stream_off < (1UL << 40) && g_consumed < (1UL << 40) && !g_skip_negative)
__CPROVER_assigns(g_remaining, g_str_len, g_stream_off, g_str_in_order, g_consumed, g_skip_negative)
__CPROVER_ensures(__CPROVER_return_value && g_remaining == 0 && g_str_len == __CPROVER_old(g_remaining) && g_str_in_order)
;
//@loop StringTraits_deserialize 1
//@  __CPROVER_assigns(@l1:data@, @l2:size@, g_remaining, g_str_len, g_stream_off, g_str_in_order, g_consumed, g_skip_negative)
//@  __CPROVER_loop_invariant(g_str_in_order && g_str_len + g_remaining == __CPROVER_loop_entry(g_remaining) && g_stream_off == g_str_src_off + g_str_len && g_remaining <= __CPROVER_loop_entry(g_remaining))
//@end
size_t StringTraits_calculate_serialized_size(struct String *value)
__CPROVER_assigns()
__CPROVER_ensures(__CPROVER_return_value == g_str_len)
;

/* ---- scalar traits (bool, int8_t, int16_t, int32_t, uint8_t, uint16_t, uint32_t: varint32 of the value converted to uint32_t; int64_t, uint64_t: varint64): for EVERY value of the
 * type the predicted size is the number of bytes serialize writes, serialize writes exactly the converted value, and deserialize of
 * what serialize wrote gives the value back (the conversion round trip T -> unsigned -> T is the identity, incl. negative values,
 * which are written as 32-bit two's complement: 5 bytes, babylon's own encoding) */
extern unsigned long g_scalar;      /* an arbitrary value of the type (as bits): the one a matching serialize call would have written */
void CodedOutputStream_WriteVarint32(struct CodedOutputStream *os, unsigned int v) { g_written += spec_varint_len(v); g_w_last = v; }
_Bool CodedInputStream_ReadVarint32(struct CodedInputStream *self, unsigned int *value)
__CPROVER_requires(__CPROVER_w_ok(value, sizeof(*value)))
__CPROVER_assigns(*value, g_consumed, g_last_varint)
__CPROVER_ensures(__CPROVER_return_value ? (g_consumed == __CPROVER_old(g_consumed) + spec_varint_len(*value) && g_last_varint == *value) : g_consumed >= __CPROVER_old(g_consumed))
;
#define SCALAR_CONTRACTS(NAME, CT, UT) \
size_t NAME##_calculate_serialized_size(CT *value) \
__CPROVER_requires(__CPROVER_is_fresh(value, sizeof(*value))) __CPROVER_assigns() \
__CPROVER_ensures(__CPROVER_return_value == spec_varint_len((UT)*value)); \
void NAME##_serialize(CT *value, struct CodedOutputStream *os) \
__CPROVER_requires(__CPROVER_is_fresh(value, sizeof(*value)) && g_written < (1UL << 60)) __CPROVER_assigns(g_written, g_w_last) \
__CPROVER_ensures(g_written == __CPROVER_old(g_written) + spec_varint_len((UT)*value) && g_w_last == (UT)*value); \
_Bool NAME##_deserialize(struct CodedInputStream *is, CT *value) \
__CPROVER_requires(__CPROVER_is_fresh(value, sizeof(*value)) && g_consumed < (1UL << 60)) __CPROVER_assigns(*value, g_consumed, g_last_varint) \
__CPROVER_ensures(__CPROVER_return_value ==> (*value == (CT)(UT)g_last_varint && g_consumed == __CPROVER_old(g_consumed) + spec_varint_len(g_last_varint))) \
__CPROVER_ensures((__CPROVER_return_value && g_last_varint == (unsigned long)(UT)(CT)g_scalar) ==> *value == (CT)g_scalar) \
__CPROVER_ensures(!__CPROVER_return_value ==> *value == __CPROVER_old(*value));
SCALAR_CONTRACTS(I32Traits, int32_t, unsigned int)
SCALAR_CONTRACTS(I8Traits, int8_t, unsigned int)
SCALAR_CONTRACTS(BTraits, _Bool, unsigned int)
SCALAR_CONTRACTS(I64Traits, int64_t, unsigned long)
SCALAR_CONTRACTS(I16Traits, int16_t, unsigned int)
SCALAR_CONTRACTS(U8Traits, uint8_t, unsigned int)
SCALAR_CONTRACTS(U16Traits, uint16_t, unsigned int)
SCALAR_CONTRACTS(U32Traits, uint32_t, unsigned int)
SCALAR_CONTRACTS(U64Traits, uint64_t, unsigned long)

/* ---- float / double traits: fixed32 / fixed64 of the IEEE bit pattern. Stated over bit patterns, so NaN payloads and -0.0 are covered:
 * serialize writes exactly 4 / 8 bytes carrying the bits of the value, the predicted size is 4 / 8, and deserialize installs exactly the
 * bits read (so deserialize(serialize(v)) is bit-identical to v). EncodeFloat/DecodeFloat (protobuf: bit_cast) are trusted as bit casts. */
static inline unsigned int vf_EncodeFloat(float f) { union { float f; unsigned int u; } x; x.f = f; return x.u; }
static inline float vf_DecodeFloat(unsigned int u) { union { float f; unsigned int u; } x; x.u = u; return x.f; }
static inline unsigned long vf_EncodeDouble(double f) { union { double f; unsigned long u; } x; x.f = f; return x.u; }
static inline double vf_DecodeDouble(unsigned long u) { union { double f; unsigned long u; } x; x.u = u; return x.f; }
void CodedOutputStream_WriteLittleEndian32(struct CodedOutputStream *os, unsigned int v) { g_written += 4; g_w_last = v; }
void CodedOutputStream_WriteLittleEndian64(struct CodedOutputStream *os, unsigned long v) { g_written += 8; g_w_last = v; }
_Bool CodedInputStream_ReadLittleEndian32(struct CodedInputStream *self, unsigned int *value)
__CPROVER_requires(__CPROVER_w_ok(value, sizeof(*value)))
__CPROVER_assigns(*value, g_consumed, g_last_varint)
__CPROVER_ensures(__CPROVER_return_value ? (g_consumed == __CPROVER_old(g_consumed) + 4 && g_last_varint == *value) : g_consumed >= __CPROVER_old(g_consumed))
;
_Bool CodedInputStream_ReadLittleEndian64(struct CodedInputStream *self, unsigned long *value)
__CPROVER_requires(__CPROVER_w_ok(value, sizeof(*value)))
__CPROVER_assigns(*value, g_consumed, g_last_varint)
__CPROVER_ensures(__CPROVER_return_value ? (g_consumed == __CPROVER_old(g_consumed) + 8 && g_last_varint == *value) : g_consumed >= __CPROVER_old(g_consumed))
;
#define FLOAT_CONTRACTS(NAME, CT, UT, ENC, N) \
size_t NAME##_calculate_serialized_size(CT *value) \
__CPROVER_assigns() \
__CPROVER_ensures(__CPROVER_return_value == N); \
void NAME##_serialize(CT *value, struct CodedOutputStream *os) \
__CPROVER_requires(__CPROVER_is_fresh(value, sizeof(*value)) && g_written < (1UL << 60)) __CPROVER_assigns(g_written, g_w_last) \
__CPROVER_ensures(g_written == __CPROVER_old(g_written) + N && g_w_last == ENC(*value)); \
_Bool NAME##_deserialize(struct CodedInputStream *is, CT *value) \
__CPROVER_requires(__CPROVER_is_fresh(value, sizeof(*value)) && g_consumed < (1UL << 60)) __CPROVER_assigns(*value, g_consumed, g_last_varint) \
__CPROVER_ensures(__CPROVER_return_value ==> (ENC(*value) == (UT)g_last_varint && g_consumed == __CPROVER_old(g_consumed) + N)) \
__CPROVER_ensures(!__CPROVER_return_value ==> ENC(*value) == ENC(__CPROVER_old(*value)));
FLOAT_CONTRACTS(F32Traits, float, unsigned int, vf_EncodeFloat, 4)
FLOAT_CONTRACTS(F64Traits, double, unsigned long, vf_EncodeDouble, 8)

/* ---- string serialize: the whole string goes to the stream in one WriteString call, nothing else is written */
struct String *g_ws_arg;
void CodedOutputStream_WriteString(struct CodedOutputStream *os, struct String *s) { g_ws_calls++; g_ws_arg = s; g_written += g_str_len; }
void StringTraits_serialize(struct String *value, struct CodedOutputStream *os)
__CPROVER_requires(g_written < (1UL << 60) && g_str_len < (1UL << 40) && g_ws_calls == 0)
__CPROVER_assigns(g_written, g_ws_calls, g_ws_arg)
__CPROVER_ensures(g_ws_calls == 1 && g_ws_arg == value && g_written == __CPROVER_old(g_written) + g_str_len)
;
/* ---- enum with a signed 32-bit underlying type: written as varint64 of the sign-extended value (negative enumerators take 10 bytes),
 * the predicted size agrees, and deserialize(serialize(v)) == v for every int32 value (truncation undoes the sign extension) */
#define SX32(v) ((unsigned long)(long)(v))
size_t Enum32Traits_calculate_serialized_size(int *value)
__CPROVER_requires(__CPROVER_is_fresh(value, sizeof(*value))) __CPROVER_assigns()
__CPROVER_ensures(__CPROVER_return_value == spec_varint_len(SX32(*value)))
;
void Enum32Traits_serialize(int *value, struct CodedOutputStream *os)
__CPROVER_requires(__CPROVER_is_fresh(value, sizeof(*value)) && g_written < (1UL << 60)) __CPROVER_assigns(g_written, g_w_last)
__CPROVER_ensures(g_written == __CPROVER_old(g_written) + spec_varint_len(SX32(*value)) && g_w_last == SX32(*value))
;
_Bool Enum32Traits_deserialize(struct CodedInputStream *is, int *value)
__CPROVER_requires(__CPROVER_is_fresh(value, sizeof(*value)) && g_consumed < (1UL << 60)) __CPROVER_assigns(*value, g_consumed, g_last_varint)
__CPROVER_ensures(__CPROVER_return_value ==> (*value == (int)g_last_varint && g_consumed == __CPROVER_old(g_consumed) + spec_varint_len(g_last_varint)))
__CPROVER_ensures((__CPROVER_return_value && g_last_varint == SX32((int)g_scalar)) ==> *value == (int)g_scalar)
__CPROVER_ensures(!__CPROVER_return_value ==> *value == __CPROVER_old(*value))
;
#endif
