// driver TU for C11 (partial): wire-format arithmetic of the serialization helper
#include "babylon/serialization/traits.cpp"
namespace babylon_vf {
size_t force(uint64_t v) { return ::babylon::SerializationHelper::varint_size(v); }
}
