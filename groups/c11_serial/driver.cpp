// driver TU for C11 (partial): wire-format arithmetic of the serialization helper
#include "babylon/serialization/traits.cpp"
#include "babylon/serialization/scalar.h"
#include "babylon/serialization/string.h"
namespace babylon_vf {
enum class E64 : uint64_t { A = 1 };
using ET = ::babylon::SerializeTraits<E64>;
using ST = ::babylon::SerializeTraits<::std::string>;
size_t force(uint64_t v) { return ::babylon::SerializationHelper::varint_size(v); }
size_t force2(E64 e, ::std::string& s, ::google::protobuf::io::CodedOutputStream& os, ::google::protobuf::io::CodedInputStream& is) {
  ET::serialize(e, os); ET::deserialize(is, e);
  ST::serialize(s, os); ST::deserialize(is, s);
  return ET::calculate_serialized_size(e) + ST::calculate_serialized_size(s);
}
}
