// driver TU for C11 (partial): wire-format arithmetic of the serialization helper
#include "babylon/serialization/traits.cpp"
#include "babylon/serialization/scalar.h"
#include "babylon/serialization/string.h"
namespace babylon_vf {
enum class E64 : uint64_t { A = 1 };
enum class E32 : int32_t { N = -1, P = 1 };
size_t force3(E32 e, ::google::protobuf::io::CodedOutputStream& os, ::google::protobuf::io::CodedInputStream& is) {
  using T = ::babylon::SerializeTraits<E32>; T::serialize(e, os); T::deserialize(is, e); return T::calculate_serialized_size(e);
}
using ET = ::babylon::SerializeTraits<E64>;
using ST = ::babylon::SerializeTraits<::std::string>;
size_t force(uint64_t v) { return ::babylon::SerializationHelper::varint_size(v); }
size_t force2(E64 e, ::std::string& s, ::google::protobuf::io::CodedOutputStream& os, ::google::protobuf::io::CodedInputStream& is) {
  ET::serialize(e, os); ET::deserialize(is, e);
  ST::serialize(s, os); ST::deserialize(is, s);
  int32_t a = 0; int8_t b = 0; bool c = false; int64_t d = 0;
  ::babylon::SerializeTraits<int32_t>::serialize(a, os); ::babylon::SerializeTraits<int32_t>::deserialize(is, a);
  ::babylon::SerializeTraits<int8_t>::serialize(b, os); ::babylon::SerializeTraits<int8_t>::deserialize(is, b);
  ::babylon::SerializeTraits<bool>::serialize(c, os); ::babylon::SerializeTraits<bool>::deserialize(is, c);
  ::babylon::SerializeTraits<int64_t>::serialize(d, os); ::babylon::SerializeTraits<int64_t>::deserialize(is, d);
  int16_t f = 0; uint8_t g = 0; uint16_t h = 0; uint32_t i = 0; uint64_t j = 0;
  ::babylon::SerializeTraits<int16_t>::serialize(f, os); ::babylon::SerializeTraits<int16_t>::deserialize(is, f);
  ::babylon::SerializeTraits<uint8_t>::serialize(g, os); ::babylon::SerializeTraits<uint8_t>::deserialize(is, g);
  ::babylon::SerializeTraits<uint16_t>::serialize(h, os); ::babylon::SerializeTraits<uint16_t>::deserialize(is, h);
  ::babylon::SerializeTraits<uint32_t>::serialize(i, os); ::babylon::SerializeTraits<uint32_t>::deserialize(is, i);
  ::babylon::SerializeTraits<uint64_t>::serialize(j, os); ::babylon::SerializeTraits<uint64_t>::deserialize(is, j);
  size_t more = ::babylon::SerializeTraits<int16_t>::calculate_serialized_size(f) + ::babylon::SerializeTraits<uint8_t>::calculate_serialized_size(g) + ::babylon::SerializeTraits<uint16_t>::calculate_serialized_size(h)
       + ::babylon::SerializeTraits<uint32_t>::calculate_serialized_size(i) + ::babylon::SerializeTraits<uint64_t>::calculate_serialized_size(j);
  float k = 0; double l = 0;
  ::babylon::SerializeTraits<float>::serialize(k, os); ::babylon::SerializeTraits<float>::deserialize(is, k);
  ::babylon::SerializeTraits<double>::serialize(l, os); ::babylon::SerializeTraits<double>::deserialize(is, l);
  more += ::babylon::SerializeTraits<float>::calculate_serialized_size(k) + ::babylon::SerializeTraits<double>::calculate_serialized_size(l);
  return more + ET::calculate_serialized_size(e) + ST::calculate_serialized_size(s) + ::babylon::SerializeTraits<int32_t>::calculate_serialized_size(a)
       + ::babylon::SerializeTraits<int8_t>::calculate_serialized_size(b) + ::babylon::SerializeTraits<bool>::calculate_serialized_size(c) + ::babylon::SerializeTraits<int64_t>::calculate_serialized_size(d);
}
}
