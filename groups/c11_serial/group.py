H = 'babylon::SerializationHelper::'
ET = 'babylon::SerializeTraits<babylon_vf::E64, void>::'
ST = 'babylon::SerializeTraits<std::basic_string<char>, void>::'
STR = 'std::basic_string<char>'
COS = 'google::protobuf::io::CodedOutputStream'
SC = {'I32': 'int', 'I8': 'signed char', 'B': 'bool', 'I64': 'long'}
GROUP = dict(
    prop='C11',
    driver='driver.cpp',
    spec='spec.h',
    aliases=[('babylon::SerializeTraits<short, void>', 'I16Traits'), ('babylon::SerializeTraits<unsigned char, void>', 'U8Traits'), ('babylon::SerializeTraits<unsigned short, void>', 'U16Traits'), ('babylon::SerializeTraits<unsigned int, void>', 'U32Traits'), ('babylon::SerializeTraits<unsigned long, void>', 'U64Traits'), ('babylon::SerializeTraits<int, void>', 'I32Traits'), ('babylon::SerializeTraits<signed char, void>', 'I8Traits'), ('babylon::SerializeTraits<bool, void>', 'BTraits'), ('babylon::SerializeTraits<long, void>', 'I64Traits'), ('google::protobuf::io::CodedInputStream', 'CodedInputStream'), (COS, 'CodedOutputStream'), ('babylon::SerializeTraits<babylon_vf::E64, void>', 'EnumTraits'), ('babylon::SerializeTraits<std::basic_string<char>, void>', 'StringTraits'), (STR, 'String'), ('babylon_vf::', '')],
    outside_methods={'google::protobuf::io::CodedInputStream': ['ReadVarint64', 'ReadVarint32', 'Skip', 'GetDirectBufferPointer'], COS: ['WriteVarint64', 'WriteVarint32', 'WriteString'], STR: ['clear', 'append', 'assign', 'size']},
    outside_funcs={'VarintSize64': 'vf_VarintSize64', 'VarintSize32': 'vf_VarintSize32', 'EnumSize': 'vf_EnumSize', 'Int32Size': 'vf_Int32Size', 'VarintSize32SignExtended': 'vf_VarintSize32SignExtended'},
    roots=[H + 'varint_size', H + 'consume_unknown_field', ET + 'serialize', ET + 'deserialize', ET + 'calculate_serialized_size', ST + 'serialize', ST + 'deserialize', ST + 'calculate_serialized_size'] + ['babylon::SerializeTraits<%s, void>::%s' % (t, f) for t in ('int', 'signed char', 'bool', 'long', 'short', 'unsigned char', 'unsigned short', 'unsigned int', 'unsigned long') for f in ('serialize', 'deserialize', 'calculate_serialized_size')],
    reviewed_compiler_conditionals=['src/babylon/serialization/traits.hpp:#if !__clang__', 'src/babylon/serialization/traits.hpp:#if !__clang__ && __cplusplus < 201703L'],  # a static constexpr member of BasicSerializeTraits only; not used by the functions under contract
    assumptions=['protobuf CodedInputStream::ReadVarint64/Skip are contract stubs: Skip(count) fails for count < 0 and otherwise consumes exactly count bytes or fails; ReadVarint64 consumes 1..10 bytes or fails',
                 'length prefixes below 2^31 (Skip takes an int; larger prefixes are truncated by the implicit conversion: recorded precondition, not claimed)'],
    jobs=[
        dict(id='C11.scalar.i32.size', enforce='I32Traits_calculate_serialized_size'),
        dict(id='C11.scalar.i32.serialize', enforce='I32Traits_serialize'),
        dict(id='C11.scalar.i32.deserialize', enforce='I32Traits_deserialize', replace=['CodedInputStream_ReadVarint32']),
        dict(id='C11.scalar.i8.size', enforce='I8Traits_calculate_serialized_size'),
        dict(id='C11.scalar.i8.serialize', enforce='I8Traits_serialize'),
        dict(id='C11.scalar.i8.deserialize', enforce='I8Traits_deserialize', replace=['CodedInputStream_ReadVarint32']),
        dict(id='C11.scalar.b.size', enforce='BTraits_calculate_serialized_size'),
        dict(id='C11.scalar.b.serialize', enforce='BTraits_serialize'),
        dict(id='C11.scalar.b.deserialize', enforce='BTraits_deserialize', replace=['CodedInputStream_ReadVarint32']),
        dict(id='C11.scalar.i64.size', enforce='I64Traits_calculate_serialized_size'),
        dict(id='C11.scalar.i64.serialize', enforce='I64Traits_serialize'),
        dict(id='C11.scalar.i64.deserialize', enforce='I64Traits_deserialize', replace=['CodedInputStream_ReadVarint64']),
        dict(id='C11.scalar.i16.size', enforce='I16Traits_calculate_serialized_size'),
        dict(id='C11.scalar.i16.serialize', enforce='I16Traits_serialize'),
        dict(id='C11.scalar.i16.deserialize', enforce='I16Traits_deserialize', replace=['CodedInputStream_ReadVarint32']),
        dict(id='C11.scalar.u8.size', enforce='U8Traits_calculate_serialized_size'),
        dict(id='C11.scalar.u8.serialize', enforce='U8Traits_serialize'),
        dict(id='C11.scalar.u8.deserialize', enforce='U8Traits_deserialize', replace=['CodedInputStream_ReadVarint32']),
        dict(id='C11.scalar.u16.size', enforce='U16Traits_calculate_serialized_size'),
        dict(id='C11.scalar.u16.serialize', enforce='U16Traits_serialize'),
        dict(id='C11.scalar.u16.deserialize', enforce='U16Traits_deserialize', replace=['CodedInputStream_ReadVarint32']),
        dict(id='C11.scalar.u32.size', enforce='U32Traits_calculate_serialized_size'),
        dict(id='C11.scalar.u32.serialize', enforce='U32Traits_serialize'),
        dict(id='C11.scalar.u32.deserialize', enforce='U32Traits_deserialize', replace=['CodedInputStream_ReadVarint32']),
        dict(id='C11.scalar.u64.size', enforce='U64Traits_calculate_serialized_size'),
        dict(id='C11.scalar.u64.serialize', enforce='U64Traits_serialize'),
        dict(id='C11.scalar.u64.deserialize', enforce='U64Traits_deserialize', replace=['CodedInputStream_ReadVarint64']),
        dict(id='C11.varint_size', enforce='SerializationHelper_varint_size'),
        dict(id='C11.enum.size', enforce='EnumTraits_calculate_serialized_size'),
        dict(id='C11.enum.serialize', enforce='EnumTraits_serialize'),
        dict(id='C11.enum.deserialize', enforce='EnumTraits_deserialize', replace=['CodedInputStream_ReadVarint64']),
        dict(id='C11.string.deserialize', enforce='StringTraits_deserialize', replace=['CodedInputStream_Skip'], loops=True),
        dict(id='C11.string.size', enforce='StringTraits_calculate_serialized_size'),
        dict(id='C11.consume_unknown_field', enforce='SerializationHelper_consume_unknown_field', replace=['CodedInputStream_ReadVarint64', 'CodedInputStream_Skip']),
    ],
)
