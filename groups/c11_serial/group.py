H = 'babylon::SerializationHelper::'
GROUP = dict(
    prop='C11',
    driver='driver.cpp',
    spec='spec.h',
    aliases=[('google::protobuf::io::CodedInputStream', 'CodedInputStream')],
    outside_methods={'google::protobuf::io::CodedInputStream': ['ReadVarint64', 'Skip']},
    roots=[H + 'varint_size', H + 'consume_unknown_field'],
    reviewed_compiler_conditionals=['src/babylon/serialization/traits.hpp:#if !__clang__', 'src/babylon/serialization/traits.hpp:#if !__clang__ && __cplusplus < 201703L'],  # a static constexpr member of BasicSerializeTraits only; not used by the functions under contract
    assumptions=['protobuf CodedInputStream::ReadVarint64/Skip are contract stubs: Skip(count) fails for count < 0 and otherwise consumes exactly count bytes or fails; ReadVarint64 consumes 1..10 bytes or fails',
                 'length prefixes below 2^31 (Skip takes an int; larger prefixes are truncated by the implicit conversion: recorded precondition, not claimed)'],
    jobs=[
        dict(id='C11.varint_size', enforce='SerializationHelper_varint_size'),
        dict(id='C11.consume_unknown_field', enforce='SerializationHelper_consume_unknown_field', replace=['CodedInputStream_ReadVarint64', 'CodedInputStream_Skip']),
    ],
)
