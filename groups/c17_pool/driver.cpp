// driver TU for C17 (object pool): ObjectPool<Obj> pop / try_pop / push and its Deleter
#include "babylon/concurrent/object_pool.h"
namespace babylon_vf {
struct Obj { int x; };
using Pool = ::babylon::ObjectPool<Obj>;
size_t force(Pool& pool, ::std::unique_ptr<Obj>&& o) {
  auto a = pool.pop();
  auto b = pool.try_pop();
  a = ::std::move(b);
  pool.push(::std::move(o));
  pool.push(::std::move(a));
  return pool.free_object_number();
}
}
