P = 'babylon::ObjectPool<babylon_vf::Obj>'
Q = 'babylon::ConcurrentBoundedQueue<std::unique_ptr<babylon_vf::Obj>, babylon::SchedInterface>'
UP = 'std::unique_ptr<babylon_vf::Obj>'
UPD = 'std::unique_ptr<babylon_vf::Obj,babylon::ObjectPool<babylon_vf::Obj>::Deleter>'
FC = 'babylon::MoveOnlyFunction<std::unique_ptr<babylon_vf::Obj>()>'
FR = 'babylon::MoveOnlyFunction<void(babylon_vf::Obj&)>'
GROUP = dict(
    prop='C17',
    driver='driver.cpp',
    spec='spec.h',
    aliases=[(Q, 'ObjQ'), (P, 'Pool'), (UPD, 'PooledPtr'), (UP, 'UPtr'), ('babylon_vf::', '')],
    opaque_by_value=[Q, UP, UPD, FC, FR],
    type_aliases={'std::unique_ptr<Obj, Deleter>': UPD, 'std::unique_ptr<Obj,Deleter>': UPD, 'std::unique_ptr<Obj>': UP},
    outside_methods={UP: ['release', 'reset', 'operator*', 'operator=', 'get'], UPD: ['release', 'reset', 'operator=', 'get'],
                     },
    extern_re=[r'ConcurrentBoundedQueue<.*>::(pop_n|push_n|try_pop_n|capacity|size|pop|push|try_pop)', r'MoveOnlyFunction<.*>::operator'],
    roots=[P + '::pop', P + '::try_pop', P + '::push', P + '::Deleter::operator()', P + '::Deleter::operator=', P + '::Deleter::Deleter',
           {'lambda_in': P + '::pop', 'ordinal': 1}, {'lambda_in': P + '::pop', 'ordinal': 2},
           {'lambda_in': P + '::pop', 'ordinal': 3}, {'lambda_in': P + '::try_pop', 'ordinal': 1},
           {'lambda_in': P + '::push', 'sig': 'unique_ptr<babylon_vf::Obj> &&', 'ordinal': 1}, {'lambda_in': P + '::push', 'sig': 'unique_ptr<babylon_vf::Obj> &&', 'ordinal': 2}],
    reviewed_compiler_conditionals=['src/babylon/concurrent/bounded_queue.h:#if !__clang__ && BABYLON_GCC_VERSION < 50000'],
    assumptions=['std::unique_ptr semantics are the stubs in spec.h (trusted library contract); its deleter is moved/run with the real Deleter functions',
                 'ConcurrentBoundedQueue pop/try_pop/pop_n(1)/push/push_n(1) contract stubs (the queue itself: C01); blocking of pop on an empty strict pool is liveness, not decided',
                 'one watched object at a time (ghost-chosen, arbitrary); creator returns a new object; recycler/creator are opaque user callbacks'],
    jobs=[
        dict(id='C17.pool.pop', enforce='Pool_pop', loops=True, backend='cadical'),
        dict(id='C17.pool.try_pop', enforce='Pool_try_pop', loops=True, backend='cadical'),
        dict(id='C17.pool.push', enforce='Pool_push__Obj_RR', loops=True, backend='cadical'),
        dict(id='C17.pool.push_pooled', enforce='Pool_push__Deleter_RR', loops=True, backend='cadical'),
        dict(id='C17.pool.deleter_call', enforce='Pool_Deleter_op_call', loops=True, backend='cadical'),
        dict(id='C17.pool.deleter_move_assign', enforce='Pool_Deleter_op_assign__DeleterR', backend='cadical'),
        dict(id='C17.pool.deleter_move_ctor', enforce='Pool_Deleter_ctor__DeleterR', backend='cadical'),
    ],
)
