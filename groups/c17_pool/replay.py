import os, sys
sys.path.insert(0, os.path.join(os.path.dirname(os.path.abspath(__file__)), '..', '..', 'tools'))
import replaylib
HERE = os.path.dirname(os.path.abspath(__file__))


def replay(job, failed, report, bdir):
    if job['id'] != 'C17.pool.deleter_move_assign':
        report['native_replay'] = 'no staged replay for this obligation'
        return False
    rc, out = replaylib.build_and_run(os.path.join(HERE, 'replay', 'deleter_move_assign.cpp'), os.path.join(bdir, 'replay'), timeout=60)
    report['native_replay'] = {'program': 'groups/c17_pool/replay/deleter_move_assign.cpp', 'exit': rc, 'output': out,
                               'staging': 'counterexample class: any move assignment of ObjectPool::Deleter (the return value is unconstrained: no return statement)'}
    # flowing off the end of a value-returning function is undefined: a wrong reference (exit 1), a crash (negative / 128+n) or a hang (124) all reproduce it
    return rc not in (0, None)
