/* C17 (object pool) -- ObjectPool<Obj>::pop / try_pop / push, ObjectPool::Deleter, with their real lambdas.
 *
 * std::unique_ptr is a contract stub (trusted library semantics: it owns one pointer, release() gives it up, reset()/the destructor
 * run the deleter on the old pointer, move assignment transfers).  Ownership of one arbitrary ghost object g_obj is tracked through
 * every stub: g_owners = number of unique_ptr objects holding it (asserted <= 1 at every acquisition), g_in_queue = it sits in the
 * pool's queue, g_dead = it was deleted (asserted: deleted at most once, and only by its owner).
 * The queue is a contract stub (assumed, C01 decides the queue): pop/try_pop/pop_n(1) hand the callback one slot holding a queued
 * object, push/push_n(1) hand it one empty slot; with a creator the reverse callback of pop_n fills an empty slot (queue empty) and
 * the reverse callback of push_n must empty a full slot (queue full), any number of times. */
#ifndef C17POOL_SPEC_H
#define C17POOL_SPEC_H
#include <stdint.h>
_Bool nondet_bool(void); unsigned long nondet_u64(void);
typedef struct UPtr UPtr_t;
typedef struct std_unique_ptr_L_Obj_Pool_Deleter_R PP_t;
struct pp_model { struct Obj *p; struct Pool_Deleter d; };       /* model layout inside the 16 opaque bytes; only the stubs below look inside */
#define UP(u) (*(struct Obj **)(u))
#define PP(u) ((struct pp_model *)(u))
#define L38 Pool_pop_lambda_object_pool_pop_1_op_call
#define L41 Pool_pop_lambda_object_pool_pop_2_op_call
#define L49 Pool_pop_lambda_object_pool_pop_3_op_call
#define L61 Pool_try_pop_lambda_object_pool_try_pop_1_op_call
#define L76 Pool_push_lambda_object_pool_push_1_op_call
#define L79 Pool_push_lambda_object_pool_push_2_op_call

struct Obj *g_obj;                  /* the watched object (arbitrary, non-null) */
int g_owners; _Bool g_in_queue, g_dead, g_born;
unsigned g_recycled, g_created, g_deleted_any;
_Bool g_has_creator; size_t g_size;
struct ObjQ_Slot g_slot[1];
struct Obj *g_ret_p; struct Pool *g_ret_pool; _Bool g_ret_set;   /* what the returned unique_ptr was move-constructed with */
static void vf_havoc_ghosts(void) {
  g_owners = 0; g_in_queue = nondet_bool(); g_dead = 0; g_born = nondet_bool(); g_recycled = g_created = g_deleted_any = 0;
  g_has_creator = nondet_bool(); g_size = nondet_u64(); g_ret_set = 0; UP(&g_slot[0].value) = 0;
}
#define G_INV (g_obj != 0 && g_owners >= 0 && g_owners <= 1 && (!g_in_queue || (g_owners == 0 && !g_dead && g_born)) && (g_born || (g_owners == 0 && !g_dead)) && (!g_dead || g_owners == 0))

static void own(struct Obj *p) { if (p != 0 && p == g_obj) { __CPROVER_assert(g_owners == 0 && !g_in_queue && !g_dead, "K5 C17.pool an object is owned by one party at a time (not owned twice, not also queued, not already deleted)"); g_owners++; } }
static void disown(struct Obj *p) { if (p != 0 && p == g_obj) g_owners--; }
static void destroy(struct Obj *p) { if (p != 0) { g_deleted_any++; if (p == g_obj) { __CPROVER_assert(!g_dead && !g_in_queue, "K5 C17.pool an object is deleted at most once and never while it is queued"); g_dead = 1; } } }
static struct Obj *from_queue(void) {   /* some object the queue holds */
  struct Obj *x = (struct Obj *)nondet_u64(); __CPROVER_assume(x != 0);
  if (x == g_obj) { __CPROVER_assume(g_in_queue); g_in_queue = 0; }
  return x;
}
static void into_queue(struct Obj *x) { if (x == g_obj) { __CPROVER_assert(g_owners == 1 && !g_dead, "K5 C17.pool only an owned live object enters the queue"); g_owners--; g_in_queue = 1; } }

/* ---- std::unique_ptr<Obj> */
void UPtr_ctor_1(UPtr_t *u, struct Obj *p) { UP(u) = p; own(p); }
void UPtr_dtor(UPtr_t *u) { struct Obj *p = UP(u); if (p) { disown(p); destroy(p); } }
struct Obj *UPtr_release(UPtr_t *u) { struct Obj *p = UP(u); UP(u) = 0; disown(p); return p; }
void UPtr_reset_0args(UPtr_t *u) { struct Obj *p = UP(u); UP(u) = 0; if (p) { disown(p); destroy(p); } }
UPtr_t *UPtr_op_assign(UPtr_t *dst, UPtr_t *src) { struct Obj *p = UP(src); UP(src) = 0; struct Obj *old = UP(dst); UP(dst) = p; if (old) { disown(old); destroy(old); } return dst; }
struct Obj *UPtr_get(UPtr_t *u) { return UP(u); }
struct Obj *std_unique_ptr_L_Obj_Pool_Deleter_R_get(PP_t *r) { return PP(r)->p; }
struct Obj *UPtr_op_star(UPtr_t *u) { __CPROVER_assert(UP(u) != 0, "K5 C17.pool no null unique_ptr is dereferenced"); return UP(u); }
/* ---- std::unique_ptr<Obj, Deleter>: the deleter is moved with the real Deleter(Deleter&&), and run as the real Deleter::operator() */
void std_unique_ptr_L_Obj_Pool_Deleter_R_ctor_2(PP_t *r, struct Obj *p, struct Pool_Deleter *d) { PP(r)->p = p; own(p); Pool_Deleter_ctor__DeleterR(&PP(r)->d, d); }
void std_unique_ptr_L_Obj_Pool_Deleter_R_ctor_1(PP_t *r, PP_t *src) {
  PP(r)->p = PP(src)->p; PP(src)->p = 0; Pool_Deleter_ctor__DeleterR(&PP(r)->d, &PP(src)->d);
  g_ret_p = PP(r)->p; g_ret_pool = PP(r)->d._pool; g_ret_set = 1;
}
void std_unique_ptr_L_Obj_Pool_Deleter_R_dtor(PP_t *r) { struct Obj *p = PP(r)->p; if (p) { disown(p); Pool_Deleter_op_call(&PP(r)->d, p); } }
struct Obj *std_unique_ptr_L_Obj_Pool_Deleter_R_release(PP_t *r) { struct Obj *p = PP(r)->p; PP(r)->p = 0; disown(p); return p; }
void std_unique_ptr_L_Obj_Pool_Deleter_R_reset(PP_t *r, struct Obj *p) { struct Obj *old = PP(r)->p; PP(r)->p = p; own(p); if (old) { disown(old); Pool_Deleter_op_call(&PP(r)->d, old); } }
/* ---- the user callbacks */
_Bool MoveOnlyFunction_L_UPtr_R_op_bool(struct MoveOnlyFunction_L_UPtr_R *f) { return g_has_creator; }
UPtr_t MoveOnlyFunction_L_UPtr_R_op_call(struct MoveOnlyFunction_L_UPtr_R *f) {
  UPtr_t r; struct Obj *x = (struct Obj *)nondet_u64(); __CPROVER_assume(x != 0);
  if (x == g_obj) { __CPROVER_assume(!g_born); g_born = 1; }       /* a creator returns a new object */
  __CPROVER_assume(g_created < 1000000); g_created++;
  UP(&r) = x; own(x); return r;
}
void MoveOnlyFunction_L_void_ObjRef_R_op_call(struct MoveOnlyFunction_L_void_ObjRef_R *f, struct Obj *o) { __CPROVER_assert(o != 0, "K5 C17.pool the recycler gets a live object"); g_recycled++; }
/* ---- the queue */
size_t ObjQ_size(struct ObjQ *q) { return g_size; }
#define IT(b, e) struct ObjQ_Iterator b, e; b._slot = g_slot; e._slot = g_slot + 1
void ObjQ_pop__1_1_0_lambda_object_pool_pop_3_void(struct ObjQ *q, struct lambda_object_pool_pop_3 *cb) {
  UP(&g_slot[0].value) = from_queue(); own(UP(&g_slot[0].value));
  L49(cb, &g_slot[0].value);
  __CPROVER_assert(UP(&g_slot[0].value) == 0, "K5 C17.pool pop takes the object out of its queue slot");
}
_Bool ObjQ_try_pop__1_0_lambda_object_pool_try_pop_1_void(struct ObjQ *q, struct lambda_object_pool_try_pop_1 *cb) {
  if (nondet_bool()) return 0;
  UP(&g_slot[0].value) = from_queue(); own(UP(&g_slot[0].value));
  L61(cb, &g_slot[0].value);
  __CPROVER_assert(UP(&g_slot[0].value) == 0, "K5 C17.pool try_pop takes the object out of its queue slot");
  return 1;
}
void ObjQ_pop_n__lambda_object_pool_pop_1_lambda_object_pool_pop_2(struct ObjQ *q, struct lambda_object_pool_pop_1 *cb, struct lambda_object_pool_pop_2 *rcb, unsigned long num) {
  __CPROVER_assert(num == 1, "C17 model: the pool pops one object at a time");
  while (nondet_bool())       /* queue empty: the reverse callback must put a created object into the slot it is given */
    __CPROVER_assigns(g_slot[0].value, g_owners, g_in_queue, g_born, g_created)
    __CPROVER_loop_invariant(G_INV && g_owners == __CPROVER_loop_entry(g_owners) && UP(&g_slot[0].value) == 0 && g_created >= __CPROVER_loop_entry(g_created))
  {
    IT(b, e);
    L41(rcb, b, e);
    __CPROVER_assert(UP(&g_slot[0].value) != 0, "K5 C17.pool on an empty queue the slot is filled with a created object");
    into_queue(UP(&g_slot[0].value)); UP(&g_slot[0].value) = 0;
  }
  { IT(b, e);
    UP(&g_slot[0].value) = from_queue(); own(UP(&g_slot[0].value));
    L38(cb, b, e);
    __CPROVER_assert(UP(&g_slot[0].value) == 0, "K5 C17.pool pop takes the object out of its queue slot"); }
}
void ObjQ_push__1_0_1_UPtr_0(struct ObjQ *q, UPtr_t *v) { struct Obj *p = UP(v); __CPROVER_assert(p != 0, "K5 C17.pool no null object is queued"); UP(v) = 0; into_queue(p); }
void ObjQ_push_n__lambda_object_pool_push_1_lambda_object_pool_push_2(struct ObjQ *q, struct lambda_object_pool_push_1 *cb, struct lambda_object_pool_push_2 *rcb, unsigned long num) {
  __CPROVER_assert(num == 1, "C17 model: the pool pushes one object at a time");
  while (nondet_bool())       /* queue full: the reverse callback must empty the slot it is given (that object leaves the pool) */
    __CPROVER_assigns(g_slot[0].value, g_owners, g_in_queue, g_dead, g_deleted_any)
    __CPROVER_loop_invariant(G_INV && g_owners == __CPROVER_loop_entry(g_owners) && UP(&g_slot[0].value) == 0 && g_deleted_any >= __CPROVER_loop_entry(g_deleted_any))
  {
    IT(b, e);
    struct Obj *y = from_queue(); UP(&g_slot[0].value) = y; own(y);
    __CPROVER_assume(g_deleted_any < 1000000);
    L79(rcb, b, e);
    __CPROVER_assert(UP(&g_slot[0].value) == 0 && (y != g_obj || g_dead), "K5 C17.pool overflow: the evicted object is destroyed, not leaked");
  }
  { IT(b, e);
    L76(cb, b, e);
    __CPROVER_assert(UP(&g_slot[0].value) != 0, "K5 C17.pool push moves the object into the slot");
    into_queue(UP(&g_slot[0].value)); UP(&g_slot[0].value) = 0; }
}

#define POOL_ASSIGNS g_slot[0].value, g_owners, g_in_queue, g_dead, g_born, g_recycled, g_created, g_deleted_any, g_ret_p, g_ret_pool, g_ret_set

/* pop(): the returned unique_ptr owns exactly one object that came out of the queue, paired with a deleter of this pool; nothing is deleted;
 * without a creator nothing is created (a strict pool never has more than the injected objects) */
PP_t Pool_pop(struct Pool *self)
__CPROVER_requires(__CPROVER_is_fresh(self, sizeof(*self)) && G_INV && g_owners == 0)
__CPROVER_assigns(POOL_ASSIGNS)
__CPROVER_ensures(G_INV && g_ret_set && g_ret_p != 0 && g_ret_pool == self)
__CPROVER_ensures((g_ret_p == g_obj) == (g_owners == 1))
__CPROVER_ensures(!g_dead && g_deleted_any == 0 && (g_has_creator || g_created == 0))
;
PP_t Pool_try_pop(struct Pool *self)
__CPROVER_requires(__CPROVER_is_fresh(self, sizeof(*self)) && G_INV && g_owners == 0)
__CPROVER_assigns(POOL_ASSIGNS)
__CPROVER_ensures(G_INV && g_ret_set && g_ret_pool == self && g_created == 0)
__CPROVER_ensures((g_ret_p != 0 && g_ret_p == g_obj) == (g_owners == 1))
__CPROVER_ensures(!g_dead && g_deleted_any == 0)
;
/* push(unique_ptr&&): the recycler runs exactly once; then either the object went into the queue (the caller's pointer is null),
 * or -- only with a creator and a full pool -- the caller keeps it (and its unique_ptr will delete it) */
void Pool_push__Obj_RR(struct Pool *self, UPtr_t *object)
__CPROVER_requires(__CPROVER_is_fresh(self, sizeof(*self)) && __CPROVER_is_fresh(object, sizeof(*object)) && G_INV && UP(object) != 0)
__CPROVER_requires((UP(object) == g_obj) == (g_owners == 1))
__CPROVER_assigns(POOL_ASSIGNS, object->__opaque)
__CPROVER_ensures(G_INV && g_recycled == 1 && g_created == 0)
__CPROVER_ensures(UP(object) == 0 || (UP(object) == __CPROVER_old(UP(object)) && g_has_creator && self->_capacity <= g_size))
__CPROVER_ensures((__CPROVER_old(UP(object)) == g_obj && UP(object) == 0) ==> (g_in_queue && g_owners == 0 && !g_dead))
__CPROVER_ensures((__CPROVER_old(UP(object)) == g_obj && UP(object) != 0) ==> (!g_in_queue && g_owners == 1 && !g_dead))
;
/* Deleter::operator()(ptr): with a pool the object ends up queued or deleted -- exactly one of the two, once; the recycler ran once */
void Pool_Deleter_op_call(struct Pool_Deleter *self, struct Obj *ptr)
__CPROVER_requires(__CPROVER_is_fresh(self, sizeof(*self)) && (self->_pool == 0 || __CPROVER_is_fresh(self->_pool, sizeof(struct Pool))) && G_INV && ptr != 0 && g_owners == 0 && (ptr != g_obj || (!g_in_queue && !g_dead && g_born)))
__CPROVER_assigns(POOL_ASSIGNS)
__CPROVER_ensures(G_INV && g_owners == 0)
__CPROVER_ensures(self->_pool != 0 ==> g_recycled == 1)
__CPROVER_ensures((self->_pool != 0 && ptr == g_obj) ==> (g_in_queue != g_dead))
__CPROVER_ensures(self->_pool == 0 ==> (g_recycled == 0 && g_deleted_any == 0 && g_in_queue == __CPROVER_old(g_in_queue)))
;
void Pool_push__Deleter_RR(struct Pool *self, PP_t *object)
__CPROVER_requires(__CPROVER_is_fresh(self, sizeof(*self)) && __CPROVER_is_fresh(object, sizeof(*object)) && G_INV && PP(object)->p != 0)
__CPROVER_requires((PP(object)->p == g_obj) == (g_owners == 1))
__CPROVER_assigns(POOL_ASSIGNS, object->__opaque)
__CPROVER_ensures(G_INV && g_owners == 0 && PP(object)->p == 0 && g_recycled == 1)
__CPROVER_ensures(__CPROVER_old(PP(object)->p) == g_obj ==> (g_in_queue != g_dead))
;
/* Deleter move operations keep (pointer, pool) pairs together when a unique_ptr is moved */
struct Pool_Deleter *Pool_Deleter_op_assign__DeleterR(struct Pool_Deleter *self, struct Pool_Deleter *other)
__CPROVER_requires(__CPROVER_is_fresh(self, sizeof(*self)) && __CPROVER_is_fresh(other, sizeof(*other)))
__CPROVER_assigns(self->_pool, other->_pool)
__CPROVER_ensures(__CPROVER_return_value == self)
__CPROVER_ensures(self->_pool == __CPROVER_old(other->_pool) && other->_pool == __CPROVER_old(self->_pool))
;
void Pool_Deleter_ctor__DeleterR(struct Pool_Deleter *self, struct Pool_Deleter *other)
__CPROVER_requires(__CPROVER_is_fresh(self, sizeof(*self)) && __CPROVER_is_fresh(other, sizeof(*other)))
__CPROVER_assigns(self->_pool, other->_pool)
__CPROVER_ensures(self->_pool == __CPROVER_old(other->_pool) && other->_pool == 0)
;
#endif
