// native replay for obligation C17.pool.deleter_move_assign: ObjectPool<T>::Deleter::operator=(Deleter&&) must return *this.
// std::unique_ptr<T, Deleter>::operator=(unique_ptr&&) calls it whenever a pooled pointer is move-assigned.
// exit 1 = the property is violated (wrong reference returned / pool bookkeeping wrong); a crash or hang is reported by the caller too.
#include "babylon/concurrent/object_pool.h"
#include <cstdio>
#include <cstdlib>
#include <unistd.h>
using Pool = ::babylon::ObjectPool<int>;
__attribute__((noinline)) static Pool::Deleter* assign(Pool::Deleter& a, Pool::Deleter&& b) {
  return &(a = ::std::move(b));
}
int main() {
  alarm(20);
  Pool pool;
  pool.reserve_and_clear(4);
  pool.push(::std::unique_ptr<int>(new int(1)));
  pool.push(::std::unique_ptr<int>(new int(2)));
  Pool::Deleter d1 {&pool};
  Pool::Deleter d2 {nullptr};
  Pool::Deleter* r = assign(d1, ::std::move(d2));
  if (r != &d1) {
    printf("VIOLATED: Deleter::operator=(Deleter&&) returned %p, expected %p (*this)\n", (void*)r, (void*)&d1);
    return 1;
  }
  auto a = pool.pop();
  auto b = pool.pop();
  a = ::std::move(b);   // returns object 1 to the pool, a now owns object 2
  a.reset();            // returns object 2
  if (pool.free_object_number() != 2) {
    printf("VIOLATED: %zu objects in the pool after both pooled pointers were released, expected 2\n", pool.free_object_number());
    return 1;
  }
  printf("ok: move assignment of pooled pointers keeps both objects\n");
  return 0;
}
