// driver TU for C03 (fixed table slot protocol): ConcurrentFixedSwissTable<uint64_t, Hash>::do_emplace / find
#include "babylon/concurrent/transient_hash_table.h"
namespace babylon_vf {
struct Hash { size_t operator()(uint64_t) const noexcept; };
using Tab = ::babylon::ConcurrentFixedSwissTable<uint64_t, Hash>;
bool force(Tab& t, uint64_t k) {
  auto r = t.emplace(k);
  return r.second && t.find(k) != t.end() && t.contains(k);
}
}
