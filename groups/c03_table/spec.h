/* C03 (fixed table, slot protocol) -- ConcurrentFixedSwissTable<uint64_t, Hash>::do_emplace / find.
 *
 * A control byte is EMPTY (-128), BUSY (-127) or the 7-bit checker of the key stored in the slot (>= 0); DUMMY (-126) only in the
 * shared placeholder of a default-constructed table.  SC rely/guarantee model for ONE ghost-chosen slot F (arbitrary):
 *   RELY  controls only move EMPTY -> BUSY -> checker and a checker is final; the value of a slot is written only by the thread that
 *         holds it BUSY and is final once its checker is published;
 *   GUAR  (asserted at this thread's own steps) a slot is taken only by CAS EMPTY -> BUSY (acquire); the slot taken is the first
 *         slot with a negative control in the group snapshot that was just searched for the key without success; the value is
 *         constructed exactly once, under the caller's own BUSY; then checker is stored (release) to the control and to its clone;
 *         a key comparison is preceded by an acquire fence.
 * Contract of do_emplace: success => exactly one construction, published, size + 1, iterator at the claimed slot;
 * "already there" => no construction, no control written, the slot returned holds an equal key; "full" (end()) => no construction,
 * no control written (the arguments are not consumed).  Contract of find: a returned slot holds an equal key; a key that is
 * published in slot F, with every group before F's group on the key's probe path full, is found.
 * The SIMD group scan is a contract stub (match / match_empty report exactly the slots of the snapshot whose control equals the
 * checker / is negative), as is the hash function.  Per-key uniqueness across threads follows from these GUARs by the argument
 * in DESIGN (not machine-checked); termination of the quadratic group probing is not decided. */
#ifndef C03_SPEC_H
#define C03_SPEC_H
#include <stdint.h>
#include <stdlib.h>
unsigned long nondet_u64(void); signed char nondet_i8(void); _Bool nondet_bool(void);
typedef struct Tab Tab_t;
#define EMPTY ((signed char)-128)
#define BUSY ((signed char)-127)
#define DUMMY ((signed char)-126)
#define CLONE(i) ((((i) - 15UL) & g_mask) + (15UL & g_mask))
size_t g_mask, g_F;                         /* bucket mask (2^k - 1, k >= 4), focus slot */
int8_t *g_ctl; struct Aligned_L_unsigned_long_128_R *g_vals;
unsigned long g_key, g_hash;                /* the caller's key and its hash */
_Bool g_env_on, g_mine;                     /* g_mine: this thread holds slot F BUSY */
unsigned g_cas_ok, g_constructs, g_pub_stores, g_clone_stores, g_size_adds, g_fences;
size_t g_claimed;                           /* index this thread claimed */
size_t g_snap_base; signed char g_snap_f; _Bool g_snap_in; unsigned long g_empty_mask; _Bool g_have_empty_mask;
size_t g_ret_index; _Bool g_ret_second, g_ret_set;
size_t g_fp, g_probes; _Bool g_published_path;   /* find: F's group is group g_fp of the key's probe sequence and every earlier one is full */
size_t g_k, g_xbase; _Bool g_started;            /* probe sequence: index and start of the group probed last */
#define CHK ((signed char)(g_hash & 127))
static void env_step(void) {
  if (!g_env_on) return;
  signed char cur = g_ctl[g_F], nc = nondet_i8();
  if (cur >= 0 || cur == DUMMY) nc = cur;
  else if (cur == BUSY) __CPROVER_assume(g_mine ? nc == BUSY : (nc == BUSY || nc >= 0));
  else __CPROVER_assume(nc == EMPTY || nc == BUSY || nc >= 0);
  if (cur < 0 && nc >= 0) g_vals[g_F]._object = nondet_u64();          /* another thread published its key there */
  g_ctl[g_F] = nc; if (g_F < 15) g_ctl[CLONE(g_F)] = nc;
}
static void vf_havoc_ghosts(void) {
  size_t bits = nondet_u64(); __CPROVER_assume(bits >= 4 && bits <= 20); g_mask = (1UL << bits) - 1;
  g_ctl = malloc((g_mask + 1 + 16) * sizeof(int8_t)); __CPROVER_assume(g_ctl != 0);
  g_vals = malloc((g_mask + 1) * sizeof(struct Aligned_L_unsigned_long_128_R)); __CPROVER_assume(g_vals != 0);
  g_F = nondet_u64(); __CPROVER_assume(g_F <= g_mask);
  g_key = nondet_u64(); g_hash = nondet_u64(); g_env_on = nondet_bool(); g_mine = 0;
  g_cas_ok = g_constructs = g_pub_stores = g_clone_stores = g_size_adds = g_fences = 0; g_have_empty_mask = 0; g_ret_set = 0;
  g_fp = nondet_u64(); g_probes = 0; g_published_path = nondet_bool(); g_k = 0; g_xbase = 0; g_started = 0;
}
size_t Hash_op_call(struct Hash *h, unsigned long k) { return k == g_key ? g_hash : nondet_u64(); }
int vf_sched_yield(void) { return 0; }
/* ---- SIMD group snapshot (contract stub) */
void Group_ctor__ai8P(struct Group *g, int8_t *controls) {
  env_step();
  __CPROVER_assert(__CPROVER_same_object(controls, g_ctl) && (size_t)(controls - g_ctl) <= g_mask, "K5 C03 a group snapshot starts inside the control array");
  g_snap_base = (size_t)(controls - g_ctl); g_snap_f = g_ctl[g_F]; g_snap_in = ((g_F - g_snap_base) & g_mask) < 16; g_have_empty_mask = 0;
  /* the probe sequence of a key is fixed: group 0 starts at bucket (hash >> 7) & mask, group k+1 starts 16 * (k+1) buckets after
     group k (triangular probing); probing the same group again (a retry after a lost race) is not a step.  Insert and lookup are
     both held to this one sequence, which is what makes a lookup reach the slot an earlier insert chose. */
  if (!g_started) {
    __CPROVER_assert(g_snap_base == ((g_hash >> 7) & g_mask), "K5 C03 AGREE[probe] the first group probed starts at bucket (hash >> 7) & mask");
    g_started = 1; g_k = 0; g_xbase = g_snap_base;
  } else if (g_snap_base != g_xbase) {
    __CPROVER_assert(g_snap_base == ((g_xbase + 16 * (g_k + 1)) & g_mask), "K5 C03 AGREE[probe] group k+1 of the probe sequence starts 16 * (k+1) buckets after group k");
    if (g_k < 1000000) g_k++;
    g_xbase = g_snap_base;
  }
  if (g_published_path && g_k < g_fp) __CPROVER_assume(!g_snap_in);     /* groups before F's group on the probe path */
  if (g_published_path && g_k == g_fp) __CPROVER_assume(g_snap_in);
  if (g_probes < 1000000) g_probes++;
}
struct GroupIterator Group_match(struct Group *g, signed char check) {
  struct GroupIterator it; it._mask = nondet_u64() & 0xFFFF;
  if (g_snap_in) { unsigned long bit = 1UL << ((g_F - g_snap_base) & g_mask); if (g_snap_f == check) it._mask |= bit; else it._mask &= ~bit; }
  return it;
}
struct GroupIterator Group_match_empty(struct Group *g) {
  struct GroupIterator it; it._mask = nondet_u64() & 0xFFFF;
  if (g_snap_in) { unsigned long bit = 1UL << ((g_F - g_snap_base) & g_mask); if (g_snap_f < 0) it._mask |= bit; else it._mask &= ~bit; }
  if (g_published_path && g_k < g_fp) it._mask = 0;      /* RELY: every group up to F's own on the probe path is full (F's group: checked by the caller's contract) */
  g_empty_mask = it._mask; g_have_empty_mask = 1;
  return it;
}
/* ---- this thread's own steps on controls and values */
_Bool vf_atomic_compare_exchange_strong_i8(int8_t *p, signed char *expected, signed char desired, int success, int failure, int site) {
  __CPROVER_assert(*expected == EMPTY && desired == BUSY, "K5 C03.emplace a slot is taken only by CAS EMPTY -> BUSY");
  __CPROVER_assert(success == 2 || success == 4 || success == 5, "K6 C03.emplace the claiming CAS is acquire");
  __CPROVER_assert(g_have_empty_mask && g_empty_mask != 0 && p == g_ctl + ((g_snap_base + (size_t)__builtin_ctzl(g_empty_mask)) & g_mask),
                   "K5 C03.emplace the slot tried is the first negative slot of the group snapshot just searched");
  __CPROVER_assert(g_cas_ok == 0, "K5 C03.emplace at most one slot is claimed per call");
  if (p == g_ctl + g_F) {
    env_step();
    if (g_ctl[g_F] != EMPTY) { *expected = g_ctl[g_F]; return 0; }
    g_ctl[g_F] = BUSY; if (g_F < 15) g_ctl[CLONE(g_F)] = BUSY;     /* (the clone is rewritten by the publisher; modelled together) */
    g_mine = 1; g_cas_ok++; g_claimed = g_F; return 1;
  }
  if (nondet_bool()) { signed char o = nondet_i8(); __CPROVER_assume(o != EMPTY && (o == BUSY || o == DUMMY || o >= 0)); *expected = o; return 0; }
  g_cas_ok++; g_claimed = (size_t)(p - g_ctl); return 1;
}
void UsesAllocatorConstructor_construct__unsigned_long_std_allocator_L_unsigned_long_R_unsigned_longRef_0(unsigned long *ptr, struct std_allocator_L_unsigned_long_R a, unsigned long *arg) {
  __CPROVER_assert(g_cas_ok == 1 && g_constructs == 0 && ptr == &g_vals[g_claimed]._object, "K5 C03.emplace the value is constructed once, in the slot this thread holds BUSY");
  __CPROVER_assert(g_pub_stores == 0, "K5 C03.emplace the value is constructed before the checker is published");
  *ptr = *arg; g_constructs++;
}
void std_allocator_L_unsigned_long_R_ctor_0(struct std_allocator_L_unsigned_long_R *a) { }
void std_allocator_L_unsigned_long_R_dtor(struct std_allocator_L_unsigned_long_R *a) { }
void vf_atomic_store_i8(int8_t *p, signed char v, int order, int site) {
  __CPROVER_assert(order == 3 || order == 5, "K6 C03.emplace the checker is published with release");
  __CPROVER_assert(g_constructs == 1 && v == CHK && v >= 0, "K5 C03.emplace only the checker of the constructed key is published");
  if (site == SITE_Tab_do_emplace_unsigned_longRef_x_control_store_1) {
    __CPROVER_assert(p == g_ctl + g_claimed, "K5 C03.emplace the checker goes to the claimed slot");
    g_pub_stores++;
  } else {
    __CPROVER_assert(p == g_ctl + CLONE(g_claimed), "K5 C03.emplace the clone of the claimed slot's control is kept equal");
    g_clone_stores++;
  }
  *p = v;
}
struct GenericsConcurrentAdder_L_long_R *GenericsConcurrentAdder_L_long_R_op_shl__int(struct GenericsConcurrentAdder_L_long_R *s, int *v) { __CPROVER_assert(*v == 1, "K5 C03.emplace size grows by one"); g_size_adds++; return s; }
void vf_fence(int order, int site) { __CPROVER_assert(order == 2 || order == 4 || order == 5, "K6 C03 the fence before a key comparison is acquire"); if (g_fences < 1000000) g_fences++; }
void std_pair_L_iterator_bool_R_ctor_2(struct std_pair_L_iterator_bool_R *p, struct Tab_Iterator_L_0_R *it, _Bool b) {
  p->first._table = it->_table; p->first._index = it->_index; p->first._mask = it->_iter._mask; p->second = b;
  g_ret_index = it->_index; g_ret_second = b; g_ret_set = 1;
}
/* F's bit in a match mask */
#define T_SHAPE(t) (__CPROVER_is_fresh(t, sizeof(*t)) && (t)->_bucket_mask == g_mask && __CPROVER_pointer_equals((t)->_controls, g_ctl) && __CPROVER_pointer_equals((void *)(t)->_values, (void *)g_vals) \
   && (g_ctl[g_F] == EMPTY || g_ctl[g_F] == BUSY || g_ctl[g_F] >= 0) && (g_F >= 15 || g_ctl[CLONE(g_F)] == g_ctl[g_F]))

struct std_pair_L_iterator_bool_R Tab_do_emplace__unsigned_longRef_x(Tab_t *t, unsigned long *k)
__CPROVER_requires(T_SHAPE(t) && __CPROVER_is_fresh(k, sizeof(*k)) && *k == g_key && !g_published_path && !g_started)
__CPROVER_assigns(__CPROVER_object_whole(g_ctl), __CPROVER_object_whole(g_vals), g_mine, g_cas_ok, g_constructs, g_pub_stores, g_clone_stores, g_size_adds, g_fences, g_claimed,
                  g_snap_base, g_snap_f, g_snap_in, g_empty_mask, g_have_empty_mask, g_ret_index, g_ret_second, g_ret_set, g_probes, g_k, g_xbase, g_started)
__CPROVER_ensures(g_ret_set)
/* inserted: exactly one construction, published to control and clone, size + 1, iterator at the claimed slot */
__CPROVER_ensures(g_ret_second ==> (g_cas_ok == 1 && g_constructs == 1 && g_pub_stores == 1 && g_clone_stores == 1 && g_size_adds == 1 && g_ret_index == g_claimed && g_claimed <= g_mask))
__CPROVER_ensures((g_ret_second && g_claimed == g_F) ==> (g_ctl[g_F] == CHK && g_vals[g_F]._object == g_key && (g_F >= 15 || g_ctl[CLONE(g_F)] == CHK)))
/* not inserted: nothing constructed (arguments not consumed), no control written, size unchanged */
__CPROVER_ensures(!g_ret_second ==> (g_cas_ok == 0 && g_constructs == 0 && g_pub_stores == 0 && g_clone_stores == 0 && g_size_adds == 0 && !g_mine))
/* "already present" is only reported for a slot that holds an equal key, read after an acquire fence */
__CPROVER_ensures((!g_ret_second && g_ret_index <= g_mask) ==> (g_fences >= 1 && (g_ret_index != g_F || (g_vals[g_F]._object == g_key && g_ctl[g_F] == CHK))))
__CPROVER_ensures(g_ret_index <= g_mask + 1)
;
//@loop Tab_do_emplace__unsigned_longRef_x 1
//@  __CPROVER_assigns(@l5:step@, @l4:base_index@, __CPROVER_object_whole(g_ctl), __CPROVER_object_whole(g_vals), g_mine, g_fences, g_snap_base, g_snap_f, g_snap_in, g_empty_mask, g_have_empty_mask, g_probes, g_k, g_xbase, g_started, g_cas_ok, g_constructs, g_pub_stores, g_clone_stores, g_size_adds, g_claimed, g_ret_index, g_ret_second, g_ret_set)
//@  __CPROVER_loop_invariant(g_cas_ok == 0 && g_constructs == 0 && g_pub_stores == 0 && g_clone_stores == 0 && g_size_adds == 0 && !g_mine && !g_ret_set && @l4:base_index@ <= g_mask)
//@  __CPROVER_loop_invariant(!g_started ==> (@l5:step@ == 0 && @l4:base_index@ == ((g_hash >> 7) & g_mask)))
//@  __CPROVER_loop_invariant(g_started ==> (g_k <= g_mask / 16 && g_xbase <= g_mask && ((@l5:step@ == 16 * g_k && @l4:base_index@ == g_xbase) || (@l5:step@ == 16 * (g_k + 1) && @l4:base_index@ == ((g_xbase + @l5:step@) & g_mask)))))
//@  __CPROVER_loop_invariant((g_ctl[g_F] == EMPTY || g_ctl[g_F] == BUSY || g_ctl[g_F] >= 0) && (g_F >= 15 || g_ctl[CLONE(g_F)] == g_ctl[g_F]))
//@end
//@loop Tab_do_emplace__unsigned_longRef_x 2
//@  __CPROVER_assigns(@l8:iter@, g_fences)
//@  __CPROVER_loop_invariant(@l8:iter@._mask <= 0xFFFF && ((g_snap_in && ((@l8:iter@._mask >> ((g_F - g_snap_base) & g_mask)) & 1)) ==> g_snap_f == @l3:checker@))
//@  __CPROVER_decreases(@l8:iter@._mask)
//@end

/* find: a returned slot holds an equal key; a key published in F whose probe path up to F's group is full is found */
struct Tab_Iterator_L_0_R Tab_find__unsigned_long__u64R(Tab_t *t, unsigned long *k)
__CPROVER_requires(T_SHAPE(t) && __CPROVER_is_fresh(k, sizeof(*k)) && *k == g_key && g_fp <= g_mask / 16 && !g_started)
__CPROVER_requires(g_published_path ==> (g_ctl[g_F] == CHK && g_vals[g_F]._object == g_key))
__CPROVER_assigns(__CPROVER_object_whole(g_ctl), __CPROVER_object_whole(g_vals), g_fences, g_snap_base, g_snap_f, g_snap_in, g_empty_mask, g_have_empty_mask, g_probes, g_k, g_xbase, g_started)
__CPROVER_ensures(__CPROVER_return_value._index <= g_mask + 1)
__CPROVER_ensures((__CPROVER_return_value._index <= g_mask && __CPROVER_return_value._index == g_F) ==> (g_vals[g_F]._object == g_key && g_fences >= 1))
__CPROVER_ensures(g_published_path ==> (__CPROVER_return_value._index <= g_mask))     /* never misses a published key */
;
//@loop Tab_find__unsigned_long__u64R 1
//@  __CPROVER_assigns(@l4:step@, @l3:base_index@, __CPROVER_object_whole(g_ctl), __CPROVER_object_whole(g_vals), g_fences, g_snap_base, g_snap_f, g_snap_in, g_empty_mask, g_have_empty_mask, g_probes, g_k, g_xbase, g_started)
//@  __CPROVER_loop_invariant(@l3:base_index@ <= g_mask)
//@  __CPROVER_loop_invariant(!g_started ==> (@l4:step@ == 0 && @l3:base_index@ == ((g_hash >> 7) & g_mask)))
//@  __CPROVER_loop_invariant(g_started ==> (g_k <= g_mask / 16 && g_xbase <= g_mask && @l4:step@ == 16 * (g_k + 1) && @l3:base_index@ == ((g_xbase + @l4:step@) & g_mask)))
//@  __CPROVER_loop_invariant(g_published_path ==> ((g_started ==> g_k < g_fp) && g_ctl[g_F] == CHK && g_vals[g_F]._object == g_key))
//@end
//@loop Tab_find__unsigned_long__u64R 2
//@  __CPROVER_assigns(@l6:iter@, g_fences)
//@  __CPROVER_loop_invariant(@l6:iter@._mask <= 0xFFFF && ((g_snap_in && ((@l6:iter@._mask >> ((g_F - g_snap_base) & g_mask)) & 1)) ==> g_snap_f == @l2:checker@))
//@  __CPROVER_loop_invariant((g_published_path && g_started && g_k == g_fp) ==> (g_snap_in && ((@l6:iter@._mask >> ((g_F - g_snap_base) & g_mask)) & 1) && g_ctl[g_F] == CHK && g_vals[g_F]._object == g_key))
//@  __CPROVER_decreases(@l6:iter@._mask)
//@end
#endif
