KE = 'babylon::internal::concurrent_transient_hash_table::IdentityKeyExtractor'
TAB = 'babylon::ConcurrentFixedSwissTable<unsigned long, babylon_vf::Hash, ' + KE + '>'
GRP = 'babylon::internal::concurrent_transient_hash_table::Group'
GIT = 'babylon::internal::concurrent_transient_hash_table::GroupIterator'
GROUP = dict(
    prop='C03',
    driver='driver.cpp',
    spec='spec.h',
    aliases=[(TAB, 'Tab'), (GRP, 'Group'), (GIT, 'GroupIter'), ('babylon_vf::', '')],
    opaque_by_value=['babylon::GenericsConcurrentAdder<long>', GRP],
    extra_structs={'std::allocator<unsigned long>': 'struct @ { char __empty; };', 'std::pair<iterator, bool>': 'struct @ { struct { void *_table; unsigned long _index; unsigned long _mask; } first; _Bool second; };', 'std::pair<iterator,bool>': 'struct @ { struct { void *_table; unsigned long _index; unsigned long _mask; } first; _Bool second; };'},
    type_aliases={'babylon::CachelineAligned<unsigned long>': 'babylon::Aligned<unsigned long,128>', 'CachelineAligned<unsigned long>': 'babylon::Aligned<unsigned long,128>', 'CachelineAligned<T>': 'babylon::Aligned<unsigned long,128>', 'std::pair<babylon::ConcurrentFixedSwissTable<unsigned long,babylon_vf::Hash>::Iterator<0>,bool>': 'std::pair<iterator,bool>', 'std::pair<babylon::ConcurrentFixedSwissTable<unsigned long, babylon_vf::Hash>::Iterator<0>, bool>': 'std::pair<iterator,bool>'},
    outside_methods={'std::pair<iterator,bool>': ['first'], 'std::allocator<unsigned long>': ['allocate']},
    outside_funcs={'sched_yield': 'vf_sched_yield'},
    layout_unspellable=['babylon::Aligned<unsigned long,128>', 'babylon::CachelineAligned<unsigned long>'],   # the alignment argument is a std::align_val_t; the functions under contract only index an array of it
    trivial_copy=['std::pair<iterator, bool>', 'std::pair<iterator,bool>'],
    extern_re=[r'UsesAllocatorConstructor::construct', r'concurrent_transient_hash_table::Group::', r'GenericsConcurrentAdder<long>::', r'babylon_vf::Hash::operator\(\)'],
    roots=[TAB + '::do_emplace', TAB + '::find'],
    reviewed_compiler_conditionals=['src/babylon/concurrent/transient_hash_table.hpp:#if GCC_VERSION >= 120000'],
    assumptions=[],
    # the probe sequence (spec.h, Group_ctor stub) is a convention insert and lookup share: see vcheck.finish
    agree=[dict(name='probe-sequence', jobs=['C03.do_emplace', 'C03.find'], pattern=r'AGREE\[probe\]|loop_invariant_step|loop_invariant_base')],
    jobs=[
        dict(id='C03.do_emplace', enforce='Tab_do_emplace__unsigned_longRef_x', loops=True, backend='cadical', timeout=900, mem_gb=20),
        dict(id='C03.find', enforce='Tab_find__unsigned_long__u64R', loops=True, backend='cadical', timeout=900, mem_gb=20),
    ],
)
