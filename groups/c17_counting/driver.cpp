// driver TU for C17 (counting wrapper): CountingPageAllocator, defined in page_allocator.cpp
#include "babylon/reusable/page_allocator.cpp"
