/* C17 (counting wrapper) -- CountingPageAllocator: every request is forwarded to the upstream allocator exactly once with the same
 * arguments (the wrapper neither keeps nor invents pages), and the counter moves by exactly the number of pages that changed hands:
 * +1 / +num on allocate, -1 / -num on deallocate; allocated_page_num() is the counter clamped at 0. */
#ifndef C17C_SPEC_H
#define C17C_SPEC_H
long nondet_long(void);
typedef struct CountingPageAllocator CPA_t;
long g_count;                                  /* ghost value of the concurrent adder */
unsigned g_up_calls; int g_up_kind; void *g_up_page; void **g_up_pages; unsigned long g_up_num; struct PageAllocator *g_up_self; void *g_up_ret;
static void vf_havoc_ghosts(void) { g_count = nondet_long(); g_up_calls = 0; g_up_kind = 0; }
/* GenericsConcurrentAdder<ssize_t>::operator<<(const U&): `local = local + static_cast<T>(value)`: the operand converted to the signed sum type */
struct Adder *Adder_op_shl__int(struct Adder *self, int *value) { g_count += (long)*value; return self; }
struct Adder *Adder_op_shl__unsigned_long(struct Adder *self, unsigned long *value) { g_count = (long)((unsigned long)g_count + *value); return self; }
long Adder_value(struct Adder *self) { return g_count; }
void *PageAllocator_allocate__void(struct PageAllocator *self) { g_up_calls++; g_up_kind = 1; g_up_self = self; return g_up_ret; }
void PageAllocator_allocate__voidPP_u64(struct PageAllocator *self, void **pages, unsigned long num) { g_up_calls++; g_up_kind = 2; g_up_self = self; g_up_pages = pages; g_up_num = num; }
void PageAllocator_deallocate__voidP(struct PageAllocator *self, void *page) { g_up_calls++; g_up_kind = 3; g_up_self = self; g_up_page = page; }
void PageAllocator_deallocate__voidPP_u64(struct PageAllocator *self, void **pages, unsigned long num) { g_up_calls++; g_up_kind = 4; g_up_self = self; g_up_pages = pages; g_up_num = num; }
#define CPA_PRE(self) (__CPROVER_is_fresh(self, sizeof(*self)) && g_up_calls == 0 && g_count > -(1L << 62) && g_count < (1L << 62))
#define CPA_FRAME g_count, g_up_calls, g_up_kind, g_up_self, g_up_page, g_up_pages, g_up_num
void *CountingPageAllocator_allocate__void(CPA_t *self)
__CPROVER_requires(CPA_PRE(self))
__CPROVER_assigns(CPA_FRAME)
__CPROVER_ensures(g_count == __CPROVER_old(g_count) + 1 && g_up_calls == 1 && g_up_kind == 1 && g_up_self == self->_upstream && __CPROVER_return_value == g_up_ret)
;
void CountingPageAllocator_allocate__voidPP_u64(CPA_t *self, void **pages, unsigned long num)
__CPROVER_requires(CPA_PRE(self) && num < (1UL << 62))
__CPROVER_assigns(CPA_FRAME)
__CPROVER_ensures(g_count == __CPROVER_old(g_count) + (long)num && g_up_calls == 1 && g_up_kind == 2 && g_up_self == self->_upstream && g_up_pages == pages && g_up_num == num)
;
void CountingPageAllocator_deallocate__voidP(CPA_t *self, void *page)
__CPROVER_requires(CPA_PRE(self))
__CPROVER_assigns(CPA_FRAME)
__CPROVER_ensures(g_count == __CPROVER_old(g_count) - 1 && g_up_calls == 1 && g_up_kind == 3 && g_up_self == self->_upstream && g_up_page == page)
;
void CountingPageAllocator_deallocate__voidPP_u64(CPA_t *self, void **pages, unsigned long num)
__CPROVER_requires(CPA_PRE(self) && num < (1UL << 62))
__CPROVER_assigns(CPA_FRAME)
__CPROVER_ensures(g_count == __CPROVER_old(g_count) - (long)num && g_up_calls == 1 && g_up_kind == 4 && g_up_self == self->_upstream && g_up_pages == pages && g_up_num == num)
;
size_t CountingPageAllocator_allocated_page_num(CPA_t *self)
__CPROVER_requires(__CPROVER_is_fresh(self, sizeof(*self)))
__CPROVER_assigns()
__CPROVER_ensures(__CPROVER_return_value == (g_count > 0 ? (unsigned long)g_count : 0UL))
;
/* ---- PageHeap: the same accounting around its own cached allocator (group c17_pages proves that allocator's contracts) */
struct CachedPageAllocator *g_ca_self;
void CachedPageAllocator_allocate(struct CachedPageAllocator *self, void **pages, unsigned long num) { g_up_calls++; g_up_kind = 5; g_ca_self = self; g_up_pages = pages; g_up_num = num; }
void CachedPageAllocator_deallocate(struct CachedPageAllocator *self, void **pages, unsigned long num) { g_up_calls++; g_up_kind = 6; g_ca_self = self; g_up_pages = pages; g_up_num = num; }
void PageHeap_allocate(struct PageHeap *self, void **pages, unsigned long num)
__CPROVER_requires(CPA_PRE(self) && num < (1UL << 62))
__CPROVER_assigns(CPA_FRAME, g_ca_self)
__CPROVER_ensures(g_count == __CPROVER_old(g_count) + (long)num && g_up_calls == 1 && g_up_kind == 5 && g_ca_self == &self->_cached_allocator && g_up_pages == pages && g_up_num == num)
;
void PageHeap_deallocate(struct PageHeap *self, void **pages, unsigned long num)
__CPROVER_requires(CPA_PRE(self) && num < (1UL << 62))
__CPROVER_assigns(CPA_FRAME, g_ca_self)
__CPROVER_ensures(g_count == __CPROVER_old(g_count) - (long)num && g_up_calls == 1 && g_up_kind == 6 && g_ca_self == &self->_cached_allocator && g_up_pages == pages && g_up_num == num)
;
size_t PageHeap_allocate_page_num(struct PageHeap *self)
__CPROVER_requires(__CPROVER_is_fresh(self, sizeof(*self)))
__CPROVER_assigns()
__CPROVER_ensures(__CPROVER_return_value == (g_count > 0 ? (unsigned long)g_count : 0UL))
;
#endif
