C = 'babylon::CountingPageAllocator'
AD = 'babylon::GenericsConcurrentAdder<long>'
GROUP = dict(
    prop='C17',
    driver='driver.cpp',
    spec='spec.h',
    aliases=[(AD, 'Adder'), ('babylon::', '')],
    opaque_by_value=[AD, 'babylon::CachedPageAllocator', 'babylon::NewDeletePageAllocator'],
    extern_re=[r'GenericsConcurrentAdder<.*>::', r'^babylon::PageAllocator::', r'^babylon::CachedPageAllocator::'],
    roots=[{'name': C + '::allocate', 'sig': 'void *()'}, {'name': C + '::allocate', 'sig': 'void **'}, {'name': C + '::deallocate', 'sig': 'void (void *)'}, {'name': C + '::deallocate', 'sig': 'void **'}, C + '::allocated_page_num', 'babylon::PageHeap::allocate', 'babylon::PageHeap::deallocate', 'babylon::PageHeap::allocate_page_num'],
    reviewed_compiler_conditionals=[],
    assumptions=['ConcurrentAdder is a ghost counter here (operator<< adds, value() reads; its own contracts are in group c19_adder); the upstream allocator is a recording stub',
                 'page counts below 2^62 (the count is a signed 64-bit sum)'],
    jobs=[
        dict(id='C17.counting.allocate1', enforce='CountingPageAllocator_allocate__void'),
        dict(id='C17.counting.allocate_n', enforce='CountingPageAllocator_allocate__voidPP_u64'),
        dict(id='C17.counting.deallocate1', enforce='CountingPageAllocator_deallocate__voidP'),
        dict(id='C17.counting.deallocate_n', enforce='CountingPageAllocator_deallocate__voidPP_u64'),
        dict(id='C17.counting.allocated_page_num', enforce='CountingPageAllocator_allocated_page_num'),
        dict(id='C17.heap.allocate', enforce='PageHeap_allocate'),
        dict(id='C17.heap.deallocate', enforce='PageHeap_deallocate'),
        dict(id='C17.heap.allocate_page_num', enforce='PageHeap_allocate_page_num'),
    ],
)
