/* C06 -- contracts for ExclusiveMonotonicBufferResource (memory_resource.{h,cpp}).
 * Included by the generated gen.c after all struct definitions and prototypes.
 *
 * Ghost state (globals; every harness havocs them through vf_havoc_ghosts(), the contracts' requires constrain them):
 *   g_ps            page size of the page allocator: a power of two in [128, 2^20]
 *   g_live          pages part is live (a PageArray exists) / null state
 *   g_page          the current page (live state): the object holding the free region
 *   g_inv           _free_begin lies beyond _free_end (reachable only after a request with alignment > page size)
 *   g_olive,g_ok    an OversizePageArray exists / index of its newest entry
 *   g_npages / g_upbytes  pages obtained from the PageAllocator / bytes obtained upstream (bumped by the contract stubs)
 *   g_new1,g_new2   the last two pages handed out by PageAllocator::allocate (newest in g_new1)
 *   g_up1,g_up1_bytes,g_up1_align   last upstream request as seen by the upstream stub
 */
#ifndef C06_SPEC_H
#define C06_SPEC_H

typedef struct ExclusiveMonotonicBufferResource R_t;
typedef struct ExclusiveMonotonicBufferResource_PageArray PA_t;
typedef struct ExclusiveMonotonicBufferResource_OversizePageArray OA_t;
typedef struct ExclusiveMonotonicBufferResource_OversizePage OP_t;
typedef struct ExclusiveMonotonicBufferResource_DestroyTaskArray DA_t;
typedef struct ExclusiveMonotonicBufferResource_DestroyTask DT_t;

size_t g_ps;
_Bool g_live;
char *g_page;
_Bool g_olive;
size_t g_ok;
size_t g_npages, g_upbytes;
char *g_new1, *g_new2, *g_up1;
size_t g_up1_bytes, g_up1_align;

size_t nondet_size_t(void);
_Bool nondet_bool(void);
static void vf_havoc_ghosts(void) {
  g_ps = nondet_size_t(); g_live = nondet_bool();
  g_olive = nondet_bool(); g_ok = nondet_size_t();
  g_npages = nondet_size_t(); g_upbytes = nondet_size_t(); g_up1_bytes = nondet_size_t(); g_up1_align = nondet_size_t();
}

#define VF_POW2(x) ((x) != 0 && (((x) & ((x)-1)) == 0))
#define VF_U(p) ((uintptr_t)(p))
#define VF_ALIGNED(p, a) ((VF_U(p) & ((a)-1)) == 0)
#define VF_NULL_LPP ((char **)8)   /* &((PageArray*)0)->pages */
#define VF_NULL_OPP ((OP_t *)8)    /* &((OversizePageArray*)0)->pages */
#define VF_MAX_BYTES (1UL << 40)
#define VF_MAX_ALIGN (1UL << 32)
#define PE(a, b) __CPROVER_pointer_equals(a, b)
#define OLD(x) __CPROVER_old(x)
#define EQ(a, b) ((a) == (b))
/* A postcondition is *asserted* when its function is the one being enforced and *assumed* where the function is replaced
 * by its contract.  __CPROVER_pointer_equals means plain equality when asserted (and is very slow there: 86 s against 10 s
 * on do_allocate_in_oversize_page), but when assumed it must be the DFCC predicate so that the pointer gets a value CBMC can
 * dereference.  Q_<function> selects the spelling; the runner defines VF_ENFORCE_<function> for the enforced one. */
/* requires clauses are the other way round: assumed for the enforced function, asserted where it is replaced */
#ifdef VF_ENFORCE_ExclusiveMonotonicBufferResource_do_allocate_with_page_in_new_page_array
#define RQ_NPA PE
#else
#define RQ_NPA EQ
#endif
#ifdef VF_ENFORCE_ExclusiveMonotonicBufferResource_do_allocate_in_oversize_page
#define RQ_OV PE
#else
#define RQ_OV EQ
#endif
#ifdef VF_ENFORCE_ExclusiveMonotonicBufferResource_do_allocate_in_new_page
#define RQ_NP PE
#else
#define RQ_NP EQ
#endif
#ifdef VF_ENFORCE_ExclusiveMonotonicBufferResource_allocate__u64_u64
#define RQ_AL PE
#else
#define RQ_AL EQ
#endif
#ifdef VF_ENFORCE_ExclusiveMonotonicBufferResource_allocate__8
#define RQ_AL8 PE
#else
#define RQ_AL8 EQ
#endif
#ifdef VF_ENFORCE_ExclusiveMonotonicBufferResource_do_allocate_with_page_in_new_page_array
#define Q_NPA EQ
#else
#define Q_NPA PE
#endif
#ifdef VF_ENFORCE_ExclusiveMonotonicBufferResource_do_allocate_in_oversize_page
#define Q_OV EQ
#else
#define Q_OV PE
#endif
#ifdef VF_ENFORCE_ExclusiveMonotonicBufferResource_do_allocate_in_new_page
#define Q_NP EQ
#else
#define Q_NP PE
#endif
#ifdef VF_ENFORCE_ExclusiveMonotonicBufferResource_allocate__u64_u64
#define Q_AL EQ
#else
#define Q_AL PE
#endif
#ifdef VF_ENFORCE_ExclusiveMonotonicBufferResource_allocate__8
#define Q_AL8 EQ
#else
#define Q_AL8 PE
#endif
#define SZ_PA sizeof(PA_t)   /* 128 */
#define SZ_OA sizeof(OA_t)   /* 368 */

static inline _Bool vf_disjoint(const void *a, size_t an, const void *b, size_t bn) {
  return !__CPROVER_same_object(a, b) || VF_U(a) + an <= VF_U(b) || VF_U(b) + bn <= VF_U(a);
}

/* case split: a job may restrict the ghost case it covers (VF_CASE); the union of a job family's cases is `1`,
 * checked by the runner's K7 coverage lemma job */
#ifndef VF_CASE
#define VF_CASE 1
#endif
#define PS_OK (VF_POW2(g_ps) && g_ps >= 128 && g_ps <= (1UL << 20) && (VF_CASE))
#define REQ_OK(BY_, AL_) ((BY_) <= VF_MAX_BYTES && VF_POW2(AL_) && (AL_) <= VF_MAX_ALIGN)

/* ---- representation invariant, pages part, as a precondition (establishes the objects) ------------------
 * null state:  no page array, _last_page_pointer == &((PageArray*)0)->pages, empty free region
 * live state:  the array A lies 8-aligned inside a page (g_host); _last_page_pointer points at one of A->pages[0..14];
 *              the page recorded there (g_page) holds the free region; _free_end is that page's end;
 *              _free_begin lies in the page, or (g_inv) less than 2^32 past its end; A does not overlap the free region */
#define FB_OFF(r) (VF_U((r)->_free_begin) - VF_U(g_page))
/* SEPARATION ABSTRACTION (stated assumption, see DESIGN.md C06): in preconditions the current PageArray /
 * OversizePageArray is a separate object.  In the real heap it lies inside a page or an upstream block, but
 * disjoint from the free region and from every block handed out -- that is exactly what the postconditions of
 * the function that created it prove (array inside old free region / behind the block / in a fresh page, and
 * outside the new free region), and the allocation functions reach memory only through the array pointer and
 * the free-region pointers.  release(), where the hosting matters, has its own shape (SHAPE_RELEASE). */
#define SHAPE_PAGES(RQ, r) ( \
  g_live \
  ? ( __CPROVER_is_fresh(g_page, g_ps) \
      && __CPROVER_is_fresh((r)->_last_page_array, SZ_PA) \
      && __CPROVER_pointer_in_range_dfcc(&(r)->_last_page_array->pages[0], (r)->_last_page_pointer, &(r)->_last_page_array->pages[14]) \
      && ((VF_U((r)->_last_page_pointer) - VF_U((r)->_last_page_array)) & 7) == 0 \
      && *(r)->_last_page_pointer == g_page \
      && RQ((r)->_free_end, g_page + g_ps) \
      && (FB_OFF(r) <= g_ps ? __CPROVER_pointer_in_range_dfcc(g_page, (r)->_free_begin, g_page + g_ps) \
                            : FB_OFF(r) <= VF_MAX_ALIGN) ) \
  : ( (r)->_last_page_array == (PA_t *)0 && (r)->_last_page_pointer == VF_NULL_LPP \
      && (r)->_free_begin == (char *)0 && (r)->_free_end == (char *)0 ) )

#define SHAPE_OVERSIZE(RQ, r) ( \
  g_olive \
  ? ( __CPROVER_is_fresh((r)->_last_oversize_page_array, SZ_OA) \
      && g_ok <= 14 && RQ((r)->_last_oversize_page_pointer, &(r)->_last_oversize_page_array->pages[g_ok]) ) \
  : ( (r)->_last_oversize_page_array == (OA_t *)0 && (r)->_last_oversize_page_pointer == VF_NULL_OPP ) )

/* ---- the pages invariant as a checkable postcondition (no ghosts except g_ps: everything is read back) -------- */
static inline _Bool vf_wf_pages(R_t *r) {
  if (r->_last_page_array == (PA_t *)0)
    return r->_last_page_pointer == VF_NULL_LPP && r->_free_begin == (char *)0 && r->_free_end == (char *)0;
  PA_t *A = r->_last_page_array;
  if (!__CPROVER_r_ok(A, SZ_PA) || !VF_ALIGNED(A, 8)) return 0;
  if (!__CPROVER_same_object(r->_last_page_pointer, A)) return 0;
  size_t d = VF_U(r->_last_page_pointer) - VF_U(A);
  if (d < 8 || d > 8 + 14 * 8 || (d & 7) != 0) return 0;
  char *P = *r->_last_page_pointer;
  if (P == 0 || __CPROVER_POINTER_OFFSET(P) != 0 || __CPROVER_OBJECT_SIZE(P) != g_ps) return 0;
  if (!__CPROVER_r_ok(P, g_ps)) return 0;
  if (r->_free_end != P + g_ps) return 0;
  size_t fo = VF_U(r->_free_begin) - VF_U(P);
  if (fo <= g_ps) {
    if (!__CPROVER_same_object(r->_free_begin, P)) return 0;
    if (!vf_disjoint(A, SZ_PA, r->_free_begin, g_ps - fo)) return 0;   /* bookkeeping outside the free region */
  } else if (fo > VF_MAX_ALIGN) return 0;
  return 1;
}

/* ---- dependencies: contract stubs (assumed; listed in the evidence) ---------------------------------- */
size_t PageAllocator_page_size(struct PageAllocator *self)
__CPROVER_requires(1)
__CPROVER_ensures(__CPROVER_return_value == g_ps)
__CPROVER_assigns();

void *PageAllocator_allocate__void(struct PageAllocator *self)
__CPROVER_requires(1)
__CPROVER_ensures(__CPROVER_is_fresh(__CPROVER_return_value, g_ps))
__CPROVER_ensures(g_new1 == (char *)__CPROVER_return_value && g_new2 == OLD(g_new1))
__CPROVER_ensures(g_npages == OLD(g_npages) + 1)
__CPROVER_assigns(g_new1, g_new2, g_npages);

void *std_pmr_memory_resource_allocate(struct std_pmr_memory_resource *self, unsigned long bytes, unsigned long alignment)
__CPROVER_requires(VF_POW2(alignment))
__CPROVER_ensures(__CPROVER_is_fresh(__CPROVER_return_value, bytes))
__CPROVER_ensures(g_up1 == (char *)__CPROVER_return_value && g_up1_bytes == bytes && g_up1_align == alignment)
__CPROVER_ensures(g_upbytes == OLD(g_upbytes) + bytes)
__CPROVER_assigns(g_up1, g_up1_bytes, g_up1_align, g_upbytes);

/* the static ConcurrentAdder used only for statistics (extern; not part of C06) */
struct GenericsConcurrentAdder_L_long_R *ExclusiveMonotonicBufferResource_oversize_page_concurrent_adder(void)
__CPROVER_ensures(1) __CPROVER_assigns();
struct GenericsConcurrentAdder_L_long_R *GenericsConcurrentAdder_L_long_R_op_shl__int(struct GenericsConcurrentAdder_L_long_R *self, int *value)
__CPROVER_ensures(1) __CPROVER_assigns();

/* ======================================================================================================
 * Exact functional postconditions (strongest: the code is deterministic given the stubs' answers).
 * FB0 is the (pointer) value of _free_begin on entry to the new-page-array step; N0 the page counter before that step;
 * PG the page just obtained for the block.
 *   placement 1: the 8-aligned old free begin has room for a PageArray  -> array in the old free region
 *   placement 2: else, block + array fit in the new page                -> array behind the (8-rounded) block
 *   placement 3: else                                                    -> array at the start of an additional page
 * ==================================================================================================== */
#define PAD(p, a) ((0 - VF_U(p)) & ((a)-1))
#define RU8(b) (((b) + 7) & ~7UL)
#define NPA_C1(r, FB0) (VF_U(FB0) + PAD(FB0, 8) + SZ_PA <= VF_U(OLD((r)->_free_end)))
#define NPA_C2(r, FB0, BY_) (!NPA_C1(r, FB0) && (BY_) + SZ_PA <= g_ps)
#define NEW_PAGE_ARRAY_POST(Q, r, FB0, N0, PG, BY_) ( \
  ( NPA_C1(r, FB0) \
    ? ( Q((r)->_last_page_array, (PA_t *)((FB0) + PAD(FB0, 8))) && Q((r)->_last_page_pointer, &(r)->_last_page_array->pages[14]) \
        && Q((r)->_free_begin, (PG) + (BY_)) && Q((r)->_free_end, (PG) + g_ps) && g_npages == (N0) ) \
    : NPA_C2(r, FB0, BY_) \
    ? ( Q((r)->_last_page_array, (PA_t *)((PG) + RU8(BY_))) && Q((r)->_last_page_pointer, &(r)->_last_page_array->pages[14]) \
        && Q((r)->_free_begin, (PG) + RU8(BY_) + SZ_PA) && Q((r)->_free_end, (PG) + g_ps) && g_npages == (N0) ) \
    : ( g_npages == (N0) + 1 && __CPROVER_is_fresh(g_new1, g_ps) \
        && Q((r)->_last_page_array, (PA_t *)g_new1) && Q((r)->_last_page_pointer, &(r)->_last_page_array->pages[13]) \
        && (r)->_last_page_array->pages[13] == g_new1 \
        && Q((r)->_free_begin, g_new1 + SZ_PA) && Q((r)->_free_end, g_new1 + g_ps) ) ) \
  && (r)->_last_page_array->next == OLD((r)->_last_page_array) \
  && (r)->_last_page_array->pages[14] == (PG) )

/* assignable locations of the allocation functions (K3 frame): the resource's own fields, the current PageArray slot,
 * the old free region, the oversize array slot, the stubs' ghosts; memory obtained inside the call is assignable by DFCC rules */
#define ALLOC_FRAME(r) \
  __CPROVER_assigns((r)->_last_page_array, (r)->_last_page_pointer, (r)->_free_begin, (r)->_free_end, (r)->_space_used, (r)->_space_allocated, \
                    (r)->_last_oversize_page_array, (r)->_last_oversize_page_pointer, \
                    g_new1, g_new2, g_npages, g_up1, g_up1_bytes, g_up1_align, g_upbytes) \
  __CPROVER_assigns(g_live : *((r)->_last_page_array)) \
  __CPROVER_assigns(g_live && FB_OFF(r) <= g_ps : __CPROVER_object_from((r)->_free_begin)) \
  __CPROVER_assigns(g_olive : *((r)->_last_oversize_page_array))

/* ------------------------------------------------------------------------------------------------------
 * do_allocate_with_page_in_new_page_array(bytes, page): called with a page just obtained while the current
 * array is full or absent
 * ---------------------------------------------------------------------------------------------------- */
void *ExclusiveMonotonicBufferResource_do_allocate_with_page_in_new_page_array(R_t *r, unsigned long bytes, char *page)
__CPROVER_requires(PS_OK && __CPROVER_is_fresh(r, sizeof(*r)))
__CPROVER_requires(SHAPE_PAGES(RQ_NPA, r))
__CPROVER_requires(!g_live || r->_last_page_pointer == &r->_last_page_array->pages[0])
__CPROVER_requires(__CPROVER_is_fresh(page, g_ps) && bytes <= g_ps)
__CPROVER_assigns(r->_last_page_array, r->_last_page_pointer, r->_free_begin, r->_free_end, r->_space_allocated,
                  g_new1, g_new2, g_npages, __CPROVER_object_whole(page))
__CPROVER_assigns(g_live && FB_OFF(r) <= g_ps : __CPROVER_object_from(r->_free_begin))
/* K1 exact result */
__CPROVER_ensures(__CPROVER_return_value == page)
__CPROVER_ensures(NEW_PAGE_ARRAY_POST(Q_NPA, r, OLD(r->_free_begin), OLD(g_npages), page, bytes))
__CPROVER_ensures(r->_space_allocated == OLD(r->_space_allocated) + (g_npages == OLD(g_npages) ? 0 : g_ps))
/* K2 invariant re-established */
__CPROVER_ensures(vf_wf_pages(r))
/* C06: the block [page, page+bytes) overlaps neither the new bookkeeping array nor the new free region */
__CPROVER_ensures(vf_disjoint(page, bytes, r->_last_page_array, SZ_PA))
__CPROVER_ensures(!__CPROVER_same_object(page, r->_free_begin) || VF_U(page) + bytes <= VF_U(r->_free_begin))
/* C06: the new array lives in memory the resource owns: old free region, the new page, or an additional fresh page */
__CPROVER_ensures((g_live && __CPROVER_same_object(r->_last_page_array, g_page) && VF_U(r->_last_page_array) >= VF_U(OLD(r->_free_begin))
                   && VF_U(r->_last_page_array) + SZ_PA <= VF_U(OLD(r->_free_end)))
                  || (__CPROVER_same_object(r->_last_page_array, page) && VF_U(r->_last_page_array) >= VF_U(page) + bytes)
                  || (g_npages == OLD(g_npages) + 1 && (char *)r->_last_page_array == g_new1))
;

/* ------------------------------------------------------------------------------------------------------
 * do_allocate_in_oversize_page(bytes, alignment)
 * ---------------------------------------------------------------------------------------------------- */
#define OV_AL(AL_) ((AL_) < 8 ? 8UL : (AL_))
#define OV_RB(BY_, AL_) (((BY_) + OV_AL(AL_) - 1) & (0 - OV_AL(AL_)))
#define OV_SLOT(r) (VF_U(OLD((r)->_last_oversize_page_pointer)) > VF_U(OLD((r)->_last_oversize_page_array)) + 8)
#define OVERSIZE_POST(Q, r, ret, BY_, AL_) ( \
  OV_SLOT(r) \
  ? ( __CPROVER_is_fresh(ret, BY_) \
      && Q((r)->_last_oversize_page_array, OLD((r)->_last_oversize_page_array)) \
      && Q((r)->_last_oversize_page_pointer, OLD((r)->_last_oversize_page_pointer) - 1) \
      && (r)->_last_oversize_page_pointer->page == (char *)(ret) && (r)->_last_oversize_page_pointer->bytes == (BY_) \
      && (r)->_last_oversize_page_pointer->alignment == (AL_) \
      && g_upbytes == OLD(g_upbytes) + (BY_) && (r)->_space_allocated == OLD((r)->_space_allocated) + (BY_) ) \
  : ( __CPROVER_is_fresh(ret, OV_RB(BY_, AL_) + SZ_OA) \
      && Q((r)->_last_oversize_page_array, (OA_t *)((char *)(ret) + OV_RB(BY_, AL_))) \
      && (r)->_last_oversize_page_array->next == OLD((r)->_last_oversize_page_array) \
      && Q((r)->_last_oversize_page_pointer, &(r)->_last_oversize_page_array->pages[14]) \
      && (r)->_last_oversize_page_pointer->page == (char *)(ret) && (r)->_last_oversize_page_pointer->bytes == OV_RB(BY_, AL_) + SZ_OA \
      && (r)->_last_oversize_page_pointer->alignment == OV_AL(AL_) \
      && g_upbytes == OLD(g_upbytes) + OV_RB(BY_, AL_) + SZ_OA \
      && (r)->_space_allocated == OLD((r)->_space_allocated) + OV_RB(BY_, AL_) + SZ_OA ) )

void *ExclusiveMonotonicBufferResource_do_allocate_in_oversize_page(R_t *r, unsigned long bytes, unsigned long alignment)
__CPROVER_requires(__CPROVER_is_fresh(r, sizeof(*r)) && REQ_OK(bytes, alignment))
__CPROVER_requires(SHAPE_OVERSIZE(RQ_OV, r))
__CPROVER_assigns(r->_space_allocated, r->_last_oversize_page_array, r->_last_oversize_page_pointer, g_up1, g_up1_bytes, g_up1_align, g_upbytes)
__CPROVER_assigns(g_olive : *(r->_last_oversize_page_array))
__CPROVER_ensures(OVERSIZE_POST(Q_OV, r, __CPROVER_return_value, bytes, alignment))
/* C06: aligned as requested; upstream was asked for exactly what is recorded (so release() can give it back as obtained) */
__CPROVER_ensures(VF_ALIGNED(__CPROVER_return_value, alignment))
__CPROVER_ensures(r->_last_oversize_page_pointer->page == g_up1 && r->_last_oversize_page_pointer->bytes == g_up1_bytes
                  && r->_last_oversize_page_pointer->alignment == g_up1_align)
/* C06: the bookkeeping array does not overlap the block handed out and lies inside the upstream block */
__CPROVER_ensures(vf_disjoint(__CPROVER_return_value, bytes, r->_last_oversize_page_array, SZ_OA))
__CPROVER_ensures(OV_SLOT(r) || (__CPROVER_same_object(r->_last_oversize_page_array, g_up1)
                  && VF_U(r->_last_oversize_page_array) + SZ_OA <= VF_U(g_up1) + g_up1_bytes && VF_ALIGNED(r->_last_oversize_page_array, 8)))
;

/* ------------------------------------------------------------------------------------------------------
 * do_allocate_in_new_page(bytes, alignment): the free region cannot serve the request
 * FB0: the value of _free_begin on entry
 * ---------------------------------------------------------------------------------------------------- */
#define NP_PAGEPATH(BY_, AL_) ((BY_) <= g_ps && (AL_) <= g_ps)
#define NP_SLOT(r) (VF_U(OLD((r)->_last_page_pointer)) > VF_U(OLD((r)->_last_page_array)) + 8)
#define PAGES_UNCHANGED(Q, r, FB0) ( (g_live ? Q((r)->_last_page_array, OLD((r)->_last_page_array)) && Q((r)->_last_page_pointer, OLD((r)->_last_page_pointer)) \
                                             : (r)->_last_page_array == (PA_t *)0 && (r)->_last_page_pointer == VF_NULL_LPP) \
      && (g_live && VF_U(FB0) - VF_U(g_page) <= g_ps ? Q((r)->_free_begin, FB0) : (r)->_free_begin == (FB0)) \
      && (g_live ? Q((r)->_free_end, OLD((r)->_free_end)) : (r)->_free_end == (char *)0) && g_npages == OLD(g_npages) )
#define OVERSIZE_UNCHANGED(Q, r) ( (g_olive ? Q((r)->_last_oversize_page_array, OLD((r)->_last_oversize_page_array)) \
                                          && Q((r)->_last_oversize_page_pointer, OLD((r)->_last_oversize_page_pointer)) \
                                        : (r)->_last_oversize_page_array == (OA_t *)0 && (r)->_last_oversize_page_pointer == VF_NULL_OPP) \
      && g_upbytes == OLD(g_upbytes) )
#define NEW_PAGE_POST(Q, r, FB0, ret, BY_, AL_) ( \
  NP_PAGEPATH(BY_, AL_) \
  ? ( __CPROVER_is_fresh(ret, g_ps) && OVERSIZE_UNCHANGED(Q, r) \
      && ( NP_SLOT(r) \
           ? ( Q((r)->_last_page_array, OLD((r)->_last_page_array)) && Q((r)->_last_page_pointer, OLD((r)->_last_page_pointer) - 1) \
               && *(r)->_last_page_pointer == (char *)(ret) \
               && Q((r)->_free_begin, (char *)(ret) + (BY_)) && Q((r)->_free_end, (char *)(ret) + g_ps) && g_npages == OLD(g_npages) + 1 ) \
           : NEW_PAGE_ARRAY_POST(Q, r, FB0, OLD(g_npages) + 1, (char *)(ret), BY_) ) \
      && (r)->_space_allocated == OLD((r)->_space_allocated) + (g_npages == OLD(g_npages) + 1 ? g_ps : 2 * g_ps) ) \
  : ( PAGES_UNCHANGED(Q, r, FB0) && OVERSIZE_POST(Q, r, ret, BY_, AL_) ) )

void *ExclusiveMonotonicBufferResource_do_allocate_in_new_page(R_t *r, unsigned long bytes, unsigned long alignment)
__CPROVER_requires(PS_OK && __CPROVER_is_fresh(r, sizeof(*r)) && REQ_OK(bytes, alignment))
__CPROVER_requires(SHAPE_PAGES(RQ_NP, r))
__CPROVER_requires(SHAPE_OVERSIZE(RQ_NP, r))
ALLOC_FRAME(r)
__CPROVER_ensures(NEW_PAGE_POST(Q_NP, r, OLD(r->_free_begin), __CPROVER_return_value, bytes, alignment))
__CPROVER_ensures(r->_space_used == OLD(r->_space_used))
__CPROVER_ensures(VF_ALIGNED(__CPROVER_return_value, alignment))
__CPROVER_ensures(vf_wf_pages(r))
__CPROVER_ensures(vf_disjoint(__CPROVER_return_value, bytes, r->_last_page_array, SZ_PA))
__CPROVER_ensures(!__CPROVER_same_object(__CPROVER_return_value, r->_free_begin) || VF_U(__CPROVER_return_value) + bytes <= VF_U(r->_free_begin))
;

/* ------------------------------------------------------------------------------------------------------
 * allocate(bytes, alignment) and allocate<8>(bytes): the public entry points.  C06's per-call statement:
 *   aligned; inside memory the resource owns (old free region, or memory obtained in this call);
 *   disjoint from the resource's bookkeeping and from the free region that later calls carve from;
 *   nothing outside the frame is written (so blocks handed out earlier keep their contents).
 * ---------------------------------------------------------------------------------------------------- */
#define AL_FIT(r, BY_, AL_) (VF_U(OLD((r)->_free_begin)) + PAD(OLD((r)->_free_begin), AL_) + (BY_) <= VF_U(OLD((r)->_free_end)))
#define AL_AFB(r, AL_) (OLD((r)->_free_begin) + PAD(OLD((r)->_free_begin), AL_))
#define ALLOCATE_POST(Q, r, ret, BY_, AL_) ( \
  AL_FIT(r, BY_, AL_) \
  ? ( (g_live ? Q(ret, AL_AFB(r, AL_)) : (ret) == (void *)0) \
      && (g_live ? Q((r)->_free_begin, AL_AFB(r, AL_) + (BY_)) : (r)->_free_begin == (char *)0) \
      && (g_live ? Q((r)->_free_end, OLD((r)->_free_end)) : (r)->_free_end == (char *)0) \
      && (g_live ? Q((r)->_last_page_array, OLD((r)->_last_page_array)) && Q((r)->_last_page_pointer, OLD((r)->_last_page_pointer)) \
                 : (r)->_last_page_array == (PA_t *)0 && (r)->_last_page_pointer == VF_NULL_LPP) \
      && g_npages == OLD(g_npages) && OVERSIZE_UNCHANGED(Q, r) && (r)->_space_allocated == OLD((r)->_space_allocated) ) \
  : NEW_PAGE_POST(Q, r, AL_AFB(r, AL_), ret, BY_, AL_) )

#define ALLOCATE_CONTRACT(Q, RQ, BY_, AL_) \
__CPROVER_requires(PS_OK && __CPROVER_is_fresh(r, sizeof(*r)) && REQ_OK(BY_, AL_)) \
__CPROVER_requires(SHAPE_PAGES(RQ, r)) \
__CPROVER_requires(SHAPE_OVERSIZE(RQ, r)) \
ALLOC_FRAME(r) \
__CPROVER_ensures(ALLOCATE_POST(Q, r, __CPROVER_return_value, BY_, AL_)) \
__CPROVER_ensures(r->_space_used == OLD(r->_space_used) + BY_) \
/* C06 aligned as requested */ \
__CPROVER_ensures(VF_ALIGNED(__CPROVER_return_value, AL_)) \
/* C06 lies in memory the resource owns */ \
__CPROVER_ensures(BY_ == 0 || __CPROVER_r_ok(__CPROVER_return_value, BY_)) \
__CPROVER_ensures(!AL_FIT(r, BY_, AL_) || !g_live || (__CPROVER_same_object(__CPROVER_return_value, g_page) \
                  && VF_U(__CPROVER_return_value) >= VF_U(OLD(r->_free_begin)) && VF_U(__CPROVER_return_value) + BY_ <= VF_U(OLD(r->_free_end)))) \
/* K2 invariant */ \
__CPROVER_ensures(vf_wf_pages(r)) \
/* C06 overlaps neither the bookkeeping arrays nor the free region that later calls carve from */ \
__CPROVER_ensures(vf_disjoint(__CPROVER_return_value, BY_, r->_last_page_array, SZ_PA)) \
__CPROVER_ensures(vf_disjoint(__CPROVER_return_value, BY_, r->_last_oversize_page_array, SZ_OA)) \
__CPROVER_ensures(!__CPROVER_same_object(__CPROVER_return_value, r->_free_begin) || VF_U(__CPROVER_return_value) + BY_ <= VF_U(r->_free_begin))

void *ExclusiveMonotonicBufferResource_allocate__u64_u64(R_t *r, unsigned long bytes, unsigned long alignment)
ALLOCATE_CONTRACT(Q_AL, RQ_AL, bytes, alignment);

void *ExclusiveMonotonicBufferResource_allocate__8(R_t *r, unsigned long bytes)
ALLOCATE_CONTRACT(Q_AL8, RQ_AL8, bytes, 8UL);


/* ======================================================================================================
 * BOUNDED stand-in (never counted as proved): destruct_all() and release() on explicitly built heaps.
 * Bound: page size 512; at most 2 PageArrays, 2 OversizePageArrays, 2 DestroyTaskArrays (the newest one filled to a
 * nondeterministic level, older ones full); every array is hosted inside one of the pages / upstream blocks that the
 * arrays themselves record (including the page an array lists for itself -- the copy-out-before-free case).
 * The page allocator and the upstream are executable stubs that really free() what they are given, so a double return,
 * a wrong pointer or a read of bookkeeping after its host was returned is a CBMC pointer-check failure; sizes and
 * alignments are compared with what was recorded at construction; counters prove nothing is left behind.
 * ==================================================================================================== */
#ifdef VF_BOUNDED_RELEASE
#include <stdlib.h>
#define B_PS 256UL
#ifndef B_MAXARR
#define B_MAXARR 1
#endif
#ifndef B_MINFIRST
#define B_MINFIRST 12   /* newest array holds 1..3 entries */
#endif
unsigned nondet_uint(void);
static unsigned b_pages_made, b_pages_freed, b_blocks_made, b_blocks_freed, b_dtor_expected, b_dtor_calls;

size_t PageAllocator_page_size(struct PageAllocator *self) { return B_PS; }
void PageAllocator_deallocate__voidPP_u64(struct PageAllocator *self, void **pages, unsigned long num) {
  __CPROVER_assert(num <= 15, "K4 C06.release batch fits the temporary array");
  for (unsigned long i = 0; i < num; ++i) { b_pages_freed++; free(pages[i]); }   /* double/invalid free => pointer-check failure */
}
/* every upstream block carries a 16-byte header in front of it (bytes, alignment as obtained): O(1) look-up, and free()
 * of the header address makes a second return of the same block a CBMC double-free failure */
void std_pmr_memory_resource_deallocate(struct std_pmr_memory_resource *self, void *p, unsigned long bytes, unsigned long alignment) {
  size_t *hdr = (size_t *)((char *)p - 16);
  __CPROVER_assert(hdr[0] == bytes && hdr[1] == alignment, "K1 C06.release oversize block returned with the size and alignment it was obtained with");
  b_blocks_freed++; free(hdr);
}
static void b_dtor(void *p) {
  __CPROVER_assert((size_t)p == b_dtor_calls, "K1 C06.release destructors run exactly once each, newest first");
  b_dtor_calls++;
}
static char *b_page(void) { b_pages_made++; return (char *)malloc(B_PS); }
static char *b_upblock(size_t bytes, size_t al) { b_blocks_made++; size_t *hdr = (size_t *)malloc(512); /* constant-size host: the logical size is in the header */ hdr[0] = bytes; hdr[1] = al; return (char *)hdr + 16; }

/* build `n` (<=2) chained PageArrays; array a is placed 8-aligned inside page number `host` of its own list */
static void b_build_pages(R_t *r) {
  unsigned n = nondet_uint(); __CPROVER_assume(n <= B_MAXARR);
  PA_t *older = 0; r->_last_page_array = 0; r->_last_page_pointer = VF_NULL_LPP; r->_free_begin = r->_free_end = 0;
  for (unsigned a = 0; a < n; ++a) {
    unsigned first = (a + 1 == n) ? nondet_uint() : 0;      /* newest array: entries [first,15) are filled; older: full */
    __CPROVER_assume(first <= 14 && (a + 1 != n || first >= B_MINFIRST));
    char *pg[15];
    for (unsigned i = first; i < 15; ++i) pg[i] = b_page();
    /* the array sits at the start or at the end of the newest or of the oldest page it records (covers the three placements) */
    unsigned host = nondet_bool() ? first : 14; size_t off = nondet_bool() ? 0 : B_PS - SZ_PA;
    PA_t *A = (PA_t *)(pg[host] + off);
    A->next = older;
    for (unsigned i = first; i < 15; ++i) A->pages[i] = pg[i];
    older = A; r->_last_page_array = A; r->_last_page_pointer = &A->pages[first];
    r->_free_begin = pg[first] + B_PS; r->_free_end = pg[first] + B_PS;
  }
  r->_space_allocated += (size_t)b_pages_made * B_PS;
}
static void b_build_oversize(R_t *r) {
  unsigned n = nondet_uint(); __CPROVER_assume(n <= B_MAXARR);
  OA_t *older = 0; r->_last_oversize_page_array = 0; r->_last_oversize_page_pointer = VF_NULL_OPP;
  for (unsigned a = 0; a < n; ++a) {
    unsigned first = (a + 1 == n) ? nondet_uint() : 0; __CPROVER_assume(first <= 14 && (a + 1 != n || first >= B_MINFIRST));
    /* the block that created the array hosts it behind its payload and is recorded in the last slot */
    size_t payload = nondet_bool() ? 0 : 16;
    char *hostb = b_upblock(payload + SZ_OA, 8);
    OA_t *A = (OA_t *)(hostb + payload);
    A->next = older;
    A->pages[14].page = hostb; A->pages[14].bytes = payload + SZ_OA; A->pages[14].alignment = 8;
    for (unsigned i = first; i < 14; ++i) {
      size_t by = nondet_bool() ? 24 : 40, al = nondet_bool() ? 8 : 32;
      A->pages[i].page = b_upblock(by, al); A->pages[i].bytes = by; A->pages[i].alignment = al;
      r->_space_allocated += by;
    }
    r->_space_allocated += payload + SZ_OA;
    older = A; r->_last_oversize_page_array = A; r->_last_oversize_page_pointer = &A->pages[first];
  }
}
/* destroy-task arrays are ordinary blocks of the resource: they live inside pages; here inside the newest recorded page */
static void b_build_tasks(R_t *r) {
  unsigned n = nondet_uint(); __CPROVER_assume(n <= B_MAXARR);
  r->_last_destroy_task_array = 0; r->_last_destroy_task_pointer = (DT_t *)8;
  char *host = (char *)malloc(2 * sizeof(DA_t));   /* stands for page memory holding the two blocks */
  unsigned total = 0; unsigned firsts[2];
  for (unsigned a = 0; a < n; ++a) { firsts[a] = (a + 1 == n) ? nondet_uint() : 0; __CPROVER_assume(firsts[a] <= 14); total += 15 - firsts[a]; }
  DA_t *older = 0; unsigned seq = total;
  for (unsigned a = 0; a < n; ++a) {
    DA_t *A = (DA_t *)(host + a * sizeof(DA_t));          /* 2 * 248 <= 512 */
    A->next = older;
    /* iteration order of destruct_all: newest array first, ascending index; number the tasks in that order */
    unsigned base = 0; for (unsigned b = a + 1; b < n; ++b) base += 15 - firsts[b];
    for (unsigned i = firsts[a]; i < 15; ++i) { A->tasks[i].ptr = (void *)(size_t)(base + (i - firsts[a])); A->tasks[i].destructor = b_dtor; }
    older = A; r->_last_destroy_task_array = A; r->_last_destroy_task_pointer = &A->tasks[firsts[a]];
  }
  b_dtor_expected = total;
}
static void b_null_pages(R_t *r) { r->_last_page_array = 0; r->_last_page_pointer = VF_NULL_LPP; r->_free_begin = r->_free_end = 0; }
static void b_null_oversize(R_t *r) { r->_last_oversize_page_array = 0; r->_last_oversize_page_pointer = VF_NULL_OPP; }
static void b_null_tasks(R_t *r) { r->_last_destroy_task_array = 0; r->_last_destroy_task_pointer = (DT_t *)8; }
static void b_check_after_release(R_t *r) {
  __CPROVER_assert(b_dtor_calls == b_dtor_expected, "K1 C06.release every registered destructor ran");
  __CPROVER_assert(b_pages_freed == b_pages_made, "K1 C06.release every page went back to the page allocator exactly once");
  __CPROVER_assert(b_blocks_freed == b_blocks_made, "K1 C06.release every oversize block went back upstream exactly once");
  __CPROVER_assert(r->_last_page_array == 0 && r->_last_page_pointer == VF_NULL_LPP && r->_free_begin == 0 && r->_free_end == 0, "K2 C06.release pages part back in the null state");
  __CPROVER_assert(r->_last_oversize_page_array == 0 && r->_last_oversize_page_pointer == VF_NULL_OPP, "K2 C06.release oversize part back in the null state");
  __CPROVER_assert(r->_last_destroy_task_array == 0 && r->_last_destroy_task_pointer == (DT_t *)8, "K2 C06.release destroy-task part back in the null state (reusable)");
  __CPROVER_assert(r->_space_used == 0 && r->_space_allocated == 0, "K1 C06.release accounting is zero");
}
void h_release_pages(void) {
  R_t res; R_t *r = &res; r->_space_allocated = 0;
  b_build_pages(r); b_null_oversize(r); b_null_tasks(r); r->_space_used = nondet_size_t();
  ExclusiveMonotonicBufferResource_release(r);
  b_check_after_release(r);
  __CPROVER_assert(0, "VF_VACUITY_TWIN lemma reachable (must fail)");
}
void h_release_oversize(void) {
  R_t res; R_t *r = &res; r->_space_allocated = 0;
  b_null_pages(r); b_build_oversize(r); b_null_tasks(r); r->_space_used = nondet_size_t();
  ExclusiveMonotonicBufferResource_release(r);
  b_check_after_release(r);
  __CPROVER_assert(0, "VF_VACUITY_TWIN lemma reachable (must fail)");
}
void h_release_tasks(void) {
  R_t res; R_t *r = &res; r->_space_allocated = 0;
  b_null_pages(r); b_null_oversize(r); b_build_tasks(r); r->_space_used = nondet_size_t();
  ExclusiveMonotonicBufferResource_release(r);
  b_check_after_release(r);
  __CPROVER_assert(0, "VF_VACUITY_TWIN lemma reachable (must fail)");
}
#endif
#endif
