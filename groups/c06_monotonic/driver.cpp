// driver TU for C06: no logic, only pulls the real translation unit in and forces the template instantiations
#include "babylon/reusable/memory_resource.cpp"
namespace babylon_vf {
void* force_allocate_8(::babylon::ExclusiveMonotonicBufferResource& r, size_t n) { return r.allocate<8>(n); }
void* force_allocate(::babylon::ExclusiveMonotonicBufferResource& r, size_t n, size_t a) { return r.allocate(n, a); }
void force_reg(::babylon::ExclusiveMonotonicBufferResource& r, void* p, void (*d)(void*)) { r.register_destructor(p, d); }
}
