E = 'babylon::ExclusiveMonotonicBufferResource::'
X = 'ExclusiveMonotonicBufferResource_'
PA_STUBS = ['PageAllocator_page_size', 'PageAllocator_allocate__void']
ADDER = [X + 'oversize_page_concurrent_adder', 'GenericsConcurrentAdder_L_long_R_op_shl__int']
CASES4 = [('nn', '(!g_live && !g_olive)'), ('ln', '(g_live && !g_olive)'), ('nl', '(!g_live && g_olive)'), ('ll', '(g_live && g_olive)')]
CASES_P = [('n', '(!g_live)'), ('l', '(g_live)')]
CASES_O = [('n', '(!g_olive)'), ('l', '(g_olive)')]


def split(base, cases):
    out = []
    for tag, cond in cases:
        j = dict(base)
        j['id'] = base['id'] + '.' + tag
        j['defines'] = list(base.get('defines', ())) + ['VF_CASE ' + cond]
        j['case'] = cond
        out.append(j)
    return out


JOBS = [
    dict(id='C06.new_page_array', enforce=X + 'do_allocate_with_page_in_new_page_array', replace=PA_STUBS, timeout=1500),
    dict(id='C06.oversize', enforce=X + 'do_allocate_in_oversize_page', replace=['std_pmr_memory_resource_allocate'] + ADDER, timeout=1500),
    dict(id='C06.new_page', enforce=X + 'do_allocate_in_new_page',
         replace=PA_STUBS + [X + 'do_allocate_with_page_in_new_page_array', X + 'do_allocate_in_oversize_page'], timeout=1500),
    dict(id='C06.allocate', enforce=X + 'allocate__u64_u64', replace=[X + 'do_allocate_in_new_page'], timeout=1500),
    dict(id='C06.release.pages.bounded', harness='h_release_pages', defines=['VF_BOUNDED_RELEASE 1'], unwind=5, timeout=1500, object_bits=9,
         bounded='page size 256; <=1 PageArray holding 1..3 pages, hosted at the start/end of its newest/oldest page; unwind 5'),
    dict(id='C06.release.oversize.bounded', harness='h_release_oversize', defines=['VF_BOUNDED_RELEASE 1'], unwind=5, timeout=1500, object_bits=9,
         bounded='<=1 OversizePageArray holding 1..3 blocks, hosted in the block that created it; block sizes 24/40, alignments 8/32; unwind 5'),
    dict(id='C06.release.tasks.bounded', harness='h_release_tasks', defines=['VF_BOUNDED_RELEASE 1'], unwind=17, timeout=1500, object_bits=9, mem_gb=40,
         bounded='<=1 DestroyTaskArray filled to any level; unwind 17'),
    dict(id='C06.release.tasks.bounded2', harness='h_release_tasks', defines=['VF_BOUNDED_RELEASE 1', 'B_MAXARR 2'], unwind=17, timeout=3000, object_bits=9, mem_gb=40, tier='thorough',
         bounded='<=2 DestroyTaskArrays (newest filled to any level, older full); unwind 17'),
    # (C06.release.pages.bounded2 / oversize.bounded2 -- two chained arrays -- ran the SAT solver out of 40 GB even when run alone: removed, see DESIGN 0.5)
    dict(id='C06.allocate8', enforce=X + 'allocate__8', replace=[X + 'do_allocate_in_new_page'], timeout=1500),
]

GROUP = dict(
    prop='C06',
    driver='driver.cpp',
    spec='spec.h',
    extern_re=[r'ConcurrentAdder', r'oversize_page_concurrent_adder'],
    outside_methods={'std::pmr::memory_resource': ['allocate', 'deallocate']},
    roots=[E + 'allocate', E + 'do_allocate_already_aligned', E + 'do_allocate_in_new_page',
           E + 'do_allocate_with_page_in_new_page_array', E + 'do_allocate_in_oversize_page',
           E + 'get_destroy_task', E + 'register_destructor', E + 'do_get_destroy_task_in_new_array',
           E + 'destruct_all', E + 'release', E + 'contains', {'name': E + 'operator=', 'sig': 'ExclusiveMonotonicBufferResource &&'}],
    reviewed_compiler_conditionals=[],
    assumptions=[
        'PageAllocator::allocate returns a fresh page of page_size() bytes aligned to page_size(); page_size() is a constant power of two in [128, 2^20] (contract stub)',
        'std::pmr::memory_resource::allocate(b,a) returns a fresh block of b bytes aligned to a (contract stub)',
        'requests: bytes <= 2^40, alignment a power of two <= 2^32 (recorded preconditions; result+bytes must not wrap)',
        'CBMC pointer encoding: a fresh object has offset 0, so base addresses are aligned to any power of two below 2^52',
    ],
    jobs=JOBS,
)
