V = 'babylon::ReusableVector<long, babylon::MonotonicAllocator<long>>'
AL = 'babylon::MonotonicAllocator<long>'
GROUP = dict(
    prop='C12',
    driver='driver.cpp',
    spec='spec.h',
    aliases=[(V, 'Vec'), (AL, 'Alloc'), ('babylon_vf::', '')],
    extern_re=[r'MonotonicAllocator<long.*>::(allocate|construct|destroy)$', r'BasicMonotonicAllocator<long.*>::(allocate|construct|destroy)$'],
    roots=[V + '::reserve', V + '::clear', V + '::emplace_back', V + '::pop_back', V + '::resize', V + '::erase', V + '::emplace', V + '::prepare_for_insert', V + '::swap', V + '::insert', V + '::assign'],
    # only the defaulted default constructor of the allocator depends on it (libstdc++ std::string quirk); the vector functions under contract never default-construct an allocator
    reviewed_compiler_conditionals=['src/babylon/reusable/allocator.h:#if __GLIBCXX__ && (__clang__ || !_GLIBCXX_USE_CXX11_ABI)'],
    assumptions=['MonotonicAllocator::allocate returns a fresh block of n elements; construct stores the value (value-initialisation stores 0); destroy of a long does nothing (contract stubs)',
                 'capacity below 2^24 elements (model bound on a symbolic size, no unwinding); element type long'],
    jobs=[
        dict(id='C12.clear', enforce='Vec_clear', backend='cadical'),
        dict(id='C12.pop_back', enforce='Vec_pop_back', backend='cadical'),
        dict(id='C12.reserve', enforce='Vec_reserve', loops=True, backend='cadical'),
        dict(id='C12.emplace_back', enforce='Vec_emplace_back__longRef_void', loops=True, backend='cadical'),
        dict(id='C12.resize', enforce='Vec_resize__u64', loops=True, backend='cadical'),
        dict(id='C12.erase', enforce='Vec_erase__i64P_i64P', loops=True, backend='cadical'),
        dict(id='C12.prepare_for_insert', enforce='Vec_prepare_for_insert', loops=True, backend='cadical', timeout=600),
        dict(id='C12.emplace', enforce='Vec_emplace__longRef_void', loops=True, backend='cadical', timeout=600),
        dict(id='C12.resize.value', enforce='Vec_resize__long', loops=True, backend='cadical', covers=['a1 > 5 && g_k < a1 && g_k > 2']),
        dict(id='C12.insert.n', enforce='Vec_insert__long', loops=True, backend='cadical', timeout=600, covers=['a2 > 3']),
        dict(id='C12.swap', enforce='Vec_swap', backend='cadical'),
        dict(id='C12.assign.n', enforce='Vec_assign__u64', loops=True, backend='cadical', timeout=600, covers=['a1 > 5 && g_k < a1 && g_k > 2', 'a1 > g_cap0']),
    ],
)
