// driver TU for C12 (vector core): ReusableVector<long, SwissAllocator<long>>
#include "babylon/reusable/vector.h"
namespace babylon_vf {
using Vec = ::babylon::ReusableVector<long>;
long force(Vec& v, Vec& w, long x) {
  v.reserve(10); v.emplace_back(x); v.push_back(x); v.pop_back(); v.resize(5); v.resize(7, x); v.clear();
  v.emplace(v.begin(), x); v.insert(v.begin(), x); v.erase(v.begin()); v.erase(v.begin(), v.end()); v.swap(w); v.assign(3ul); v.insert(v.begin(), 2ul, x); v.assign(4ul, x);
  return v[0] + v.front() + v.back() + (long)v.size() + (long)v.capacity() + (v.empty() ? 1 : 0);
}
}
