/* C12 (vector core) -- ReusableVector<long, MonotonicAllocator<long>>: the element sequence behaves like std::vector's, and logical
 * clearing / shrinking keeps what was acquired.
 * Representation invariant VINV: _size <= _constructed_size <= _capacity, _data holds _capacity elements.
 * Abstract view: the first _size elements.  Postconditions are stated for arbitrary ghost positions (g_k, and the entry value g_old_k
 * bound by the precondition), which makes them hold for every position: the view after the call is the std::vector result.
 * Reuse clauses: clear / pop_back / erase / resize-down never change _capacity, _constructed_size or _data and never allocate;
 * growing allocates exactly once and only when the capacity is exceeded, and never loses constructed elements.
 * The allocator's element operations are contract stubs (allocate: a fresh block of n elements; construct: store; destroy of long: nothing). */
#ifndef C12_SPEC_H
#define C12_SPEC_H
#include <stdint.h>
#include <stdlib.h>
unsigned long nondet_u64(void); long nondet_long(void);
typedef struct Vec Vec_t;
typedef struct MonotonicAllocator_L_long_babylon_MonotonicBufferResource_R Alloc_t;
#define CAP_MAX (1UL << 24)
long *g_data; size_t g_cap0;            /* the vector's storage at entry (typed: cbmc types malloc(n * sizeof(long)) as long[n]) */
long *g_new; size_t g_allocs, g_alloc_n;
size_t g_k; long g_old_k;               /* an arbitrary position and its value at entry */
size_t g_k2; long g_old_k2;             /* a second arbitrary position (source of a shift) */
size_t g_j;                             /* a third arbitrary position (inside a filled gap) */
static void vf_havoc_ghosts(void) {
  g_cap0 = nondet_u64(); __CPROVER_assume(g_cap0 < CAP_MAX);
  g_data = malloc((g_cap0 + 1) * sizeof(long)); __CPROVER_assume(g_data != 0);
  g_allocs = 0; g_j = nondet_u64(); g_k = nondet_u64(); g_k2 = nondet_u64(); g_old_k = nondet_long(); g_old_k2 = nondet_long();
}
long *MonotonicAllocator_L_long_babylon_MonotonicBufferResource_R_allocate__u64(Alloc_t *a, unsigned long num) {
  __CPROVER_assert(num >= 1 && num < 2 * CAP_MAX, "C12 model: allocation size within the modelled range");
  g_new = malloc(num * sizeof(long)); __CPROVER_assume(g_new != 0);
  __CPROVER_assume(g_allocs < 1000); g_allocs++; g_alloc_n = num;
  return g_new;
}
void MonotonicAllocator_L_long_babylon_MonotonicBufferResource_R_construct__long_long_0(Alloc_t *a, long *p, long *v) { *p = *v; }
void MonotonicAllocator_L_long_babylon_MonotonicBufferResource_R_construct__long_longRef_0(Alloc_t *a, long *p, long *v) { *p = *v; }
void MonotonicAllocator_L_long_babylon_MonotonicBufferResource_R_construct__long_const_longRef_0(Alloc_t *a, long *p, long *v) { *p = *v; }
void MonotonicAllocator_L_long_babylon_MonotonicBufferResource_R_construct__long_x_0(Alloc_t *a, long *p) { *p = 0; }     /* value-initialisation */
void BasicMonotonicAllocator_L_long_Alloc_R_destroy__long(struct BasicMonotonicAllocator_L_long_Alloc_R *a, long *p) { }

#define VINV(v) ((v)->_size <= (v)->_constructed_size && (v)->_constructed_size <= (v)->_capacity)
#define SHAPE(v) (__CPROVER_is_fresh(v, sizeof(*v)) && (v)->_capacity == g_cap0 && __CPROVER_pointer_equals((v)->_data, g_data) && VINV(v))
#define KEEPS(v) ((v)->_capacity == g_cap0 && (v)->_data == g_data && g_allocs == 0)
#define MAXU(a, b) ((a) < (b) ? (b) : (a))

void Vec_clear(Vec_t *v)
__CPROVER_requires(SHAPE(v))
__CPROVER_assigns(v->_size)
__CPROVER_ensures(v->_size == 0 && v->_constructed_size == __CPROVER_old(v->_constructed_size) && KEEPS(v) && VINV(v))
;
void Vec_pop_back(Vec_t *v)
__CPROVER_requires(SHAPE(v) && v->_size > 0)
__CPROVER_assigns(v->_size)
__CPROVER_ensures(v->_size == __CPROVER_old(v->_size) - 1 && v->_constructed_size == __CPROVER_old(v->_constructed_size) && KEEPS(v) && VINV(v))
;
/* reserve(n): no-op when the capacity suffices; otherwise one allocation of exactly n and every constructed element carried over */
void Vec_reserve(Vec_t *v, unsigned long n)
__CPROVER_requires(SHAPE(v) && n < 2 * CAP_MAX && g_allocs == 0 && (g_k >= v->_constructed_size || g_old_k == v->_data[g_k]) && (g_k2 >= v->_constructed_size || g_old_k2 == v->_data[g_k2]))
__CPROVER_assigns(v->_data, v->_capacity, g_new, g_allocs, g_alloc_n)
__CPROVER_ensures(v->_size == __CPROVER_old(v->_size) && v->_constructed_size == __CPROVER_old(v->_constructed_size) && VINV(v))
__CPROVER_ensures(n <= g_cap0 ==> KEEPS(v))
__CPROVER_ensures(n > g_cap0 ==> (g_allocs == 1 && g_alloc_n == n && v->_capacity == n && v->_data == g_new))
__CPROVER_ensures(g_k < v->_constructed_size ==> v->_data[g_k] == g_old_k)
__CPROVER_ensures(g_k2 < v->_constructed_size ==> v->_data[g_k2] == g_old_k2)
;
//@loop Vec_reserve 1
//@  __CPROVER_assigns(@l2:i@, __CPROVER_object_whole(@l1:new_data@))
//@  __CPROVER_loop_invariant(@l2:i@ <= self->_constructed_size && (g_k < @l2:i@ ==> @l1:new_data@[g_k] == g_old_k) && (g_k2 < @l2:i@ ==> @l1:new_data@[g_k2] == g_old_k2))
//@  __CPROVER_decreases(self->_constructed_size - @l2:i@)
//@end

/* emplace_back(x): the view grows by exactly x at the end; nothing else moves; capacity never shrinks */
void Vec_emplace_back__longRef_void(Vec_t *v, long *x)
__CPROVER_requires(SHAPE(v) && __CPROVER_is_fresh(x, sizeof(long)) && g_allocs == 0 && (g_k >= v->_constructed_size || g_old_k == v->_data[g_k]) && (g_k2 >= v->_constructed_size || g_old_k2 == v->_data[g_k2]))
__CPROVER_assigns(v->_data, v->_capacity, v->_size, v->_constructed_size, g_new, g_allocs, g_alloc_n, __CPROVER_object_whole(g_data))
__CPROVER_ensures(v->_size == __CPROVER_old(v->_size) + 1 && VINV(v) && v->_capacity >= g_cap0)
__CPROVER_ensures(v->_data[v->_size - 1] == *x)
__CPROVER_ensures(g_k < v->_size - 1 ==> v->_data[g_k] == g_old_k)
__CPROVER_ensures(v->_constructed_size == MAXU(__CPROVER_old(v->_constructed_size), v->_size))
__CPROVER_ensures(__CPROVER_old(v->_size) < g_cap0 ==> KEEPS(v))                                  /* reuse: no new memory while the capacity suffices */
;
/* resize(n): the first min(old size, n) elements stay, new elements are value-initialised (0); shrinking keeps everything acquired */
void Vec_resize__u64(Vec_t *v, unsigned long n)
__CPROVER_requires(SHAPE(v) && n < CAP_MAX && g_allocs == 0 && (g_k >= v->_constructed_size || g_old_k == v->_data[g_k]) && (g_k2 >= v->_constructed_size || g_old_k2 == v->_data[g_k2]))
__CPROVER_assigns(v->_data, v->_capacity, v->_size, v->_constructed_size, g_new, g_allocs, g_alloc_n, __CPROVER_object_whole(g_data))
__CPROVER_ensures(v->_size == n && VINV(v) && v->_capacity >= g_cap0)
__CPROVER_ensures((g_k < n && g_k < __CPROVER_old(v->_size)) ==> v->_data[g_k] == g_old_k)
__CPROVER_ensures((g_k < n && g_k >= __CPROVER_old(v->_size)) ==> v->_data[g_k] == 0)
__CPROVER_ensures(n <= g_cap0 ==> KEEPS(v))
__CPROVER_ensures(v->_constructed_size == MAXU(__CPROVER_old(v->_constructed_size), n))
;
//@loop Vec_resize__u64 1
//@  __CPROVER_assigns(@l2:i@, __CPROVER_object_whole(self->_data))
//@  __CPROVER_loop_invariant(self->_size <= @l2:i@ && @l2:i@ <= @l1:reconstruct_end_size@)
//@  __CPROVER_loop_invariant((g_k < self->_size) ==> self->_data[g_k] == __CPROVER_loop_entry(self->_data[g_k]))
//@  __CPROVER_loop_invariant((g_k >= self->_size && g_k < @l2:i@) ==> self->_data[g_k] == 0)
//@  __CPROVER_decreases(@l1:reconstruct_end_size@ - @l2:i@)
//@end
//@loop Vec_resize__u64 2
//@  __CPROVER_assigns(@l3:i_2@, self->_constructed_size, __CPROVER_object_whole(self->_data))
//@  __CPROVER_loop_invariant(@l1:reconstruct_end_size@ <= @l3:i_2@ && @l3:i_2@ <= @p1:count@ && self->_constructed_size == __CPROVER_loop_entry(self->_constructed_size) + (@l3:i_2@ - @l1:reconstruct_end_size@))
//@  __CPROVER_loop_invariant((g_k < @l1:reconstruct_end_size@) ==> self->_data[g_k] == __CPROVER_loop_entry(self->_data[g_k]))
//@  __CPROVER_loop_invariant((g_k >= @l1:reconstruct_end_size@ && g_k < @l3:i_2@) ==> self->_data[g_k] == 0)
//@  __CPROVER_decreases(@p1:count@ - @l3:i_2@)
//@end

/* erase(first, last): the view loses exactly [first, last); everything behind moves down by last - first; nothing acquired is given up */
long *Vec_erase__i64P_i64P(Vec_t *v, long *first, long *last)
__CPROVER_requires(SHAPE(v) && __CPROVER_pointer_in_range_dfcc(g_data, first, g_data + v->_size) && __CPROVER_pointer_in_range_dfcc(first, last, g_data + v->_size))
__CPROVER_requires((size_t)__CPROVER_POINTER_OFFSET(first) % sizeof(long) == 0 && (size_t)__CPROVER_POINTER_OFFSET(last) % sizeof(long) == 0)
__CPROVER_requires((g_k >= v->_size || g_old_k == v->_data[g_k]) && g_k2 == g_k + (size_t)(last - first) && (g_k2 >= v->_size || g_old_k2 == v->_data[g_k2]))
__CPROVER_assigns(v->_size, __CPROVER_object_whole(g_data))
__CPROVER_ensures(__CPROVER_return_value == first && v->_size == __CPROVER_old(v->_size) - (size_t)(last - first) && v->_constructed_size == __CPROVER_old(v->_constructed_size) && KEEPS(v) && VINV(v))
__CPROVER_ensures((g_k < (size_t)(first - g_data)) ==> v->_data[g_k] == g_old_k)
__CPROVER_ensures((g_k >= (size_t)(first - g_data) && g_k < v->_size) ==> v->_data[g_k] == g_old_k2)
;
//@loop Vec_erase__i64P_i64P 1
//@  VF_REBASE(@l1:dest@, g_data)
//@  VF_REBASE(@l2:src@, g_data)
//@  __CPROVER_assigns(@l1:dest@, @l2:src@, __CPROVER_object_whole(g_data))
//@  __CPROVER_loop_invariant(__CPROVER_same_object(@l2:src@, g_data) && __CPROVER_same_object(@l1:dest@, g_data) && (size_t)__CPROVER_POINTER_OFFSET(@l2:src@) <= self->_size * sizeof(long) && (size_t)__CPROVER_POINTER_OFFSET(@l2:src@) % sizeof(long) == 0 && (size_t)__CPROVER_POINTER_OFFSET(@l1:dest@) % sizeof(long) == 0 && (size_t)__CPROVER_POINTER_OFFSET(@l1:dest@) <= self->_size * sizeof(long))
//@  __CPROVER_loop_invariant(@p2:last@ <= @l2:src@ && (size_t)(@l2:src@ - @l1:dest@) == (size_t)(@p2:last@ - @p1:first@) && @p1:first@ <= @l1:dest@)
//@  __CPROVER_loop_invariant((g_k < (size_t)(@p1:first@ - g_data)) ==> g_data[g_k] == g_old_k)
//@  __CPROVER_loop_invariant((g_k >= (size_t)(@p1:first@ - g_data) && g_k < (size_t)(@l1:dest@ - g_data)) ==> g_data[g_k] == g_old_k2)
//@  __CPROVER_loop_invariant((g_k2 >= (size_t)(@l2:src@ - g_data) && g_k2 < self->_size) ==> g_data[g_k2] == g_old_k2)
//@end

/* prepare_for_insert(index, count): opens a gap of count elements at index: elements before index stay, elements from index on move
 * up by count (position g_k2 -> g_k = g_k2 + count); returns how far the gap consists of already constructed elements */
unsigned long Vec_prepare_for_insert(Vec_t *v, unsigned long index, unsigned long count)
__CPROVER_requires(SHAPE(v) && index <= v->_size && count >= 1 && count < CAP_MAX && v->_size + count < CAP_MAX && g_allocs == 0)
__CPROVER_requires((g_k2 >= v->_constructed_size || g_old_k2 == v->_data[g_k2]) && g_k == g_k2 + count && (g_k >= v->_constructed_size || g_old_k == v->_data[g_k]))
__CPROVER_assigns(v->_data, v->_capacity, v->_size, v->_constructed_size, g_new, g_allocs, g_alloc_n, __CPROVER_object_whole(g_data))
__CPROVER_ensures(v->_size == __CPROVER_old(v->_size) + count && v->_capacity >= g_cap0 && v->_size <= v->_capacity)
__CPROVER_ensures(__CPROVER_return_value == (index + count < __CPROVER_old(v->_constructed_size) ? index + count : __CPROVER_old(v->_constructed_size)))
/* elements moved beyond the constructed prefix are constructed there; the gap itself (if beyond the prefix) is left to the caller */
__CPROVER_ensures(v->_constructed_size == __CPROVER_old(v->_constructed_size) + (v->_size > MAXU(index + count, __CPROVER_old(v->_constructed_size)) ? v->_size - MAXU(index + count, __CPROVER_old(v->_constructed_size)) : 0))
__CPROVER_ensures(index + count <= __CPROVER_old(v->_constructed_size) ==> VINV(v))
__CPROVER_ensures(g_k2 < index ==> v->_data[g_k2] == g_old_k2)                                        /* before the gap: unchanged */
__CPROVER_ensures((g_k2 >= index && g_k2 < __CPROVER_old(v->_size)) ==> v->_data[g_k] == g_old_k2)      /* behind the gap: moved up by count */
__CPROVER_ensures(__CPROVER_old(v->_size) + count <= g_cap0 ==> KEEPS(v))
;
//@loop Vec_prepare_for_insert 1
//@  __CPROVER_assigns(@l3:i@, self->_constructed_size, __CPROVER_object_whole(self->_data))
//@  __CPROVER_loop_invariant(@l3:i@ <= self->_size + @p2:count@ && (@l1:move_end_size@ <= @l3:i@ || @l3:i@ == self->_size + @p2:count@) && self->_constructed_size == __CPROVER_loop_entry(self->_constructed_size) + (self->_size + @p2:count@ - @l3:i@))
//@  __CPROVER_loop_invariant((g_k2 < @l3:i@ && g_k2 < self->_size) ==> self->_data[g_k2] == g_old_k2)
//@  __CPROVER_loop_invariant((g_k >= @l3:i@ && g_k < self->_size + @p2:count@ && g_k2 >= @p1:index@) ==> self->_data[g_k] == g_old_k2)
//@  __CPROVER_decreases(@l3:i@)
//@end
//@loop Vec_prepare_for_insert 2
//@  __CPROVER_assigns(@l4:i_2@, __CPROVER_object_whole(self->_data))
//@  __CPROVER_loop_invariant(@p1:index@ + @p2:count@ <= @l4:i_2@ && @l4:i_2@ <= @l1:move_end_size@)
//@  __CPROVER_loop_invariant((g_k2 < @l4:i_2@ && g_k2 < self->_size) ==> self->_data[g_k2] == g_old_k2)
//@  __CPROVER_loop_invariant((g_k >= @l4:i_2@ && g_k < self->_size + @p2:count@ && g_k2 >= @p1:index@) ==> self->_data[g_k] == g_old_k2)
//@  __CPROVER_decreases(@l4:i_2@)
//@end

/* emplace(pos, x): the view gets x at pos, everything from pos on moves up by one */
long *Vec_emplace__longRef_void(Vec_t *v, long *pos, long *x)
__CPROVER_requires(SHAPE(v) && __CPROVER_is_fresh(x, sizeof(long)) && v->_size + 1 < CAP_MAX && g_allocs == 0 && __CPROVER_pointer_in_range_dfcc(g_data, pos, g_data + v->_size) && (size_t)__CPROVER_POINTER_OFFSET(pos) % sizeof(long) == 0)
__CPROVER_requires((g_k2 >= v->_constructed_size || g_old_k2 == v->_data[g_k2]) && g_k == g_k2 + 1 && (g_k >= v->_constructed_size || g_old_k == v->_data[g_k]))
__CPROVER_assigns(v->_data, v->_capacity, v->_size, v->_constructed_size, g_new, g_allocs, g_alloc_n, __CPROVER_object_whole(g_data))
__CPROVER_ensures(v->_size == __CPROVER_old(v->_size) + 1 && VINV(v) && v->_capacity >= g_cap0)
__CPROVER_ensures(__CPROVER_return_value == v->_data + (size_t)(pos - g_data) && *__CPROVER_return_value == *x)
__CPROVER_ensures(g_k2 < (size_t)(pos - g_data) ==> v->_data[g_k2] == g_old_k2)
__CPROVER_ensures((g_k2 >= (size_t)(pos - g_data) && g_k2 < __CPROVER_old(v->_size)) ==> v->_data[g_k] == g_old_k2)
__CPROVER_ensures(__CPROVER_old(v->_size) < g_cap0 ==> KEEPS(v))
;
void Vec_swap(Vec_t *v, Vec_t *o)
__CPROVER_requires(__CPROVER_is_fresh(v, sizeof(*v)) && __CPROVER_is_fresh(o, sizeof(*o)))
__CPROVER_assigns(v->_data, v->_capacity, v->_size, v->_constructed_size, o->_data, o->_capacity, o->_size, o->_constructed_size)
__CPROVER_ensures(v->_data == __CPROVER_old(o->_data) && v->_capacity == __CPROVER_old(o->_capacity) && v->_size == __CPROVER_old(o->_size) && v->_constructed_size == __CPROVER_old(o->_constructed_size))
__CPROVER_ensures(o->_data == __CPROVER_old(v->_data) && o->_capacity == __CPROVER_old(v->_capacity) && o->_size == __CPROVER_old(v->_size) && o->_constructed_size == __CPROVER_old(v->_constructed_size))
;

/* resize(n, value): like resize(n), the new elements are copies of value */
void Vec_resize__long(Vec_t *v, unsigned long n, long *value)
__CPROVER_requires(SHAPE(v) && __CPROVER_is_fresh(value, sizeof(long)) && n < CAP_MAX && g_allocs == 0 && (g_k >= v->_constructed_size || g_old_k == v->_data[g_k]) && (g_k2 >= v->_constructed_size || g_old_k2 == v->_data[g_k2]))
__CPROVER_assigns(v->_data, v->_capacity, v->_size, v->_constructed_size, g_new, g_allocs, g_alloc_n, __CPROVER_object_whole(g_data))
__CPROVER_ensures(v->_size == n && VINV(v) && v->_capacity >= g_cap0)
__CPROVER_ensures((g_k < n && g_k < __CPROVER_old(v->_size)) ==> v->_data[g_k] == g_old_k)
__CPROVER_ensures((g_k < n && g_k >= __CPROVER_old(v->_size)) ==> v->_data[g_k] == *value)
__CPROVER_ensures(n <= g_cap0 ==> KEEPS(v))
__CPROVER_ensures(v->_constructed_size == MAXU(__CPROVER_old(v->_constructed_size), n))
;
//@loop Vec_resize__long 1
//@  __CPROVER_assigns(@l2:i@, __CPROVER_object_whole(self->_data))
//@  __CPROVER_loop_invariant(self->_size <= @l2:i@ && @l2:i@ <= @l1:reconstruct_end_size@)
//@  __CPROVER_loop_invariant((g_k < self->_size) ==> self->_data[g_k] == __CPROVER_loop_entry(self->_data[g_k]))
//@  __CPROVER_loop_invariant((g_k >= self->_size && g_k < @l2:i@) ==> self->_data[g_k] == *@p2:value@)
//@  __CPROVER_decreases(@l1:reconstruct_end_size@ - @l2:i@)
//@end
//@loop Vec_resize__long 2
//@  __CPROVER_assigns(@l3:i_2@, self->_constructed_size, __CPROVER_object_whole(self->_data))
//@  __CPROVER_loop_invariant(@l1:reconstruct_end_size@ <= @l3:i_2@ && @l3:i_2@ <= @p1:count@ && self->_constructed_size == __CPROVER_loop_entry(self->_constructed_size) + (@l3:i_2@ - @l1:reconstruct_end_size@))
//@  __CPROVER_loop_invariant((g_k < @l1:reconstruct_end_size@) ==> self->_data[g_k] == __CPROVER_loop_entry(self->_data[g_k]))
//@  __CPROVER_loop_invariant((g_k >= @l1:reconstruct_end_size@ && g_k < @l3:i_2@) ==> self->_data[g_k] == *@p2:value@)
//@  __CPROVER_decreases(@p1:count@ - @l3:i_2@)
//@end

/* insert(pos, count, value): std::vector semantics for three arbitrary positions: before the gap unchanged, behind it moved up by
 * count, inside it a copy of value; checked against prepare_for_insert's contract */
long *Vec_insert__long(Vec_t *v, long *pos, unsigned long count, long *value)
__CPROVER_requires(SHAPE(v) && __CPROVER_is_fresh(value, sizeof(long)) && count >= 1 && count < CAP_MAX && v->_size + count < CAP_MAX && g_allocs == 0 && __CPROVER_pointer_in_range_dfcc(g_data, pos, g_data + v->_size) && (size_t)__CPROVER_POINTER_OFFSET(pos) % sizeof(long) == 0)
__CPROVER_requires((g_k2 >= v->_constructed_size || g_old_k2 == v->_data[g_k2]) && g_k == g_k2 + count && (g_k >= v->_constructed_size || g_old_k == v->_data[g_k]))
__CPROVER_assigns(v->_data, v->_capacity, v->_size, v->_constructed_size, g_new, g_allocs, g_alloc_n, __CPROVER_object_whole(g_data))
__CPROVER_ensures(v->_size == __CPROVER_old(v->_size) + count && VINV(v) && v->_capacity >= g_cap0)
__CPROVER_ensures(__CPROVER_return_value == v->_data + (size_t)(pos - g_data))
__CPROVER_ensures(g_k2 < (size_t)(pos - g_data) ==> v->_data[g_k2] == g_old_k2)
__CPROVER_ensures((g_k2 >= (size_t)(pos - g_data) && g_k2 < __CPROVER_old(v->_size)) ==> v->_data[g_k] == g_old_k2)
__CPROVER_ensures((g_j >= (size_t)(pos - g_data) && g_j < (size_t)(pos - g_data) + count) ==> v->_data[g_j] == *value)
__CPROVER_ensures(__CPROVER_old(v->_size) + count <= g_cap0 ==> KEEPS(v))
;
//@loop Vec_insert__long 1
//@  __CPROVER_assigns(@l3:i@, __CPROVER_object_whole(self->_data))
//@  __CPROVER_loop_invariant(@l1:index@ <= @l3:i@ && @l3:i@ <= @l2:reconstruct_end_size@ && @l2:reconstruct_end_size@ <= @l1:index@ + @p2:count@)
//@  __CPROVER_loop_invariant((g_k2 < @l1:index@) ==> self->_data[g_k2] == __CPROVER_loop_entry(self->_data[g_k2]))
//@  __CPROVER_loop_invariant((g_k >= @l1:index@ + @p2:count@ && g_k < self->_size) ==> self->_data[g_k] == __CPROVER_loop_entry(self->_data[g_k]))
//@  __CPROVER_loop_invariant((g_j >= @l1:index@ && g_j < @l3:i@) ==> self->_data[g_j] == *@p3:value@)
//@  __CPROVER_decreases(@l2:reconstruct_end_size@ - @l3:i@)
//@end
//@loop Vec_insert__long 2
//@  __CPROVER_assigns(@l4:i_2@, self->_constructed_size, __CPROVER_object_whole(self->_data))
//@  __CPROVER_loop_invariant(@l2:reconstruct_end_size@ <= @l4:i_2@ && @l4:i_2@ <= @l1:index@ + @p2:count@ && self->_constructed_size == __CPROVER_loop_entry(self->_constructed_size) + (@l4:i_2@ - @l2:reconstruct_end_size@))
//@  __CPROVER_loop_invariant((g_k2 < @l1:index@) ==> self->_data[g_k2] == __CPROVER_loop_entry(self->_data[g_k2]))
//@  __CPROVER_loop_invariant((g_k >= @l1:index@ + @p2:count@ && g_k < self->_size) ==> self->_data[g_k] == __CPROVER_loop_entry(self->_data[g_k]))
//@  __CPROVER_loop_invariant((g_j >= @l1:index@ && g_j < @l4:i_2@) ==> self->_data[g_j] == *@p3:value@)
//@  __CPROVER_decreases(@l1:index@ + @p2:count@ - @l4:i_2@)
//@end
/* assign(n) (= clear(); resize(n)): the result is n value-initialised elements whatever the vector held; storage is reused when the
 * capacity suffices (no allocation, same block, constructed prefix kept) */
void Vec_assign__u64(Vec_t *v, unsigned long n)
__CPROVER_requires(SHAPE(v) && n < CAP_MAX && g_allocs == 0 && (g_k >= v->_constructed_size || g_old_k == v->_data[g_k]) && (g_k2 >= v->_constructed_size || g_old_k2 == v->_data[g_k2]))
__CPROVER_assigns(v->_data, v->_capacity, v->_size, v->_constructed_size, g_new, g_allocs, g_alloc_n, __CPROVER_object_whole(g_data))
__CPROVER_ensures(v->_size == n && VINV(v) && v->_capacity >= g_cap0)
__CPROVER_ensures(g_k < n ==> v->_data[g_k] == 0)
__CPROVER_ensures(n <= g_cap0 ==> KEEPS(v))
__CPROVER_ensures(n > g_cap0 ==> (g_allocs == 1 && v->_data == g_new))
__CPROVER_ensures(v->_constructed_size == MAXU(__CPROVER_old(v->_constructed_size), n))
;
#endif
