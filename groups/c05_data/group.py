GD = 'babylon::anyflow::GraphData'
GROUP = dict(
    prop='C05',
    driver='driver.cpp',
    spec='spec.h',
    aliases=[(GD, 'Data'), ('babylon::anyflow::', ''), ('babylon::', '')],
    opaque_by_value=['std::string', 'std::basic_string<char>', 'std::vector<babylon::anyflow::GraphVertex*>', 'std::vector<babylon::anyflow::GraphDependency*>', 'babylon::Any', 'std::function<void(babylon::Any&)>'],
    outside_methods={'std::function<void(babylon::Any&)>': ['operator()']},
    opaque_records=['babylon::anyflow::ClosureContext', 'babylon::anyflow::GraphVertex', 'babylon::anyflow::Graph', 'babylon::anyflow::GraphExecutor', 'babylon::anyflow::GraphDependency', 'babylon::Id'],
    roots=[GD + '::reset'],
    reviewed_compiler_conditionals=[],
    assumptions=['the on-reset callback (a function pointer chosen by the declared type) is an arbitrary function of the value holder only'],
    jobs=[
        dict(id='C05.data.reset', enforce='Data_reset', backend='cadical'),
    ],
)
