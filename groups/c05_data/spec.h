/* C05 (reset of a data node) -- GraphData::reset.  "After reset() the same graph instance gives the same guarantees again": the
 * run-time protocol of a data node (acquire once, publish once by sealing the closure, dependency state, producer countdown) starts
 * from the state a freshly built node has (the default member initialisers in data.h).  reset() must bring every run-time field back
 * to that state, keep the built wiring, and hand the value holder to the on-reset callback exactly once. */
#ifndef C05D_SPEC_H
#define C05D_SPEC_H
#include <stdint.h>
unsigned g_on_reset_calls; struct Any *g_on_reset_arg;
static void vf_havoc_ghosts(void) { g_on_reset_calls = 0; g_on_reset_arg = 0; }
void vf_atomic_store_bool(_Bool *p, _Bool v, int order, int site) { *p = v; }
void vf_atomic_store_ptr(void **p, void *v, int order, int site) { *p = v; }
void vf_atomic_store_i32(int *p, int v, int order, int site) { *p = v; }
void vf_atomic_store_u32(unsigned int *p, unsigned int v, int order, int site) { *p = v; }
void std_function_L_void_AnyRef_R_op_call(struct std_function_L_void_AnyRef_R *f, struct Any *a) { g_on_reset_calls++; g_on_reset_arg = a; }
void Data_reset(struct Data *d)
__CPROVER_requires(__CPROVER_is_fresh(d, sizeof(*d)))
__CPROVER_assigns(d->_acquired, d->_empty, d->_has_preset_value, d->_active, d->_closure, d->_depend_state, d->_producer_done_num, g_on_reset_calls, g_on_reset_arg)
__CPROVER_ensures(!d->_acquired && d->_empty && !d->_has_preset_value && !d->_active && d->_closure == 0 && d->_depend_state == 0 && d->_producer_done_num == 0)
__CPROVER_ensures(g_on_reset_calls == 1 && g_on_reset_arg == &d->_data)
;
#endif
