// driver TU for C05 (reset of a data node): GraphData::reset, defined inline in data.hpp (included through data.h)
#include "babylon/anyflow/data.h"
