/* C17 (batch allocator) -- BatchPageAllocator::allocate(): one page per call out of a per-thread buffer that is refilled from
 * upstream `batch` pages at a time.  "Nothing handed out by allocate is simultaneously cached ... pages obtained from upstream minus
 * pages returned equals pages held by callers plus pages cached":
 *   cached path  the page at the cursor is returned and the cursor moves past it (handed out once);
 *   refill path  (cursor at the end) upstream writes exactly `batch` pages into the thread's buffer, which must have room for exactly
 *                that many -- whatever state the slot is in: built by set_batch_size's constructor, DEFAULT-constructed (an allocator
 *                used with its default batch size 16 and no set_batch_size call), or built for an earlier batch size --; the first
 *                page of the batch is returned and the cursor stands behind it, so exactly batch-1 fresh pages are cached.
 * std::vector<void*> is a ghost stub (typed array, length, resize); its iterators are pointers. */
#ifndef C17B_SPEC_H
#define C17B_SPEC_H
#include <stdint.h>
#include <stdlib.h>
unsigned long nondet_u64(void);
typedef struct BatchPageAllocator BPA_t;
typedef struct BatchPageAllocator_Slot BSlot_t;
#define TOKEN(k) ((void *)(0x100000UL + 4096 * (k)))
void **g_buf; size_t g_cap, g_bsz, g_pos;         /* the thread's buffer (typed, capacity of the model), its length, the cursor */
BSlot_t *g_local; size_t g_f; void *g_old_at_pos;
unsigned long g_slots_total, g_slots_seen; unsigned g_store_dtors; _Bool g_seen_before_dtor;
unsigned long g_up; unsigned g_batches; size_t g_last_n; _Bool g_room_ok;
static void vf_havoc_ghosts(void) {
  g_cap = nondet_u64(); __CPROVER_assume(g_cap >= 1 && g_cap < (1UL << 16));
  g_buf = malloc((g_cap + 1) * sizeof(void *)); __CPROVER_assume(g_buf != 0);
  g_bsz = nondet_u64(); g_pos = nondet_u64(); g_f = nondet_u64(); g_up = nondet_u64(); g_batches = 0; g_last_n = 0; g_room_ok = 1; g_old_at_pos = 0;
  g_local = malloc(sizeof(BSlot_t)); __CPROVER_assume(g_local != 0);
  g_slots_total = nondet_u64(); g_slots_seen = 0; g_store_dtors = 0; g_seen_before_dtor = 0;
}
#define VBEGIN g_buf       /* (an empty vector's begin()/end()/data() and a default-constructed iterator are all null in libstdc++ and compare
                             equal; the model uses the start of the zero-length buffer for all of them, so relational pointer checks apply) */
void **PtrVec_begin(struct PtrVec *v) { return VBEGIN; }
void **PtrVec_data(struct PtrVec *v) { return VBEGIN; }
void **PtrVec_end(struct PtrVec *v) { return g_buf + g_bsz; }
unsigned long PtrVec_size(struct PtrVec *v) { return g_bsz; }
void PtrVec_resize(struct PtrVec *v, unsigned long n) { __CPROVER_assume(n <= g_cap); g_bsz = n; }
BSlot_t *SlotTL_local(struct SlotTL *c) { return g_local; }
void PageAllocator_allocate__voidPP_u64(struct PageAllocator *up, void **pages, unsigned long n) {
  /* upstream writes n page pointers into the caller's array: the array handed over must be the thread's buffer with room for
     exactly the batch (a shorter buffer is overrun, a longer one keeps stale pages behind the batch that would be handed out again) */
  if (!(n >= 1 && pages != 0 && pages == g_buf && n == g_bsz)) g_room_ok = 0;
  if (g_room_ok && g_f < n) g_buf[g_f] = TOKEN(g_up + g_f);
  __CPROVER_assume(g_up < (1UL << 40)); g_up += n; g_batches++; g_last_n = n;
}
void *BatchPageAllocator_allocate__void(BPA_t *a)
__CPROVER_requires(__CPROVER_is_fresh(a, sizeof(*a)) && a->_batch_size >= 1 && a->_batch_size <= g_cap && g_bsz <= g_cap && g_pos <= g_bsz && g_batches == 0 && g_room_ok && g_up < (1UL << 39))
__CPROVER_requires(__CPROVER_pointer_equals(g_local->next_page, g_buf + g_pos) && (g_pos < g_bsz ==> g_old_at_pos == g_buf[g_pos]))
__CPROVER_assigns(g_local->next_page, g_bsz, __CPROVER_object_whole(g_buf), g_up, g_batches, g_last_n, g_room_ok)
/* cached path */
__CPROVER_ensures(__CPROVER_old(g_pos) < __CPROVER_old(g_bsz) ==> (g_batches == 0 && __CPROVER_return_value == g_old_at_pos && g_local->next_page == g_buf + __CPROVER_old(g_pos) + 1 && g_bsz == __CPROVER_old(g_bsz)))
/* refill path */
__CPROVER_ensures(__CPROVER_old(g_pos) >= __CPROVER_old(g_bsz) ==> (g_batches == 1 && g_room_ok && g_last_n == a->_batch_size && g_bsz == a->_batch_size && g_up == __CPROVER_old(g_up) + a->_batch_size
                  && g_local->next_page == g_buf + 1))
__CPROVER_ensures((__CPROVER_old(g_pos) >= __CPROVER_old(g_bsz) && g_room_ok) ==> ((g_f == 0 ==> __CPROVER_return_value == TOKEN(__CPROVER_old(g_up))) && (g_f < a->_batch_size ==> g_buf[g_f] == TOKEN(__CPROVER_old(g_up) + g_f))))
;

/* ~BatchPageAllocator: "destroying an allocator returns its cache upstream" -- the pages a thread left in its buffer stay cached after
 * the thread exits, so the destructor must enumerate EVERY slot ever used (for_each), not only those of live threads
 * (for_each_alive), hand each to its per-slot lambda once, and destroy the store only afterwards.  The per-slot lambda (returns
 * [next_page, end) of the slot's buffer upstream) is not under contract: its effect is the stated contract below. */
typedef struct lambda_page_allocator_dtor_BatchPageAllocator_1 DtorL_t;
#ifdef VF_BATCH_DTOR
#define LDTOR BatchPageAllocator_dtor_lambda_page_allocator_dtor_BatchPageAllocator_1_op_call
void LDTOR(DtorL_t *c, BSlot_t *iter, BSlot_t *end)
__CPROVER_requires(1)
__CPROVER_assigns(g_slots_seen)
__CPROVER_ensures(g_slots_seen == __CPROVER_old(g_slots_seen) + (unsigned long)(end - iter))        /* assumed: every slot of the range is handled once */
;
BSlot_t g_slot_arr[2];
void SlotTL_for_each__lambda_page_allocator_dtor_BatchPageAllocator_1_void(struct SlotTL *c, DtorL_t *cb) {
  /* every slot ever used, in one range (abstract: only the count matters to the contract above) */
  unsigned long n = g_slots_total; unsigned long before = g_slots_seen;
  LDTOR(cb, &g_slot_arr[0], &g_slot_arr[0]);
  g_slots_seen = before + n;
}
#ifdef VF_HAVE_SlotTL_for_each_alive__lambda_page_allocator_dtor_BatchPageAllocator_1_void
void SlotTL_for_each_alive__lambda_page_allocator_dtor_BatchPageAllocator_1_void(struct SlotTL *c, DtorL_t *cb) {
  unsigned long n = nondet_u64(); __CPROVER_assume(n <= g_slots_total);       /* only the slots of threads alive now */
  unsigned long before = g_slots_seen;
  LDTOR(cb, &g_slot_arr[0], &g_slot_arr[0]);
  g_slots_seen = before + n;
}
#endif
void SlotTL_dtor(struct SlotTL *c) { g_seen_before_dtor = (g_slots_seen == g_slots_total); if (g_store_dtors < 1000) g_store_dtors++; }
void BatchPageAllocator_dtor(BPA_t *a)
__CPROVER_requires(__CPROVER_is_fresh(a, sizeof(*a)) && g_slots_seen == 0 && g_store_dtors == 0 && g_slots_total < (1UL << 40))
__CPROVER_assigns(g_slots_seen, g_store_dtors, g_seen_before_dtor)
__CPROVER_ensures(g_slots_seen == g_slots_total && g_store_dtors == 1 && g_seen_before_dtor)
;
#endif
#endif
