import os, sys
sys.path.insert(0, os.path.join(os.path.dirname(os.path.abspath(__file__)), '..', '..', 'tools'))
import replaylib
HERE = os.path.dirname(os.path.abspath(__file__))


def replay(job, failed, report, bdir):
    """a BatchPageAllocator used with its default batch size (no set_batch_size call): the thread's buffer is empty when upstream
    is asked to write 16 pages into it.  exit 0 = a page was handed out; anything else (a crash) reproduces the failure."""
    rc, out = replaylib.build_and_run(os.path.join(HERE, 'replay', 'default_constructed_batch.cpp'), os.path.join(bdir, 'replay'), sources=('reusable/page_allocator.cpp', 'concurrent/*.cpp', 'new.cpp'))
    report['native_replay'] = {'program': 'groups/c17_batch/replay/default_constructed_batch.cpp', 'exit': rc, 'output': out}
    return rc is not None and rc != 0
