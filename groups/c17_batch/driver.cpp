// driver TU for C17 (batch allocator): BatchPageAllocator, defined in page_allocator.cpp
#include "babylon/reusable/page_allocator.cpp"
