#include "babylon/reusable/page_allocator.h"
#include <cstdio>
int main() {
  ::babylon::BatchPageAllocator batch;      // documented default: batch size 16
  batch.set_upstream(::babylon::SystemPageAllocator::instance());
  void* page = batch.allocate();
  std::printf("got page %p\n", page);
  batch.deallocate(page);
  return page != nullptr ? 0 : 1;
}
