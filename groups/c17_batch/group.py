B = 'babylon::BatchPageAllocator'
PV = 'std::vector<void*>'
ETL = 'babylon::EnumerableThreadLocal<babylon::BatchPageAllocator::Slot, false>'
GROUP = dict(
    prop='C17',
    driver='driver.cpp',
    spec='spec.h',
    aliases=[(PV, 'PtrVec'), (ETL, 'SlotTL'), ('babylon::', '')],
    opaque_by_value=[PV, ETL],
    outside_methods={PV: ['begin', 'end', 'data', 'size', 'resize']},
    extern_re=[r'EnumerableThreadLocal<.*>::', r'PageAllocator::allocate', r'PageAllocator::deallocate', r'PageAllocator::page_size'],
    roots=[{'name': B + '::allocate', 'sig': 'void *()'}, B + '::~BatchPageAllocator', {'lambda_in': B + '::~BatchPageAllocator', 'ordinal': 1}],
    reviewed_compiler_conditionals=[],
    assumptions=['std::vector<void*> is a ghost stub (typed array, length, resize within the model capacity); EnumerableThreadLocal::local() returns the calling thread\'s private slot (stub)', 'the per-slot lambda of the destructor is not under contract (assumed: handles every slot of its range once)', 'upstream allocate(pages, n) writes n fresh pages into pages[0..n) (tokens); batch size >= 1'],
    jobs=[
        dict(id='C17.batch.dtor', enforce='BatchPageAllocator_dtor', replace=['BatchPageAllocator_dtor_lambda_page_allocator_dtor_BatchPageAllocator_1_op_call'], backend='cadical', defines=['VF_BATCH_DTOR 1'], covers=['g_slots_total > 3']),
        dict(id='C17.batch.allocate', enforce='BatchPageAllocator_allocate__void', backend='cadical',
             covers=['g_batches == 1 && g_last_n > 3', 'g_batches == 0']),
    ],
)
