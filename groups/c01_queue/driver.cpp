// driver TU for C01/C02: instantiates the real ConcurrentBoundedQueue with declared-only verification parameter types
#include "babylon/concurrent/bounded_queue.h"
namespace babylon_vf {
struct Sched {
  static constexpr bool futex_need_create() noexcept { return false; }
  static uint32_t* create_futex() noexcept;
  static void destroy_futex(uint32_t*) noexcept;
  static int futex_wait(uint32_t*, uint32_t, const struct ::timespec*) noexcept;
  static int futex_wake_one(uint32_t*) noexcept;
  static int futex_wake_all(uint32_t*) noexcept;
  static void usleep(useconds_t) noexcept;
  static void yield() noexcept;
};
struct Cb { void operator()(uint64_t&) noexcept; };
using Q = ::babylon::ConcurrentBoundedQueue<uint64_t, Sched>;
struct CbN { void operator()(Q::Iterator, Q::Iterator) noexcept; };
void force_n(Q& q, CbN& cb, size_t n) {
  q.pop_n<false, false, true>(cb, n);     // WAIT != WAKE on purpose: a transposition of the two flags is then visible
  q.push_n<true, true, false>(cb, n);
  q.try_push_n<true, true>(cb, n);
  q.try_pop_n<true, true>(cb, n);
}
void force(Q& q, Cb& cb) {
  q.push<true, true, true>(cb);
  q.pop<true, true, true>(cb);
  q.try_push<true, true>(cb);
  q.try_pop<true, true>(cb);
}
}
