/* C01/C02 -- contracts and rely/guarantee environment for ConcurrentBoundedQueue<uint64_t, vf::Sched>
 *
 * Concurrency model (DESIGN 4.3): every atomic operation of the lowered code is a call vf_atomic_<op>_<type>(p,...,order,site)
 * whose body here first lets the environment take an arbitrary step that respects RELY, then performs the operation atomically
 * and asserts the step's guarantee.  Results hold for any number of threads under SC interleavings at atomic-op granularity.
 *
 * Ghost focus: one slot word g_w (the futex word of the slot my ticket maps to) with my expected version g_E.
 *   g_mine       I hold the ticket for (slot, g_E) and have not published yet
 *   RELY         while g_mine and the version shows g_E, no other thread changes the version (tickets are unique, and only
 *                the holder of the ticket whose expected version is shown may advance it); waiter bits may change freely
 *   GUAR         I change the version only from g_E to g_E+1, once, and only while g_mine
 */
#ifndef C01_SPEC_H
#define C01_SPEC_H

typedef struct Q Q_t;
typedef struct Q_Slot Slot_t;
typedef struct Q_SlotFutex SF_t;

unsigned int *g_w;
unsigned short g_E;
_Bool g_mine;
_Bool g_published;
unsigned g_cb_runs;
_Bool g_debt;         /* I cleared waiter bits (saw them in the word I exchanged out) and have not yet called wake_all */
unsigned g_wakes;
unsigned long g_site_log;
unsigned g_segs;
unsigned long g_bits;

/* try_deal (jobs C01.try_deal.*, VF_TRY_DEAL): the ticket is chosen by the function itself.  g_T is an arbitrary watched ticket, g_w / g_E its
 * slot word and expected version, g_ni the ticket counter.  RELY': the version of the watched slot stays at g_E from the moment it
 * shows g_E until the holder of ticket g_T publishes -- also while the ticket has not been handed out yet (counter <= g_T) --; other
 * threads may take tickets (advance the counter) at any time. */
unsigned long *g_ni; unsigned long g_T, g_last_idx, g_prev_idx, g_ver_obs_for; unsigned g_tickets, g_idx_loads; unsigned short g_ver_obs; _Bool g_ver_ok_at_take, g_took_T, g_cb_early;
unsigned int nondet_u32(void);
unsigned long nondet_u64(void);
_Bool nondet_bool(void);
unsigned short nondet_u16(void);

#define VER(w) ((unsigned short)(w))
static void vf_havoc_ghosts(void) { g_E = nondet_u16(); g_mine = nondet_bool(); g_published = 0; g_cb_runs = 0; g_debt = 0; g_wakes = 0; g_segs = 0; g_bits = nondet_u64();
  g_T = nondet_u64(); g_last_idx = g_prev_idx = g_ver_obs_for = 0; g_tickets = g_idx_loads = 0; g_ver_obs = 0; g_ver_ok_at_take = 0; g_took_T = 0; g_cb_early = 0; g_ni = 0; }

/* the environment: any step allowed by RELY on the focus word */
static void env_step(void) {
  unsigned int old = *g_w;
  unsigned int nw = nondet_u32();
#ifdef VF_TRY_DEAL
  __CPROVER_assume(!((g_mine || *g_ni <= g_T) && !g_published && VER(old) == g_E) || VER(nw) == g_E);
#else
  __CPROVER_assume(!(g_mine && !g_published && VER(old) == g_E) || VER(nw) == g_E);
#endif
  *g_w = nw;
}
#ifdef VF_TRY_DEAL
static void env_idx(void) {     /* other threads take tickets */
  unsigned long k = nondet_u64(); __CPROVER_assume(k < (1UL << 20) && *g_ni < (1UL << 60)); *g_ni += k;
}
#endif

#define ORDER_AT_LEAST_ACQUIRE(o) ((o) == 2 || (o) == 4 || (o) == 5)
#define ORDER_AT_LEAST_RELEASE(o) ((o) == 3 || (o) == 4 || (o) == 5)

/* ---- atomic stubs (bodies) --------------------------------------------------------------------------- */
unsigned int vf_atomic_load_u32(unsigned int *p, int order, int site) {
#ifdef VF_TRY_DEAL
  env_idx();
  if (site == SITE_Q_SlotFutex_version_futex_value_load_1) __CPROVER_assert(ORDER_AT_LEAST_ACQUIRE(order), "K6 C01.try_deal the slot version is read with acquire");
  if (p == g_w) { env_step(); g_ver_obs = VER(*p); g_ver_obs_for = g_last_idx; return *p; }
  if (g_last_idx == g_T) g_ver_obs_for = g_T + 1;      /* (a version read of another slot says nothing about ticket g_T) */
  return *p;
#endif
  if (p == g_w) env_step();
  if (site == SITE_Q_SlotFutex_wait_until_reach_expected_version_1_futex_value_load_1)
    __CPROVER_assert(ORDER_AT_LEAST_ACQUIRE(order) || order == 0, "K6 C01.deal.wait order is acquire (single) or relaxed+fence (batch)");
  return *p;
}
unsigned int vf_atomic_exchange_u32(unsigned int *p, unsigned int v, int order, int site) {
  if (p == g_w) env_step();
  unsigned int old = *p;
  *p = v;
#ifdef VF_TRY_DEAL
  if (p == g_w && !g_mine) return old;     /* this thread holds another ticket of the same slot (a different round): not the watched turn */
#endif
  if (p == g_w) {
    /* K5: I advance the version only on my turn, by exactly one, once */
    __CPROVER_assert(g_mine && !g_published, "K5 C01.publish only by the ticket holder, once");
    __CPROVER_assert(VER(old) == g_E && VER(v) == (unsigned short)(g_E + 1), "K5 C01.publish moves the version from expected to expected+1");
    __CPROVER_assert(ORDER_AT_LEAST_RELEASE(order), "K6 C01.deal.publish order >= release");
    g_published = 1;
    if (old > 0xFFFFu) g_debt = 1;     /* C02: I removed the waiter mark, so I owe the sleepers a wake */
  }
  return old;
}
void vf_atomic_store_u16(unsigned short *p, unsigned short v, int order, int site) {
  if ((unsigned int *)p == g_w) env_step();
  unsigned short old = *p;
  *p = v;
  if ((unsigned int *)p == g_w) {
    __CPROVER_assert(g_mine && !g_published, "K5 C01.publish only by the ticket holder, once");
    __CPROVER_assert(old == g_E && v == (unsigned short)(g_E + 1), "K5 C01.publish moves the version from expected to expected+1");
    __CPROVER_assert(ORDER_AT_LEAST_RELEASE(order), "K6 C01.deal.publish(store) order >= release");
    g_published = 1;
  }
}
_Bool vf_atomic_compare_exchange_strong_u32(unsigned int *p, unsigned int *expected, unsigned int desired, int success, int failure, int site) {
  if (p == g_w) env_step();
  if (*p == *expected) { *p = desired; return 1; }
  *expected = *p;
  return 0;
}
#ifdef VF_TRY_DEAL
unsigned long vf_atomic_load_u64(unsigned long *p, int order, int site) {
  if (p == g_ni) { env_idx(); env_step(); g_prev_idx = g_last_idx; g_last_idx = *p; if (g_idx_loads < 1000000) g_idx_loads++; }
  return *p;
}
_Bool vf_atomic_compare_exchange_weak_u64(unsigned long *p, unsigned long *expected, unsigned long desired, int success, int failure, int site) {
  __CPROVER_assert(p == g_ni, "C01.try_deal the only 64-bit CAS is on the ticket counter");
  env_idx(); env_step();
  if (*p != *expected || nondet_bool()) { if (*p != *expected) { *expected = *p; } g_prev_idx = g_last_idx; g_last_idx = *expected; return 0; }
  __CPROVER_assert(desired == *expected + 1, "K5 C01.try_deal takes exactly one ticket, the one it examined");
  __CPROVER_assume(g_tickets < 1000); g_tickets++;
  if (*expected == g_T) { g_mine = 1; g_took_T = 1; g_ver_ok_at_take = (g_ver_obs == g_E && g_ver_obs_for == g_T); }
  *p = desired;
  return 1;
}
#else
unsigned long vf_atomic_load_u64(unsigned long *p, int order, int site) { return *p; }
_Bool vf_atomic_compare_exchange_weak_u64(unsigned long *p, unsigned long *expected, unsigned long desired, int success, int failure, int site) {
  if (nondet_bool()) return 0;   /* weak CAS may fail spuriously */
  if (*p == *expected) { *p = desired; return 1; }
  *expected = *p;
  return 0;
}
#endif

/* ---- scheduling interface S (declared-only in the driver): arbitrary implementation under this contract ---- */
int Sched_futex_wake_all(uint32_t *f) { if (f == g_w) { g_debt = 0; g_wakes++; } return nondet_u32(); }
int vf_errno_storage;
unsigned g_sleeps;
int Sched_futex_wait(uint32_t *f, unsigned int val, struct timespec *timeout) {
  if (f == g_w) {
    env_step();
    /* C02 waiter side: a thread only ever sleeps on a word that carries the waiter mark, so that the thread which later
     * swaps the word out sees the mark and owes the wake (kernel compare-and-sleep on the whole 32-bit word is the stub's contract) */
    __CPROVER_assert(val > 0xFFFFu, "K5 C02.waiter sleeps only on a word with the waiter mark set");
    if (*f == val) { g_sleeps++; env_step(); }
  }
  /* errno after the call: ETIMEDOUT(110) only when a timeout was given; EAGAIN(11)/EINTR(4)/0 otherwise */
  int e = nondet_u32();
  __CPROVER_assume(e == 0 || e == 4 || e == 11 || (e == 110 && timeout != (struct timespec *)0));
  vf_errno_storage = e;
  return e == 0 ? 0 : -1;
}
void Sched_usleep(unsigned int us) { }
int *vf_errno_location(void) { return &vf_errno_storage; }

/* ---- the user callback: runs with exclusive access to its element ---------------------------------------- */
void Cb_op_call(struct Cb *self, uint64_t *value) {
#ifdef VF_TRY_DEAL
  g_cb_runs++;
  if (g_tickets == 0) g_cb_early = 1;      /* the callback must not run before this thread owns a ticket */
  if (!g_mine) return;        /* another ticket than the watched one: only the counts are claimed */
  g_cb_runs--;
#endif
  env_step();
  /* K5 exclusive access: while the callback runs the slot still shows my expected version, i.e. nobody else's turn */
  __CPROVER_assert(g_mine && !g_published && VER(*g_w) == g_E, "K5 C01.callback runs on my turn with the version still at expected");
  g_cb_runs++;
  env_step();
  __CPROVER_assert(VER(*g_w) == g_E, "K5 C01.callback exclusive access is stable under the environment");
}

/* pointer equalities in a requires clause must be the DFCC predicate where the clause is assumed (enforced function) and
 * plain equality where it is asserted (replaced callee); see C06 spec for the measurement behind this */
#define PE(a, b) __CPROVER_pointer_equals(a, b)
#define EQ(a, b) ((a) == (b))
#ifdef VF_ENFORCE_Q_SlotFutex_set_version_and_wakeup_waiters
#define RQ_SVW PE
#else
#define RQ_SVW EQ
#endif
#if defined(VF_ENFORCE_Q_deal__1_1_1_CbRef) || defined(VF_ENFORCE_Q_deal__1_1_0_CbRef)
#define RQ_DEAL PE
#else
#define RQ_DEAL EQ
#endif
#ifdef VF_ENFORCE_Q_SlotFutex_wait_until_reach_expected_version__1
#define RQ_WAIT PE
#define OBJ_WAIT(p, n) __CPROVER_is_fresh(p, n)
#else
#define RQ_WAIT EQ
#define OBJ_WAIT(p, n) __CPROVER_r_ok(p, n)
#endif

/* ---- K1 ticket arithmetic ---------------------------------------------------------------------------------- */
unsigned short Q_push_version_for_index(Q_t *q, unsigned long index)
__CPROVER_requires(__CPROVER_is_fresh(q, sizeof(*q)) && q->_slot_bits <= 40)
__CPROVER_ensures(__CPROVER_return_value == (unsigned short)((index >> q->_slot_bits) << 1))
__CPROVER_assigns();

unsigned short Q_pop_version_for_index(Q_t *q, unsigned long index)
__CPROVER_requires(__CPROVER_is_fresh(q, sizeof(*q)) && q->_slot_bits <= 40)
__CPROVER_ensures(__CPROVER_return_value == (unsigned short)(((index >> q->_slot_bits) << 1) + 1))
__CPROVER_assigns();

/* K7 lemma (loop-free, full domain): ticket -> (slot, version) is what the turn protocol needs */
void lemma_ticket_arith(void) {
  Q_t q; unsigned long bits = nondet_u64(); unsigned long i = nondet_u64(), j = nondet_u64();
  __CPROVER_assume(bits <= 40);
  q._slot_bits = bits; q._slot_mask = (1UL << bits) - 1;
  unsigned long cap = q._slot_mask + 1;
  __CPROVER_assume(i <= (1UL << 62));
  /* push ticket i and pop ticket i meet on the same slot with consecutive versions */
  __CPROVER_assert(Q_pop_version_for_index(&q, i) == (unsigned short)(Q_push_version_for_index(&q, i) + 1), "K7 C01.arith pop version = push version + 1");
  /* tickets one round apart reuse the slot exactly two versions later */
  __CPROVER_assert(((i + cap) & q._slot_mask) == (i & q._slot_mask), "K7 C01.arith same slot one round later");
  __CPROVER_assert(Q_push_version_for_index(&q, i + cap) == (unsigned short)(Q_push_version_for_index(&q, i) + 2), "K7 C01.arith version advances by 2 per round");
  /* inside one round the ticket -> slot map is injective */
  __CPROVER_assume(j <= (1UL << 62) && i != j && (i >> bits) == (j >> bits));
  __CPROVER_assert((i & q._slot_mask) != (j & q._slot_mask), "K7 C01.arith distinct tickets of a round use distinct slots");
  __CPROVER_assert(0, "VF_VACUITY_TWIN lemma reachable (must fail)");
}

/* ---- queue shape -------------------------------------------------------------------------------------------- */
#define QSHAPE(q) ( __CPROVER_is_fresh(q, sizeof(*q)) && g_bits <= 16 && (q)->_slot_bits == g_bits && (q)->_slot_mask == (1UL << g_bits) - 1 \
   && (q)->_slots._size == (1UL << g_bits) && __CPROVER_is_fresh((q)->_slots._slots, sizeof(Slot_t) << g_bits) )

/* set_version_and_wakeup_waiters: K5 publish step + C02 "whoever removes the waiter mark wakes" */
void Q_SlotFutex_set_version_and_wakeup_waiters(SF_t *f, unsigned short next_version)
__CPROVER_requires(__CPROVER_is_fresh(f, sizeof(*f)) && RQ_SVW(g_w, &f->_futex._value) && g_mine && !g_published && next_version == (unsigned short)(g_E + 1))
__CPROVER_requires(VER(*g_w) == g_E && !g_debt)
__CPROVER_assigns(*g_w, g_published, g_debt, g_wakes)
__CPROVER_ensures(g_published)
__CPROVER_ensures(!g_debt)
;

/* deal<USE_FUTEX_WAIT, USE_FUTEX_WAKE, PUSH>(callback, index): the holder of ticket `index` */
#define DEAL_CONTRACT(EXPR_E) \
__CPROVER_requires(QSHAPE(q) && __CPROVER_is_fresh(cb, 1)) \
__CPROVER_requires(RQ_DEAL(g_w, &q->_slots._slots[index & q->_slot_mask].futex._futex._value) && g_E == (EXPR_E) && g_mine && !g_published && !g_debt && g_cb_runs == 0) \
__CPROVER_assigns(*g_w, g_published, g_debt, g_wakes, g_cb_runs, vf_errno_storage, g_sleeps) \
__CPROVER_ensures(g_cb_runs == 1) \
__CPROVER_ensures(g_published && !g_debt)

void Q_deal__1_1_1_CbRef(Q_t *q, struct Cb *cb, unsigned long index)
DEAL_CONTRACT((unsigned short)((index >> g_bits) << 1));
void Q_deal__1_1_0_CbRef(Q_t *q, struct Cb *cb, unsigned long index)
DEAL_CONTRACT((unsigned short)(((index >> g_bits) << 1) + 1));

/* try_deal<CONCURRENT, USE_FUTEX_WAKE, PUSH>(callback): the non-blocking variant behind try_push / try_pop.
 *   true  : exactly one ticket was taken, by a CAS index -> index+1 on the counter; the callback ran exactly once; and if the ticket
 *           is the watched one, its slot had been seen at the ticket's expected version (acquire) for that very index before the
 *           ticket was taken, the callback ran on that turn with the version still there, and the version was published once;
 *   false : no ticket taken, callback not run, nothing published -- and the decision rests on a consistent snapshot: the counter
 *           read the same value before and after the version read, and (watched ticket) that version was not the expected one:
 *           "try_ fails only when the slot of the next ticket is not ready". */
#define TRY_CONTRACT(EXPR_E, COUNTER) \
__CPROVER_requires(QSHAPE(q) && __CPROVER_is_fresh(cb, 1) && g_T < (1UL << 59) && (q)->COUNTER < (1UL << 59)) \
__CPROVER_requires(__CPROVER_pointer_equals(g_w, &q->_slots._slots[g_T & q->_slot_mask].futex._futex._value) && __CPROVER_pointer_equals(g_ni, &q->COUNTER) && g_E == (EXPR_E)) \
__CPROVER_requires(!g_mine && !g_published && !g_debt && g_cb_runs == 0 && g_tickets == 0 && g_idx_loads == 0 && !g_took_T) \
__CPROVER_assigns(*g_w, *g_ni, __CPROVER_object_whole((q)->_slots._slots), g_mine, g_published, g_debt, g_wakes, g_cb_runs, g_tickets, g_idx_loads, g_last_idx, g_prev_idx, g_ver_obs, g_ver_obs_for, g_ver_ok_at_take, g_took_T, g_cb_early) \
__CPROVER_ensures(!g_cb_early) \
__CPROVER_ensures(__CPROVER_return_value ==> (g_tickets == 1 && g_cb_runs == 1 && !g_debt)) \
__CPROVER_ensures((__CPROVER_return_value && g_took_T) ==> (g_ver_ok_at_take && g_published)) \
__CPROVER_ensures(!__CPROVER_return_value ==> (g_tickets == 0 && g_cb_runs == 0 && !g_published && !g_took_T && g_idx_loads >= 2 && g_prev_idx == g_last_idx)) \
__CPROVER_ensures((!__CPROVER_return_value && g_last_idx == g_T) ==> (g_ver_obs_for == g_T && g_ver_obs != g_E))

_Bool Q_try_deal__1_1_1_CbRef(Q_t *q, struct Cb *cb)
TRY_CONTRACT((unsigned short)((g_T >> g_bits) << 1), _next_push_index);
_Bool Q_try_deal__1_1_0_CbRef(Q_t *q, struct Cb *cb)
TRY_CONTRACT((unsigned short)(((g_T >> g_bits) << 1) + 1), _next_pop_index);
//@loop Q_try_deal__1_1_1_CbRef 1
//@  __CPROVER_assigns(@l2:index@, *g_w, *g_ni, __CPROVER_object_whole(self->_slots._slots), g_idx_loads, g_last_idx, g_prev_idx, g_ver_obs, g_ver_obs_for, g_tickets, g_mine, g_took_T, g_ver_ok_at_take, g_cb_runs, g_published, g_debt, g_wakes, g_cb_early)
//@  __CPROVER_loop_invariant(!g_cb_early && !g_mine && !g_took_T && !g_published && !g_debt && g_cb_runs == 0 && g_tickets == 0 && g_idx_loads >= 1 && @l2:index@ == g_last_idx && *g_ni < (1UL << 60) + (1UL << 21))
//@end
//@loop Q_try_deal__1_1_0_CbRef 1
//@  __CPROVER_assigns(@l2:index@, *g_w, *g_ni, __CPROVER_object_whole(self->_slots._slots), g_idx_loads, g_last_idx, g_prev_idx, g_ver_obs, g_ver_obs_for, g_tickets, g_mine, g_took_T, g_ver_ok_at_take, g_cb_runs, g_published, g_debt, g_wakes, g_cb_early)
//@  __CPROVER_loop_invariant(!g_cb_early && !g_mine && !g_took_T && !g_published && !g_debt && g_cb_runs == 0 && g_tickets == 0 && g_idx_loads >= 1 && @l2:index@ == g_last_idx && *g_ni < (1UL << 60) + (1UL << 21))
//@end

/* wait_until_reach_expected_version<true>(expected, timeout=nullptr, order): returns only with the version at expected.
 * (contract used when verifying deal; discharged on the real wait loop in job C02.wait) */
void Q_SlotFutex_wait_until_reach_expected_version__1(SF_t *f, unsigned short expected_version, struct timespec *timeout, int order)
__CPROVER_requires(OBJ_WAIT(f, sizeof(*f)) && RQ_WAIT(g_w, &f->_futex._value) && timeout == (struct timespec *)0 && expected_version == g_E && g_mine && !g_published)
__CPROVER_requires(ORDER_AT_LEAST_ACQUIRE(order))
__CPROVER_assigns(*g_w, vf_errno_storage, g_sleeps)
__CPROVER_ensures(VER(*g_w) == g_E)
;
/* ---- batch operations: round splitting (K1) -------------------------------------------------------------------
 * push_n / pop_n take num tickets at once and hand them to deal_n_continuously in one or two calls.  The stubs below stand
 * for deal_n_continuously (every instantiation the lowered code may name gets one: VF_HAVE_<name>) and only record how they
 * were called; the contract of pop_n / push_n then says: the calls cover exactly [index, index+num) in order, each call
 * stays inside one round of the ring (so slot_index + i < capacity for every slot it touches), and every call uses the
 * caller's own USE_FUTEX_WAIT / USE_FUTEX_WAKE / PUSH_OR_POP (a waker mode lost on the wrapped segment is a lost wakeup). */
unsigned long g_seg_index[3], g_seg_num[3];
int g_seg_wait[3], g_seg_wake[3], g_seg_push[3];
static void seg_record(int w, int k, int p, unsigned long index, unsigned long num) {
  __CPROVER_assert(g_segs < 2, "K1 C01.split at most two segments per batch");
  if (g_segs < 3) { g_seg_index[g_segs] = index; g_seg_num[g_segs] = num; g_seg_wait[g_segs] = w; g_seg_wake[g_segs] = k; g_seg_push[g_segs] = p; }
  g_segs++;
}
#define SEG_STUB(W, K, P) \
  void Q_deal_n_continuously__##W##_##K##_##P##_CbNRef(Q_t *q, struct CbN *cb, unsigned long index, unsigned long num) { seg_record(W, K, P, index, num); }
#ifdef VF_HAVE_Q_deal_n_continuously__0_0_0_CbNRef
SEG_STUB(0, 0, 0)
#endif
#ifdef VF_HAVE_Q_deal_n_continuously__0_0_1_CbNRef
SEG_STUB(0, 0, 1)
#endif
#ifdef VF_HAVE_Q_deal_n_continuously__0_1_0_CbNRef
SEG_STUB(0, 1, 0)
#endif
#ifdef VF_HAVE_Q_deal_n_continuously__0_1_1_CbNRef
SEG_STUB(0, 1, 1)
#endif
#ifdef VF_HAVE_Q_deal_n_continuously__1_0_0_CbNRef
SEG_STUB(1, 0, 0)
#endif
#ifdef VF_HAVE_Q_deal_n_continuously__1_0_1_CbNRef
SEG_STUB(1, 0, 1)
#endif
#ifdef VF_HAVE_Q_deal_n_continuously__1_1_0_CbNRef
SEG_STUB(1, 1, 0)
#endif
#ifdef VF_HAVE_Q_deal_n_continuously__1_1_1_CbNRef
SEG_STUB(1, 1, 1)
#endif
unsigned long vf_atomic_fetch_add_u64(unsigned long *p, unsigned long v, int order, int site) { unsigned long old = *p; *p = old + v; return old; }
void vf_atomic_store_u64(unsigned long *p, unsigned long v, int order, int site) { *p = v; }

#define QSHAPE_NOSLOTS(q) (__CPROVER_is_fresh(q, sizeof(*q)) && g_bits <= 40 && (q)->_slot_bits == g_bits && (q)->_slot_mask == (1UL << g_bits) - 1)
#define SPLIT_POST(FIELD, W, K, P) \
  __CPROVER_ensures(g_segs == 1 || g_segs == 2) \
  __CPROVER_ensures(g_seg_index[0] == __CPROVER_old(q->FIELD) && q->FIELD == __CPROVER_old(q->FIELD) + num) \
  __CPROVER_ensures(g_segs == 1 ? g_seg_num[0] == num : (g_seg_num[0] + g_seg_num[1] == num && g_seg_index[1] == g_seg_index[0] + g_seg_num[0] && g_seg_num[0] >= 1 && g_seg_num[1] >= 1)) \
  __CPROVER_ensures((g_seg_index[0] & q->_slot_mask) + g_seg_num[0] <= q->_slot_mask + 1) \
  __CPROVER_ensures(g_segs == 1 || (g_seg_index[1] & q->_slot_mask) + g_seg_num[1] <= q->_slot_mask + 1) \
  __CPROVER_ensures(g_seg_wait[0] == W && g_seg_wake[0] == K && g_seg_push[0] == P) \
  __CPROVER_ensures(g_segs == 1 || (g_seg_wait[1] == W && g_seg_wake[1] == K && g_seg_push[1] == P))

void Q_pop_n__0_0_1_CbNRef_void(Q_t *q, struct CbN *cb, unsigned long num)
__CPROVER_requires(QSHAPE_NOSLOTS(q) && num <= q->_slot_mask + 1 && q->_next_pop_index <= (1UL << 62) && g_segs == 0)
__CPROVER_assigns(q->_next_pop_index, g_segs, __CPROVER_object_whole(g_seg_index), __CPROVER_object_whole(g_seg_num), __CPROVER_object_whole(g_seg_wait), __CPROVER_object_whole(g_seg_wake), __CPROVER_object_whole(g_seg_push))
SPLIT_POST(_next_pop_index, 0, 1, 0)
;
void Q_push_n__1_1_0_CbNRef_void(Q_t *q, struct CbN *cb, unsigned long num)
__CPROVER_requires(QSHAPE_NOSLOTS(q) && num <= q->_slot_mask + 1 && q->_next_push_index <= (1UL << 62) && g_segs == 0)
__CPROVER_assigns(q->_next_push_index, g_segs, __CPROVER_object_whole(g_seg_index), __CPROVER_object_whole(g_seg_num), __CPROVER_object_whole(g_seg_wait), __CPROVER_object_whole(g_seg_wake), __CPROVER_object_whole(g_seg_push))
SPLIT_POST(_next_push_index, 1, 0, 1)
;

/* loop contract of the futex wait loop (block_until_reach_expected_version_slow), timeout == nullptr instance:
 * partial correctness only -- the loop is left only with the observed word showing the expected version */
//@loop Q_SlotFutex_block_until_reach_expected_version_slow 1
//@  __CPROVER_assigns(@p1:current_version_and_waiters@, @l3:version@, *g_w, vf_errno_storage, g_sleeps, @p3:timeout@, @l2:modified_timeout@)
//@  __CPROVER_loop_invariant(@p3:timeout@ == (struct timespec *)0)
//@  __CPROVER_loop_invariant(@l3:version@ == (unsigned short)@p1:current_version_and_waiters@)
//@  __CPROVER_loop_invariant(VER(@p1:current_version_and_waiters@) != g_E || VER(*g_w) == g_E)
//@end

/* ---- try_push_n / try_pop_n (non-blocking batches): the batch [index, index+num) is offered to try_deal_n_continuously in one or two
 * calls; a call never crosses a round of the ring; the second call is made only when the first one dealt its whole segment and it
 * covers exactly the rest of the batch (no more slots than were asked for); the result is the number of slots dealt. */
unsigned long g_seg_ret[3]; int g_seg_conc[3];
static size_t try_seg(int conc, int wake, int push, unsigned long index, unsigned long num) {
  unsigned long k = g_segs;
  seg_record(0, wake, push, index, num);
  unsigned long r = nondet_u64(); __CPROVER_assume(r <= num);
  if (k < 3) { g_seg_ret[k] = r; g_seg_conc[k] = conc; }
  return r;
}
#ifdef VF_HAVE_Q_try_deal_n_continuously__1_1_1_CbNRef
size_t Q_try_deal_n_continuously__1_1_1_CbNRef(Q_t *q, struct CbN *cb, unsigned long index, unsigned long num) { return try_seg(1, 1, 1, index, num); }
#endif
#ifdef VF_HAVE_Q_try_deal_n_continuously__1_1_0_CbNRef
size_t Q_try_deal_n_continuously__1_1_0_CbNRef(Q_t *q, struct CbN *cb, unsigned long index, unsigned long num) { return try_seg(1, 1, 0, index, num); }
#endif
#define TRY_SPLIT_POST(FIELD, P) \
  __CPROVER_ensures(g_segs == 1 || g_segs == 2) \
  __CPROVER_ensures(g_seg_index[0] == q->FIELD && (g_seg_index[0] & q->_slot_mask) + g_seg_num[0] <= q->_slot_mask + 1 && g_seg_num[0] <= num) \
  __CPROVER_ensures(g_seg_num[0] == (num <= q->_slot_mask + 1 - (g_seg_index[0] & q->_slot_mask) ? num : q->_slot_mask + 1 - (g_seg_index[0] & q->_slot_mask))) \
  __CPROVER_ensures(g_segs == 2 ==> (g_seg_ret[0] == g_seg_num[0] && g_seg_index[1] == g_seg_index[0] + g_seg_num[0] && g_seg_num[1] == num - g_seg_num[0] && g_seg_num[1] >= 1 \
                    && (g_seg_index[1] & q->_slot_mask) + g_seg_num[1] <= q->_slot_mask + 1)) \
  __CPROVER_ensures((g_segs == 1 && g_seg_num[0] < num) ==> g_seg_ret[0] < g_seg_num[0]) \
  __CPROVER_ensures(__CPROVER_return_value == (g_segs == 1 ? g_seg_ret[0] : g_seg_ret[0] + g_seg_ret[1])) \
  __CPROVER_ensures(g_seg_wake[0] == 1 && g_seg_push[0] == P && g_seg_conc[0] == 1 && (g_segs == 1 || (g_seg_wake[1] == 1 && g_seg_push[1] == P && g_seg_conc[1] == 1)))
size_t Q_try_push_n__1_1_CbNRef_void(Q_t *q, struct CbN *cb, unsigned long num)
__CPROVER_requires(QSHAPE_NOSLOTS(q) && num >= 1 && num <= q->_slot_mask + 1 && q->_next_push_index <= (1UL << 62) && g_segs == 0)
__CPROVER_assigns(g_segs, __CPROVER_object_whole(g_seg_index), __CPROVER_object_whole(g_seg_num), __CPROVER_object_whole(g_seg_wait), __CPROVER_object_whole(g_seg_wake), __CPROVER_object_whole(g_seg_push), __CPROVER_object_whole(g_seg_ret), __CPROVER_object_whole(g_seg_conc))
TRY_SPLIT_POST(_next_push_index, 1)
;
size_t Q_try_pop_n__1_1_CbNRef_void(Q_t *q, struct CbN *cb, unsigned long num)
__CPROVER_requires(QSHAPE_NOSLOTS(q) && num >= 1 && num <= q->_slot_mask + 1 && q->_next_pop_index <= (1UL << 62) && g_segs == 0)
__CPROVER_assigns(g_segs, __CPROVER_object_whole(g_seg_index), __CPROVER_object_whole(g_seg_num), __CPROVER_object_whole(g_seg_wait), __CPROVER_object_whole(g_seg_wake), __CPROVER_object_whole(g_seg_push), __CPROVER_object_whole(g_seg_ret), __CPROVER_object_whole(g_seg_conc))
TRY_SPLIT_POST(_next_pop_index, 0)
;
#endif
