QN = 'babylon::ConcurrentBoundedQueue<unsigned long, babylon_vf::Sched>'
GROUP = dict(
    prop='C01',
    driver='driver.cpp',
    spec='spec.h',
    aliases=[(QN, 'Q'), ('babylon::Futex<babylon_vf::Sched, void>', 'Futex'), ('babylon_vf::', '')],
    outside_funcs={'GetCurrentTimeNanos': 'vf_now_ns', '__errno_location': 'vf_errno_location', 'DurationFromTimespec': 'vf_dur_from_timespec',
                   'Nanoseconds': 'vf_dur_ns', 'ToTimespec': 'vf_dur_to_timespec', 'ToInt64Nanoseconds': 'vf_dur_to_ns'},
    scalar_records={'absl::Duration': 'long'},
    roots=[QN + '::push_version_for_index', QN + '::pop_version_for_index', QN + '::deal', QN + '::try_deal'],
    reviewed_compiler_conditionals=['src/babylon/concurrent/bounded_queue.hpp:#if GCC_VERSION >= 120000', 'src/babylon/concurrent/bounded_queue.h:#if !__clang__ && BABYLON_GCC_VERSION < 50000'],
    assumptions=[
        'RMW atomicity of std::atomic operations (each vf_atomic stub performs its operation in one step)',
        'ticket uniqueness: fetch_add/CAS on the ticket counters hands each ticket to one thread (RMW atomicity) - used as the RELY that nobody else advances a slot on my turn',
        'version wrap: fewer than 2^15 rounds of lag between a thread and the queue',
        'absl::Duration modelled as int64 nanoseconds; futex_wait/wake are arbitrary functions of the scheduling interface',
    ],
    jobs=[
        dict(id='C01.arith.push_version', enforce='Q_push_version_for_index', props=['C01']),
        dict(id='C01.arith.pop_version', enforce='Q_pop_version_for_index', props=['C01']),
        dict(id='C01.arith.lemma', harness='lemma_ticket_arith', props=['C01']),
        dict(id='C01.publish_and_wake', enforce='Q_SlotFutex_set_version_and_wakeup_waiters', props=['C01', 'C02']),
        dict(id='C02.wait', enforce='Q_SlotFutex_wait_until_reach_expected_version__1', loops=True, props=['C02', 'C01']),
        dict(id='C01.deal.push', enforce='Q_deal__1_1_1_CbRef', replace=['Q_SlotFutex_wait_until_reach_expected_version__1'], props=['C01', 'C02']),
        dict(id='C01.deal.pop', enforce='Q_deal__1_1_0_CbRef', replace=['Q_SlotFutex_wait_until_reach_expected_version__1'], props=['C01', 'C02']),
    ],
)
