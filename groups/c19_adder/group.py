AD = 'babylon::GenericsConcurrentAdder<long>'
ST = 'babylon::CompactEnumerableThreadLocal<long, 64, -1>'
GROUP = dict(
    prop='C19',
    driver='driver.cpp',
    spec='spec.h',
    aliases=[(ST, 'AddStore'), (AD, 'Adder')],
    opaque_by_value=[ST],
    extern_re=[r'CompactEnumerableThreadLocal<.*>::(for_each|local)'],
    roots=[AD + '::operator<<', AD + '::value', AD + '::reset', AD + '::count', {'lambda_in': AD + '::value', 'ordinal': 1}, {'lambda_in': AD + '::reset', 'ordinal': 1}],
    reviewed_compiler_conditionals=[],
    assumptions=['CompactEnumerableThreadLocal::for_each presents every slot ever used exactly once (abstract stub that calls the real lowered lambda); local() returns the private slot of the calling thread (stub)',
                 'quiescent reads: no sample is recorded while value() / reset() scan', 'sums wrap like two\'s complement 64-bit integers'],
    jobs=[
        dict(id='C19.adder.value', enforce='Adder_value', loops=True, backend='cadical', covers=['g_presented > 3']),
        dict(id='C19.adder.reset', enforce='Adder_reset', loops=True, backend='cadical', covers=['g_presented > 3']),
        dict(id='C19.adder.count', enforce='Adder_count', replace=['AddStore_local__1'], backend='cadical'),
        dict(id='C19.adder.record', enforce='Adder_op_shl__int', replace=['Adder_count'], backend='cadical'),
    ],
)
