/* C19 (adder) -- ConcurrentAdder: operator<< adds into the calling thread's private slot only; value() is the sum of all slots;
 * reset() zeroes every slot.  The thread-local store is abstract: for_each hands every slot ever used, once, to the REAL lowered
 * lambda (any number of slots, loop contract = induction over the slots); local() is the caller's slot. */
#ifndef C19A_SPEC_H
#define C19A_SPEC_H
#include <stdint.h>
unsigned long nondet_u64(void); long nondet_i64(void);
typedef struct Adder Adder_t;
unsigned long g_sum;        /* reference: sum of the slots presented so far (two's complement wrap) */
unsigned long g_presented, g_zeroed; long g_slot; long *g_local;
unsigned long g_total;      /* number of slots ever used (threads that exited included) */
static void vf_havoc_ghosts(void) { g_sum = 0; g_presented = 0; g_zeroed = 0; g_total = nondet_u64(); }
void AddStore_for_each__lambda_counter_value_1_void(struct AddStore *st, struct lambda_counter_value_1 *cb) {
  unsigned long n = g_total;
  for (unsigned long i = 0; i < n; ++i)
    __CPROVER_assigns(i, g_sum, g_slot, g_presented, *cb->VF_CAP_lambda_counter_value_1_1)
    __CPROVER_loop_invariant(i <= n && g_presented == i && (unsigned long)*cb->VF_CAP_lambda_counter_value_1_1 == g_sum)
    __CPROVER_decreases(n - i)
  {
    g_slot = nondet_i64(); g_sum += (unsigned long)g_slot; g_presented++;
    long before = g_slot;
    Adder_value_lambda_counter_value_1_op_call(cb, &g_slot);
    __CPROVER_assert(g_slot == before, "K5 C19.adder value() does not modify the slots it reads");
  }
}
static void reset_walk(struct lambda_counter_reset_1 *cb, unsigned long n) {
  for (unsigned long i = 0; i < n; ++i)
    __CPROVER_assigns(i, g_slot, g_presented, g_zeroed)
    __CPROVER_loop_invariant(i <= n && g_presented == i && g_zeroed == i)
    __CPROVER_decreases(n - i)
  {
    g_slot = nondet_i64(); g_presented++;
    Adder_reset_lambda_counter_reset_1_op_call(cb, &g_slot);
    if (g_slot == 0) g_zeroed++;
  }
}
void AddStore_for_each__lambda_counter_reset_1_void(struct AddStore *st, struct lambda_counter_reset_1 *cb) { reset_walk(cb, g_total); }       /* every slot ever used */
#ifdef VF_HAVE_AddStore_for_each_alive__lambda_counter_reset_1_void
/* for_each_alive presents only the slots of threads that are alive now: any subset of the slots ever used */
void AddStore_for_each_alive__lambda_counter_reset_1_void(struct AddStore *st, struct lambda_counter_reset_1 *cb) { unsigned long n = nondet_u64(); __CPROVER_assume(n <= g_total); reset_walk(cb, n); }
#endif
#ifdef VF_HAVE_AddStore_for_each_alive__lambda_counter_value_1_void
void AddStore_for_each_alive__lambda_counter_value_1_void(struct AddStore *st, struct lambda_counter_value_1 *cb) { __CPROVER_assert(0, "C19.adder value() must sum every slot ever used (threads that exited included), not only the live ones"); }
#endif
long *AddStore_local__1(struct AddStore *st) __CPROVER_assigns() __CPROVER_ensures(__CPROVER_return_value == g_local);

long Adder_value(Adder_t *a)
__CPROVER_requires(__CPROVER_is_fresh(a, sizeof(*a)) && g_sum == 0 && g_presented == 0)
__CPROVER_assigns(g_sum, g_slot, g_presented)
__CPROVER_ensures((unsigned long)__CPROVER_return_value == g_sum && g_presented == g_total)
;
void Adder_reset(Adder_t *a)
__CPROVER_requires(__CPROVER_is_fresh(a, sizeof(*a)) && g_presented == 0 && g_zeroed == 0)
__CPROVER_assigns(g_slot, g_presented, g_zeroed)
__CPROVER_ensures(g_zeroed == g_presented && g_presented == g_total)           /* every slot ever used (exited threads included) was left at zero */
;
void Adder_count(Adder_t *a, long value)
__CPROVER_requires(__CPROVER_is_fresh(a, sizeof(*a)) && __CPROVER_is_fresh(g_local, sizeof(long)))
__CPROVER_assigns(*g_local)
__CPROVER_ensures((unsigned long)*g_local == (unsigned long)__CPROVER_old(*g_local) + (unsigned long)value)
;
/* operator<<(v): exactly one count() of the operand converted to the sum type; chaining returns the adder itself */
Adder_t *Adder_op_shl__int(Adder_t *a, int *value)
__CPROVER_requires(__CPROVER_is_fresh(a, sizeof(*a)) && __CPROVER_is_fresh(g_local, sizeof(long)) && __CPROVER_is_fresh(value, sizeof(int)))
__CPROVER_assigns(*g_local)
__CPROVER_ensures((unsigned long)*g_local == (unsigned long)__CPROVER_old(*g_local) + (unsigned long)(long)*value && __CPROVER_return_value == a)
;
#endif
