// driver TU for C19 (adder): ConcurrentAdder = GenericsConcurrentAdder<ssize_t>
#include "babylon/concurrent/counter.h"
namespace babylon_vf {
ssize_t force(::babylon::ConcurrentAdder& a) {
  a << 1; a.reset();
  return a.value();
}
}
