// driver TU for C08 (latch): CountDownLatch<S>::count_down over the promise's contract
#include "babylon/future.h"
namespace babylon_vf {
struct Sched {
  static constexpr bool futex_need_create() noexcept { return false; }
  static uint32_t* create_futex() noexcept;
  static void destroy_futex(uint32_t*) noexcept;
  static int futex_wait(uint32_t*, uint32_t, const struct ::timespec*) noexcept;
  static int futex_wake_one(uint32_t*) noexcept;
  static int futex_wake_all(uint32_t*) noexcept;
  static void usleep(useconds_t) noexcept;
  static void yield() noexcept;
};
using L = ::babylon::CountDownLatch<Sched>;
void force(L& l) { l.count_down(2); }
void force2(size_t n) { L l(n); l.count_down(1); L m(::std::move(l)); m.count_down(1); }
}
