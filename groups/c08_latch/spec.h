/* C08 (latch) -- CountDownLatch<S>::count_down under an SC R/G environment on the counter: other threads count down (amounts that, with
 * mine, add up to the initial count) before and after my read-modify-write.  The future is notified exactly once over all threads, by the thread
 * whose decrement brings the counter to zero, and not before; my decrement is acq_rel, so the notifier has every earlier counter's writes. */
#ifndef C08L_SPEC_H
#define C08L_SPEC_H
unsigned long nondet_u64(void);
unsigned long *g_cnt;                 /* the counter of the latch under verification */
unsigned long g_others_pending;       /* what the other threads still have to count down */
unsigned long g_my_sets, g_other_sets; struct Promise *g_set_on; unsigned long g_set_value; _Bool g_mine_done, g_promise_built; unsigned g_promise_moves;
static void vf_havoc_ghosts(void) { g_others_pending = nondet_u64(); g_my_sets = 0; g_other_sets = 0; g_set_on = 0; g_mine_done = 0; g_promise_built = 0; g_promise_moves = 0; }
static void env_step(void) {
  unsigned long d = nondet_u64();
  __CPROVER_assume(d <= g_others_pending);
  if (d == 0) return;
  *g_cnt -= d; g_others_pending -= d;
  if (*g_cnt == 0) g_other_sets++;           /* GUAR of count_down, run by another thread */
}
unsigned long vf_atomic_fetch_sub_u64(unsigned long *p, unsigned long v, int order, int site) {
  if (p == g_cnt) env_step();
  __CPROVER_assert(order == 4 || order == 5, "K6 C08.latch the decrement is acq_rel: the notifying thread has the other counters' writes");
  unsigned long old = *p; *p = old - v;
  if (p == g_cnt) { g_mine_done = 1; env_step(); }      /* others go on counting while I look at my result */
  return old;
}
unsigned long vf_atomic_load_u64(unsigned long *p, int order, int site) { if (p == g_cnt) env_step(); return *p; }   /* not used by the pinned code */
void Promise_set_value__int(struct Promise *p, int *v) {
  __CPROVER_assert(*g_cnt == 0 && (g_mine_done || g_promise_built), "GUAR C08.latch the future is notified only once the counter is at zero");
  g_my_sets++; g_set_on = p; g_set_value = (unsigned long)*v;
}
void Latch_count_down(struct Latch *self, unsigned long down)
__CPROVER_requires(__CPROVER_is_fresh(self, sizeof(*self)))
__CPROVER_requires(__CPROVER_pointer_equals(g_cnt, (unsigned long *)&self->_count))
__CPROVER_requires(down >= 1 && down < (1UL << 62) && g_others_pending < (1UL << 62) && *g_cnt == down + g_others_pending)
__CPROVER_requires(g_my_sets == 0 && g_other_sets == 0 && !g_mine_done)
__CPROVER_assigns(*g_cnt, g_others_pending, g_my_sets, g_other_sets, g_set_on, g_set_value, g_mine_done)
__CPROVER_ensures(g_mine_done && *g_cnt == g_others_pending)                                   /* my amount is off the counter, once */
__CPROVER_ensures(g_my_sets + g_other_sets == (*g_cnt == 0 ? 1 : 0))                            /* one notification iff the counter reached zero */
__CPROVER_ensures(g_my_sets == 1 ==> (g_set_on == &self->_promise && g_other_sets == 0))
;
/* constructor: the counter starts at `count`; a latch of count 0 is born finished (the future is notified at once, by the constructor,
 * exactly once); any other count notifies nothing.  No environment: the object is not shared before the constructor returns. */
void Promise_ctor__void(struct Promise *p) { g_promise_built = 1; }
void Latch_ctor__u64(struct Latch *self, unsigned long count)
__CPROVER_requires(__CPROVER_is_fresh(self, sizeof(*self)))
__CPROVER_requires(__CPROVER_pointer_equals(g_cnt, (unsigned long *)&self->_count))
__CPROVER_requires(g_others_pending == 0 && g_my_sets == 0 && g_other_sets == 0 && !g_promise_built)
__CPROVER_assigns(*g_cnt, g_my_sets, g_set_on, g_set_value, g_promise_built, g_others_pending, g_other_sets, g_mine_done)
__CPROVER_ensures(*g_cnt == count && g_promise_built && g_other_sets == 0)
__CPROVER_ensures(g_my_sets == (count == 0 ? 1 : 0))
__CPROVER_ensures(g_my_sets == 1 ==> g_set_on == &self->_promise)
;
/* move constructor: the new latch takes over the counter value and the promise (moved exactly once, from the source's promise);
 * nothing is notified by the move.  Documented as not concurrent with count_down on the source: no environment. */
struct Promise *g_move_dst, *g_move_src;
void Promise_ctor__Sched_RR(struct Promise *dst, struct Promise *src) { g_promise_moves++; g_move_dst = dst; g_move_src = src; }
void Latch_ctor__Sched_RR(struct Latch *self, struct Latch *other)
__CPROVER_requires(__CPROVER_is_fresh(self, sizeof(*self)) && __CPROVER_is_fresh(other, sizeof(*other)))
__CPROVER_requires(g_cnt == (unsigned long *)0 || __CPROVER_pointer_equals(g_cnt, (unsigned long *)&other->_count))
__CPROVER_requires(g_others_pending == 0 && g_my_sets == 0 && g_promise_moves == 0)
__CPROVER_assigns(self->_count, g_promise_moves, g_move_dst, g_move_src, g_others_pending, g_other_sets, *g_cnt)
__CPROVER_ensures(self->_count == other->_count && other->_count == __CPROVER_old(other->_count))
__CPROVER_ensures(g_promise_moves == 1 && g_move_dst == &self->_promise && g_move_src == &other->_promise && g_my_sets == 0)
;
#endif
