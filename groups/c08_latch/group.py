L = 'babylon::CountDownLatch<babylon_vf::Sched>'
PR = 'babylon::Promise<unsigned long, babylon_vf::Sched>'
SP = 'std::shared_ptr<babylon::FutureContext<unsigned long,babylon_vf::Sched>>'
GROUP = dict(
    prop='C08',
    driver='driver.cpp',
    spec='spec.h',
    aliases=[(SP, 'CtxPtr'), (PR, 'Promise'), (L, 'Latch'), ('babylon_vf::', '')],
    opaque_by_value=[SP],
    extern_re=[r'Promise<unsigned long,\s*babylon_vf::Sched>::'],
    roots=[L + '::count_down', {'name': L + '::CountDownLatch', 'sig': '(size_t)'}, {'name': L + '::CountDownLatch', 'sig': '&&'}],
    reviewed_compiler_conditionals=[],
    assumptions=['SC; the latch protocol: the amounts passed to count_down by all threads add up to the initial count (documented use), each amount >= 1',
                 'Promise<size_t>::set_value is a stub here; its own contract is discharged in group c08_future for FutureContext<int>'],
    jobs=[
        dict(id='C08.latch.count_down', enforce='Latch_count_down', covers=['g_my_sets == 1', 'g_other_sets == 1', 'g_my_sets + g_other_sets == 0']),
        dict(id='C08.latch.ctor', enforce='Latch_ctor__u64', covers=['g_my_sets == 1', 'g_my_sets == 0']),
        dict(id='C08.latch.move_ctor', enforce='Latch_ctor__Sched_RR'),
    ],
)
