SV = 'babylon::ConcurrentVector<babylon::Epoch::Slot, 0>'
GROUP = dict(
    prop='C09',
    driver='driver.cpp',
    spec='spec.h',
    aliases=[(SV, 'SlotVec'), ('babylon::IdAllocator<unsigned int>', 'IdAlloc')],
    opaque_by_value=['babylon::IdAllocator<unsigned int>', 'babylon::ConcurrentVector<babylon::Epoch::Slot, 0>'],
    extern_re=[r'ConcurrentVector<babylon::Epoch::Slot,\s*0>::(operator\[\]|ensure|snapshot)', r'IdAllocator<unsigned int>::(allocate|deallocate|end)'],
    roots=['babylon::Epoch::lock', 'babylon::Epoch::unlock', 'babylon::Epoch::tick', 'babylon::Epoch::Accessor::release',
           'babylon::Epoch::Accessor::lock', 'babylon::Epoch::Accessor::unlock'],
    reviewed_compiler_conditionals=['src/babylon/concurrent/epoch.h:#if GCC_VERSION >= 120000'],
    assumptions=['slot storage (ConcurrentVector<Slot>::operator[]) returns the slot of the index (contract stub; address stability is C04)',
                 'IdAllocator::deallocate returns the id (C14)', 'x86-64 arm of the tick() #if is the one verified',
                 'sufficiency of the seq_cst fence / RMW pair (store-buffering argument) is assumed; their presence and position are checked'],
    jobs=[
        dict(id='C09.lock', enforce='Epoch_lock__u64', replace=['SlotVec_op_index__u64']),
        dict(id='C09.unlock', enforce='Epoch_unlock__u64', replace=['SlotVec_op_index__u64']),
        dict(id='C09.tick', enforce='Epoch_tick'),
        dict(id='C09.accessor_release', enforce='Epoch_Accessor_release', replace=['SlotVec_op_index__u64', 'IdAlloc_deallocate']),
    ],
)
