// driver TU for C09: Epoch critical-region bookkeeping
#include "babylon/concurrent/epoch.h"
namespace babylon_vf {
uint64_t force(::babylon::Epoch& e) {
  auto a = e.create_accessor();
  a.lock(); a.unlock(); a.release();
  e.lock(); e.unlock();
  return e.tick() + e.low_water_mark();
}
}
