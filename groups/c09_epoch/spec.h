/* C09 -- Epoch critical-region bookkeeping: lock(index) / unlock(index) / tick() / Accessor::release().
 * Slot storage (ConcurrentVector<Slot>) is a contract stub that hands out the ghost slot g_slot for the ghost index g_index;
 * atomics are executable stubs: each performs its operation, records fence/order facts and asserts the per-site order (K6). */
#ifndef C09_SPEC_H
#define C09_SPEC_H
typedef struct Epoch Epoch_t;
typedef struct Epoch_Slot Slot_t;
unsigned long nondet_u64(void);
Slot_t *g_slot;              /* the slot of index g_index */
unsigned long g_index;
_Bool g_fence_after_store;   /* a seq_cst fence was executed after the last store to the slot's version */
_Bool g_store_seen;
unsigned long g_global_at_load;
_Bool g_id_returned;
static void vf_havoc_ghosts(void) { g_index = nondet_u64(); g_fence_after_store = 0; g_store_seen = 0; g_id_returned = 0; }

#define OUTSIDE(s) ((s)->version == 0xFFFFFFFFFFFFFFFFUL && (s)->lock_times == 0)
/* representation invariant of a slot: in a region (lock_times > 0) iff it publishes a version */
#define SLOT_WF(s) (((s)->lock_times > 0) == ((s)->version != 0xFFFFFFFFFFFFFFFFUL))

unsigned long vf_atomic_load_u64(unsigned long *p, int order, int site) { g_global_at_load = *p; return *p; }
void vf_atomic_store_u64(unsigned long *p, unsigned long v, int order, int site) {
  if (site == SITE_Epoch_unlock_u64_version_store_1)
    __CPROVER_assert(order == 3 || order == 4 || order == 5, "K6 C09.unlock the leave-region store is at least release");
  *p = v;
  if (p == &g_slot->version) { g_store_seen = 1; g_fence_after_store = 0; }
}
void vf_fence(int order, int site) { if (order == 5 && g_store_seen) g_fence_after_store = 1; }
unsigned long vf_atomic_fetch_add_u64(unsigned long *p, unsigned long v, int order, int site) {
  __CPROVER_assert(order == 5, "K6 C09.tick the epoch increment is a seq_cst read-modify-write (x86-64 arm of the #if)");
  unsigned long old = *p; *p = old + v; return old;
}

Slot_t *SlotVec_op_index__u64(struct SlotVec *v, unsigned long index)
__CPROVER_requires(index == g_index)
__CPROVER_assigns()
__CPROVER_ensures(__CPROVER_return_value == g_slot);

void IdAlloc_deallocate(struct IdAlloc *a, struct VersionedValue_L_unsigned_int_R id)
__CPROVER_assigns(g_id_returned)
__CPROVER_ensures(g_id_returned);

#define EPOCH_SHAPE(e) (__CPROVER_is_fresh(e, sizeof(*e)) && __CPROVER_is_fresh(g_slot, sizeof(*g_slot)) && SLOT_WF(g_slot) && g_slot->lock_times < (1UL << 62))

/* lock(index): nesting counter; the outermost entry publishes the global epoch read at entry and then fences (Dekker pair) */
void Epoch_lock__u64(Epoch_t *e, unsigned long index)
__CPROVER_requires(EPOCH_SHAPE(e) && index == g_index && e->_version < 0xFFFFFFFFFFFFFFFFUL)
__CPROVER_assigns(g_slot->version, g_slot->lock_times, g_store_seen, g_fence_after_store, g_global_at_load)
__CPROVER_ensures(g_slot->lock_times == __CPROVER_old(g_slot->lock_times) + 1 && SLOT_WF(g_slot))
__CPROVER_ensures(__CPROVER_old(g_slot->lock_times) > 0 ==> g_slot->version == __CPROVER_old(g_slot->version))         /* nested entry keeps the outermost version */
__CPROVER_ensures(__CPROVER_old(g_slot->lock_times) == 0 ==> (g_slot->version == e->_version && g_slot->version == g_global_at_load)) /* version at entry <= global */
__CPROVER_ensures(__CPROVER_old(g_slot->lock_times) == 0 ==> g_fence_after_store)                                       /* K6: seq_cst fence after the slot store */
;
/* unlock(index): the outermost exit returns the slot to the outside state */
void Epoch_unlock__u64(Epoch_t *e, unsigned long index)
__CPROVER_requires(EPOCH_SHAPE(e) && index == g_index && g_slot->lock_times >= 1)
__CPROVER_assigns(g_slot->version, g_slot->lock_times, g_store_seen, g_fence_after_store)
__CPROVER_ensures(g_slot->lock_times == __CPROVER_old(g_slot->lock_times) - 1 && SLOT_WF(g_slot))
__CPROVER_ensures(__CPROVER_old(g_slot->lock_times) > 1 ==> g_slot->version == __CPROVER_old(g_slot->version))
;
/* tick(): strictly increases the global epoch and returns the new value */
uint64_t Epoch_tick(Epoch_t *e)
__CPROVER_requires(__CPROVER_is_fresh(e, sizeof(*e)) && e->_version < 0xFFFFFFFFFFFFFFFEUL)
__CPROVER_assigns(e->_version)
__CPROVER_ensures(__CPROVER_return_value == __CPROVER_old(e->_version) + 1 && e->_version == __CPROVER_return_value)
;
/* Accessor::release(): C09 "a released Accessor never holds the mark back": whatever the accessor's lock depth, after
 * release its slot is in the outside state (and its id went back to the allocator) */
void Epoch_Accessor_release(struct Epoch_Accessor *a)
__CPROVER_requires(__CPROVER_is_fresh(a, sizeof(*a)) && a->_index == g_index)
__CPROVER_requires(__CPROVER_is_fresh(g_slot, sizeof(*g_slot)) && SLOT_WF(g_slot) && g_slot->lock_times < (1UL << 62))
__CPROVER_requires(a->_epoch == (Epoch_t *)0 || __CPROVER_is_fresh(a->_epoch, sizeof(*a->_epoch)))
__CPROVER_assigns(a->_epoch, g_id_returned, g_store_seen, g_fence_after_store, g_slot->version, g_slot->lock_times)
__CPROVER_ensures(a->_epoch == (Epoch_t *)0)
__CPROVER_ensures(__CPROVER_old(a->_epoch) != (Epoch_t *)0 ==> (g_id_returned && OUTSIDE(g_slot)))
;
#endif
