import os, sys
sys.path.insert(0, os.path.join(os.path.dirname(os.path.abspath(__file__)), '..', '..', 'tools'))
import replaylib
HERE = os.path.dirname(os.path.abspath(__file__))


def replay(job, failed, report, bdir):
    if job['id'] != 'C09.accessor_release':
        report['native_replay'] = 'no staged replay for this obligation'
        return False
    rc, out = replaylib.build_and_run(os.path.join(HERE, 'replay', 'release_while_locked.cpp'), os.path.join(bdir, 'replay'))
    report['native_replay'] = {'program': 'groups/c09_epoch/replay/release_while_locked.cpp', 'exit': rc, 'output': out,
                               'staging': 'counterexample class: accessor released with lock_times > 0'}
    return rc == 1
