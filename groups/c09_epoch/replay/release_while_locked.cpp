// native replay of C09.accessor_release/postcondition "released accessor leaves its slot in the outside state"
// exit 1: a released Accessor keeps holding the low water mark back
#include "babylon/concurrent/epoch.h"
#include <cstdio>
int main() {
  ::babylon::Epoch epoch;
  int bad = 0;
  {
    auto accessor = epoch.create_accessor();
    accessor.lock();
    accessor.release();                       // released while inside a region
  }
  auto tick = epoch.tick();
  if (epoch.low_water_mark() < tick) {
    std::printf("after lock(); release(); tick()=%lu: low_water_mark()=%lu is held back by the released accessor\n", (unsigned long)tick, (unsigned long)epoch.low_water_mark());
    bad++;
  }
  {
    auto again = epoch.create_accessor();     // recycles the slot
    again.lock(); again.unlock();
  }
  auto tick2 = epoch.tick();
  if (epoch.low_water_mark() < tick2) {
    std::printf("after the slot was recycled and unlocked, tick()=%lu: low_water_mark()=%lu still held back\n", (unsigned long)tick2, (unsigned long)epoch.low_water_mark());
    bad++;
  }
  return bad ? 1 : 0;
}
