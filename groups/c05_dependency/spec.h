/* C05 (core counter protocol only) -- GraphDependency::activate / ready: however the activation of a dependency races with its
 * condition and its target becoming ready, the source vertex is told "this dependency is finished" exactly once -- either by
 * activate returning 1 (counted by GraphVertex::activate) or by one call of source->ready(this) -- and only when the dependency
 * really is finished (condition ready, and target ready if the condition holds).
 *
 * Method: a LEMMA harness over the real lowered functions.  The three parties (the activating thread A, the thread T that makes the
 * target ready, the thread C that makes the condition ready) are run by a scheduler that picks an enabled party nondeterministically
 * at the start and again at every atomic operation on _waiting_num of a running party (the ready flag of a data is set in the same
 * step as its ready() call starts; reads of data state are not switch points): a preempting party runs to completion there (preemptions nest).  The scheduler loops are bounded by
 * the number of parties (3), which is complete for that exploration, not an input bound.
 * NOT covered: interleavings in which two parties are both preempted in the middle and resume alternately; error exits
 * (acquire_*_depend failing, recursive_activate failing); weak memory. */
#ifndef C05_SPEC_H
#define C05_SPEC_H
_Bool nondet_bool(void); int nondet_int(void);
typedef struct Dep Dep_t;
struct Dep g_dep; struct Data *g_target = (struct Data *)0x1000, *g_cond = (struct Data *)0x2000; struct Vertex *g_source = (struct Vertex *)0x3000;
_Bool g_has_cond, g_cond_val;                 /* the condition data's value once ready */
_Bool g_tready, g_cready;                     /* ready flags of the two data (set by their threads before they call ready()) */
_Bool g_done_A, g_done_T, g_done_C, g_run_A, g_run_T, g_run_C;   /* party finished / currently on the stack */
unsigned g_signals, g_ttrig, g_ctrig; _Bool g_sched_on;
#define E_HOLDS (!g_has_cond || g_cond_val == g_dep._establish_value)
static void signal_finished(void) {
  g_signals++;
  __CPROVER_assert(g_signals == 1, "K1 C05.dependency the source vertex is told at most once that this dependency is finished");
  __CPROVER_assert((!g_has_cond || g_cready) && (!E_HOLDS || g_tready), "K1 C05.dependency finished is signalled only when the condition is ready and, if it holds, the target is ready");
}
static void party_A(void); static void party_T(void); static void party_C(void);
static void yield_point(void) {      /* other parties may run here, to completion */
  if (!g_sched_on) return;
  for (int i = 0; i < 2; i++) {       /* at most two other parties exist */
    int pick = nondet_int();
    if (pick == 0 && !g_done_A && !g_run_A) party_A();
    else if (pick == 1 && !g_done_T && !g_run_T) party_T();
    else if (pick == 2 && g_has_cond && !g_done_C && !g_run_C) party_C();
  }
}
long vf_atomic_fetch_add_i64(long *p, long v, int order, int site) { yield_point(); long o = *p; *p = o + v; __CPROVER_assert(order == 4 || order == 5, "K6 C05 the waiting counter is updated acq_rel"); return o; }
long vf_atomic_fetch_sub_i64(long *p, long v, int order, int site) { yield_point(); long o = *p; *p = o - v; __CPROVER_assert(order == 4 || order == 5, "K6 C05 the waiting counter is updated acq_rel"); return o; }
_Bool Data_ready(struct Data *d) { return d == g_target ? g_tready : g_cready; }
_Bool Data_as__bool(struct Data *d) { __CPROVER_assert(d == g_cond && g_cready, "K1 C05.dependency the condition's value is read only after it is ready"); return g_cond_val; }
_Bool Data_acquire_immutable_depend(struct Data *d) { return 1; }      /* error exits are not part of this lemma */
_Bool Data_acquire_mutable_depend(struct Data *d) { return 1; }
void Data_trigger(struct Data *d, struct absl_InlinedVector_L_DataP_128_R *s) { if (d == g_target) g_ttrig++; else g_ctrig++; }
int32_t Data_recursive_activate(struct Data *d, struct absl_InlinedVector_L_VertexP_128_R *r, struct ClosureContext *c) { if (d == g_target) g_ttrig++; else g_ctrig++; return 0; }
struct ClosureContext *Vertex_closure(struct Vertex *v) { return (struct ClosureContext *)0x4000; }
void ClosureContext_finish(struct ClosureContext *c, int e) { __CPROVER_assert(0, "C05 lemma: error exit reached although no party fails"); }
_Bool Vertex_ready(struct Vertex *v, Dep_t *d) { __CPROVER_assert(v == g_source && d == &g_dep, "K1 C05.dependency reports to its own source"); signal_finished(); return nondet_bool(); }
struct Vertex **absl_InlinedVector_L_VertexP_128_R_emplace_back(struct absl_InlinedVector_L_VertexP_128_R *r, struct Vertex *v) { static struct Vertex *slot; slot = v; return &slot; }

static void party_A(void) {
  g_run_A = 1;
  int r = Dep_activate(&g_dep, (struct absl_InlinedVector_L_DataP_128_R *)0);
  __CPROVER_assert(r == 0 || r == 1, "K1 C05.activate returns 0 (pending) or 1 (already finished) when nothing fails");
  if (r == 1) signal_finished();
  g_run_A = 0; g_done_A = 1;
}
static void party_T(void) {          /* GraphData::release of the target: flag first, then every successor dependency is told */
  g_run_T = 1;
  g_tready = 1;
  Dep_ready__GraphDataP_GraphVertexP_128_RR(&g_dep, g_target, (struct absl_InlinedVector_L_VertexP_128_R *)0);
  g_run_T = 0; g_done_T = 1;
}
static void party_C(void) {
  g_run_C = 1;
  g_cready = 1;
  Dep_ready__GraphDataP_GraphVertexP_128_RR(&g_dep, g_cond, (struct absl_InlinedVector_L_VertexP_128_R *)0);
  g_run_C = 0; g_done_C = 1;
}
void lemma_dependency_finished_once(void) {
  g_has_cond = nondet_bool(); g_cond_val = nondet_bool();
  g_dep._source = g_source; g_dep._target = g_target; g_dep._condition = g_has_cond ? g_cond : (struct Data *)0;
  g_dep._establish_value = nondet_bool(); g_dep._mutable = nondet_bool(); g_dep._essential = nondet_bool();
  g_dep._waiting_num = 0; g_dep._established = 0; g_dep._ready = 0;        /* GraphDependency::reset() */
  g_tready = g_cready = 0; g_done_A = g_done_T = g_done_C = g_run_A = g_run_T = g_run_C = 0; g_signals = g_ttrig = g_ctrig = 0;
  g_sched_on = 1;
  yield_point();                      /* any subset of the parties, in any order, preempting each other */
  yield_point();
  g_sched_on = 0;
  /* liveness-free completeness: once everybody who must act has acted, the signal was given */
  if (g_done_A && (!g_has_cond || g_done_C) && (!E_HOLDS || g_done_T))
    __CPROVER_assert(g_signals == 1, "K1 C05.dependency once activated and all its data are ready the source has been told exactly once");
  /* an established dependency whose target is ready reports ready; otherwise it does not */
  if (g_signals == 1)
    __CPROVER_assert(g_dep._ready == (E_HOLDS && g_tready) || (g_dep._ready && E_HOLDS && g_tready), "K1 C05.dependency ready() tells whether the condition holds and the target is ready");
  /* the target is triggered only for a dependency whose condition holds */
  if (g_ttrig > 0) __CPROVER_assert(E_HOLDS && g_done_A + g_run_A > 0, "K1 C05.dependency the target is activated only after activation and only if the condition holds");
  __CPROVER_assert(0, "VF_VACUITY_TWIN lemma reachable (must fail)");
}
#endif
