/* C05 (core counter protocol only) -- GraphDependency::activate / ready: however the activation of a dependency races with its
 * condition and its target becoming ready, the source vertex is told "this dependency is finished" exactly once -- either by
 * activate returning 1 (counted by GraphVertex::activate) or by one call of source->ready(this) -- and only when the dependency
 * really is finished (condition ready, and target ready if the condition holds).
 *
 * Method: a LEMMA harness over the real lowered functions.  The three parties (the activating thread A, the thread T that makes the
 * target ready, the thread C that makes the condition ready) are run by a scheduler that picks an enabled party nondeterministically
 * at the start and again at every atomic operation on _waiting_num of a running party (the ready flag of a data is set in the same
 * step as its ready() call starts; reads of data state are not switch points): a preempting party runs to completion there (preemptions nest).  The scheduler loops are bounded by
 * the number of parties (3), which is complete for that exploration, not an input bound.
 * NOT covered: interleavings in which two parties are both preempted in the middle and resume alternately; error exits
 * (acquire_*_depend failing, recursive_activate failing); weak memory. */
#ifndef C05_SPEC_H
#define C05_SPEC_H
_Bool nondet_bool(void); int nondet_int(void);
typedef struct Dep Dep_t;
/* ghosts of the vertex jobs (declared for every job: loop contracts are spliced into the shared lowered text) */
unsigned g_dep_resets, g_proc_resets; struct Dep g_dep_obj[1];
size_t g_n, g_it, g_it_end; unsigned g_ret1, g_env_dec, g_activated_deps, g_pushed; _Bool g_stored, g_cas_won, g_on_activate_fails; long g_dep_err;
#ifdef VF_LEMMA
struct Dep g_dep; struct Vertex g_vertex; struct Data *g_target = (struct Data *)0x1000, *g_cond = (struct Data *)0x2000; struct Vertex *g_source = &g_vertex;
_Bool g_has_cond, g_cond_val;                 /* the condition data's value once ready */
_Bool g_tready, g_cready;                     /* ready flags of the two data (set by their threads before they call ready()) */
_Bool g_done_A, g_done_T, g_done_C, g_run_A, g_run_T, g_run_C;   /* party finished / currently on the stack */
unsigned g_signals, g_ttrig, g_ctrig; _Bool g_sched_on;
#define E_HOLDS (!g_has_cond || g_cond_val == g_dep._establish_value)
static void signal_finished(void) {
  g_signals++;
  __CPROVER_assert(g_signals == 1, "K1 C05.dependency the source vertex is told at most once that this dependency is finished");
  __CPROVER_assert((!g_has_cond || g_cready) && (!E_HOLDS || g_tready), "K1 C05.dependency finished is signalled only when the condition is ready and, if it holds, the target is ready");
}
static void party_A(void); static void party_T(void); static void party_C(void);
static void yield_point(void) {      /* other parties may run here, to completion */
  if (!g_sched_on) return;
  for (int i = 0; i < 2; i++) {       /* at most two other parties exist */
    int pick = nondet_int();
    if (pick == 0 && !g_done_A && !g_run_A) party_A();
    else if (pick == 1 && !g_done_T && !g_run_T) party_T();
    else if (pick == 2 && g_has_cond && !g_done_C && !g_run_C) party_C();
  }
}
long vf_atomic_fetch_add_i64(long *p, long v, int order, int site) { yield_point(); long o = *p; *p = o + v; __CPROVER_assert(order == 4 || order == 5, "K6 C05 the waiting counter is updated acq_rel"); return o; }
long vf_atomic_fetch_sub_i64(long *p, long v, int order, int site) {
  if (p == &g_vertex._waiting_num) { signal_finished(); long o2 = *p; *p = o2 - v; return o2; }   /* inside the real GraphVertex::ready(dep) */
  yield_point(); long o = *p; *p = o - v; __CPROVER_assert(order == 4 || order == 5, "K6 C05 the waiting counter is updated acq_rel"); return o; }
_Bool Data_ready(struct Data *d) { return d == g_target ? g_tready : g_cready; }
_Bool Data_as__bool(struct Data *d) { __CPROVER_assert(d == g_cond && g_cready, "K1 C05.dependency the condition's value is read only after it is ready"); return g_cond_val; }
_Bool Data_acquire_immutable_depend(struct Data *d) { return 1; }      /* error exits are not part of this lemma */
_Bool Data_acquire_mutable_depend(struct Data *d) { return 1; }
void Data_trigger(struct Data *d, struct absl_InlinedVector_L_DataP_128_R *s) { if (d == g_target) g_ttrig++; else g_ctrig++; }
int32_t Data_recursive_activate(struct Data *d, struct absl_InlinedVector_L_VertexP_128_R *r, struct ClosureContext *c) { if (d == g_target) g_ttrig++; else g_ctrig++; return 0; }
struct ClosureContext *Vertex_closure(struct Vertex *v) { return (struct ClosureContext *)0x4000; }
void ClosureContext_finish(struct ClosureContext *c, int e) { __CPROVER_assert(0, "C05 lemma: error exit reached although no party fails"); }
struct Vertex **absl_InlinedVector_L_VertexP_128_R_emplace_back(struct absl_InlinedVector_L_VertexP_128_R *r, struct Vertex *v) { static struct Vertex *slot; slot = v; return &slot; }

static void party_A(void) {
  g_run_A = 1;
  int r = Dep_activate(&g_dep, (struct absl_InlinedVector_L_DataP_128_R *)0);
  __CPROVER_assert(r == 0 || r == 1, "K1 C05.activate returns 0 (pending) or 1 (already finished) when nothing fails");
  if (r == 1) signal_finished();
  g_run_A = 0; g_done_A = 1;
}
static void party_T(void) {          /* GraphData::release of the target: flag first, then every successor dependency is told */
  g_run_T = 1;
  g_tready = 1;
  Dep_ready__GraphDataP_GraphVertexP_128_RR(&g_dep, g_target, (struct absl_InlinedVector_L_VertexP_128_R *)0);
  g_run_T = 0; g_done_T = 1;
}
static void party_C(void) {
  g_run_C = 1;
  g_cready = 1;
  Dep_ready__GraphDataP_GraphVertexP_128_RR(&g_dep, g_cond, (struct absl_InlinedVector_L_VertexP_128_R *)0);
  g_run_C = 0; g_done_C = 1;
}
void lemma_dependency_finished_once(void) {
  g_has_cond = nondet_bool(); g_cond_val = nondet_bool();
  g_dep._source = g_source; g_dep._target = g_target; g_dep._condition = g_has_cond ? g_cond : (struct Data *)0;
  g_dep._establish_value = nondet_bool(); g_dep._mutable = nondet_bool(); g_dep._essential = nondet_bool();
  g_dep._waiting_num = 0; g_dep._established = 0; g_dep._ready = 0;        /* GraphDependency::reset() */
  g_tready = g_cready = 0; g_done_A = g_done_T = g_done_C = g_run_A = g_run_T = g_run_C = 0; g_signals = g_ttrig = g_ctrig = 0;
  g_sched_on = 1;
  yield_point();                      /* any subset of the parties, in any order, preempting each other */
  yield_point();
  g_sched_on = 0;
  /* liveness-free completeness: once everybody who must act has acted, the signal was given */
  if (g_done_A && (!g_has_cond || g_done_C) && (!E_HOLDS || g_done_T))
    __CPROVER_assert(g_signals == 1, "K1 C05.dependency once activated and all its data are ready the source has been told exactly once");
  /* an established dependency whose target is ready reports ready; otherwise it does not */
  if (g_signals == 1)
    __CPROVER_assert(g_dep._ready == (E_HOLDS && g_tready) || (g_dep._ready && E_HOLDS && g_tready), "K1 C05.dependency ready() tells whether the condition holds and the target is ready");
  /* the target is triggered only for a dependency whose condition holds */
  if (g_ttrig > 0) __CPROVER_assert(E_HOLDS && g_done_A + g_run_A > 0, "K1 C05.dependency the target is activated only after activation and only if the condition holds");
  __CPROVER_assert(0, "VF_VACUITY_TWIN lemma reachable (must fail)");
}
#endif

#ifdef VF_VERTEX
/* ---- GraphVertex::activate / ready: the vertex counter.  n = number of dependencies.  Every dependency tells the vertex exactly once
 * that it is finished (C05.dependency.lemma): either its activate() returns 1 -- these are summed in `finished` and subtracted once
 * -- or it calls vertex.ready(dep) later (one decrement each; possibly concurrently with the rest of activate: environment).
 * Obligations: a second activation does nothing; the counter is set to n before any dependency is activated (so no early
 * decrement is lost); the vertex is put into the runnable set by this call exactly when its own subtraction brings the counter to
 * zero (or it has no dependencies); a failing dependency activation is propagated. */
static void vf_havoc_ghosts(void) { g_n = (size_t)nondet_int(); g_ret1 = g_env_dec = g_activated_deps = g_pushed = 0; g_stored = 0; g_cas_won = 0; g_on_activate_fails = nondet_bool(); g_dep_err = 0; g_dep_resets = g_proc_resets = 0; }
typedef struct gnu_cxx_normal_iterator_L_DepP_std_vector_L_Dep_R_R DIt_t;
unsigned long std_vector_L_Dep_R_size(struct std_vector_L_Dep_R *v) { return g_n; }
DIt_t std_vector_L_Dep_R_begin(struct std_vector_L_Dep_R *v) { DIt_t r; r.p = &g_dep_obj[0]; g_it = 0; return r; }
DIt_t std_vector_L_Dep_R_end(struct std_vector_L_Dep_R *v) { DIt_t r; r.p = &g_dep_obj[0]; g_it_end = g_n; return r; }
_Bool gnu_cxx_normal_iterator_L_DepP_std_vector_L_Dep_R_R_op_eq(DIt_t *a, DIt_t *b) { return g_it == g_it_end; }
DIt_t *gnu_cxx_normal_iterator_L_DepP_std_vector_L_Dep_R_R_op_inc(DIt_t *a) { g_it++; return a; }
struct Dep *gnu_cxx_normal_iterator_L_DepP_std_vector_L_Dep_R_R_op_star(DIt_t *a) { __CPROVER_assert(g_it < g_n, "K5 C05.vertex activates only existing dependencies"); return &g_dep_obj[0]; }
void gnu_cxx_normal_iterator_L_DepP_std_vector_L_Dep_R_R_dtor(DIt_t *a) { }
struct GraphProcessor *std_unique_ptr_L_GraphProcessor_R_op_arrow(struct std_unique_ptr_L_GraphProcessor_R *p) { return (struct GraphProcessor *)0x5000; }
int GraphProcessor_on_activate(struct GraphProcessor *p) { return g_on_activate_fails ? 1 : 0; }
struct Vertex **absl_InlinedVector_L_VertexP_128_R_emplace_back(struct absl_InlinedVector_L_VertexP_128_R *r, struct Vertex *v) { static struct Vertex *slot; slot = v; g_pushed++; return &slot; }
_Bool vf_atomic_compare_exchange_strong_bool(_Bool *p, _Bool *e, _Bool d, int s, int f, int site) { if (*p != *e) { *e = *p; return 0; } *p = d; g_cas_won = 1; return 1; }
void vf_atomic_store_i64(long *p, long v, int order, int site) { __CPROVER_assert(g_activated_deps == 0, "K5 C05.vertex the counter is set before any dependency is activated"); *p = v; g_stored = 1; }
long vf_atomic_fetch_add_i64(long *p, long v, int order, int site) { long o = *p; *p = o + v; return o; }
long vf_atomic_fetch_sub_i64(long *p, long v, int order, int site) {
  /* environment: dependencies activated so far that did not return 1 may have reported ready meanwhile */
  unsigned k = (unsigned)nondet_int(); __CPROVER_assume(k <= g_activated_deps - g_ret1 - g_env_dec); g_env_dec += k; *p -= (long)k;
  __CPROVER_assert(order == 4 || order == 5, "K6 C05.vertex the counter is decremented acq_rel");
  long o = *p; *p = o - v; return o;
}
int Dep_activate(struct Dep *d, struct absl_InlinedVector_L_DataP_128_R *a)
__CPROVER_requires(g_stored)                  /* asserted at the call: the counter is already set */
__CPROVER_assigns(g_activated_deps, g_ret1, g_dep_err)
__CPROVER_ensures(g_activated_deps == __CPROVER_old(g_activated_deps) + 1)
__CPROVER_ensures(__CPROVER_return_value == 1 ? g_ret1 == __CPROVER_old(g_ret1) + 1 : g_ret1 == __CPROVER_old(g_ret1))
__CPROVER_ensures(__CPROVER_return_value <= 1 && (__CPROVER_return_value < 0) == (g_dep_err != 0) && (g_dep_err == 0 || g_dep_err == __CPROVER_return_value))
;
int Vertex_activate(struct Vertex *v, struct absl_InlinedVector_L_DataP_128_R *a, struct absl_InlinedVector_L_VertexP_128_R *r, struct ClosureContext *c)
__CPROVER_requires(__CPROVER_is_fresh(v, sizeof(*v)) && g_n < (1UL << 20) && g_activated_deps == 0 && g_ret1 == 0 && g_env_dec == 0 && g_pushed == 0 && g_dep_err == 0)
__CPROVER_assigns(v->_activated, v->_closure, v->_waiting_num, g_it, g_it_end, g_ret1, g_env_dec, g_activated_deps, g_pushed, g_stored, g_cas_won, g_dep_err)
/* only the first activation does anything */
__CPROVER_ensures(!g_cas_won ==> (__CPROVER_return_value == 0 && g_pushed == 0 && g_activated_deps == 0 && !g_stored))
__CPROVER_ensures(g_cas_won ==> v->_closure == c)
__CPROVER_ensures((g_cas_won && g_n == 0) ==> (g_pushed == 1 && __CPROVER_return_value == 0))
__CPROVER_ensures((g_cas_won && g_n > 0 && g_on_activate_fails) ==> (__CPROVER_return_value == -1 && g_pushed == 0 && g_activated_deps == 0))
__CPROVER_ensures((g_cas_won && g_n > 0 && !g_on_activate_fails && g_dep_err != 0) ==> (__CPROVER_return_value == g_dep_err && g_pushed == 0))
/* all dependencies activated; runnable by this call exactly when this call's subtraction brought the counter to zero, i.e. every
 * dependency has reported by then (returned 1 here, or called ready() meanwhile) */
__CPROVER_ensures((g_cas_won && g_n > 0 && !g_on_activate_fails && g_dep_err == 0) ==> (__CPROVER_return_value == 0 && g_activated_deps == g_n
      && g_pushed == ((g_ret1 > 0 && g_ret1 + g_env_dec == g_n) ? 1u : 0u) && v->_waiting_num == (long)(g_n - g_ret1 - g_env_dec)))
;
//@loop Vertex_activate 1
//@  __CPROVER_assigns(@l3:finished@, g_it, g_ret1, g_activated_deps, g_dep_err)
//@  __CPROVER_loop_invariant(g_it <= g_n && g_it_end == g_n && g_activated_deps == g_it && @l3:finished@ == (long)g_ret1 && g_ret1 <= g_it && g_dep_err == 0 && g_stored && g_env_dec == 0)
//@  __CPROVER_decreases(g_n - g_it)
//@end
/* ---- reset: "after reset() the same graph instance gives the same guarantees again".  The run-time contracts above start from the
 * state a freshly built vertex / dependency has (the default member initialisers in vertex.h / dependency.h): not activated, counter
 * 0, no closure, no borrowed runnable stack (it points into the stack frame of a finished run), dependency counter 0 and neither
 * established nor ready.  reset() must bring exactly that state back, for the vertex and for every one of its dependencies, and
 * tell the processor once. */
void vf_atomic_store_bool(_Bool *p, _Bool v, int order, int site) { *p = v; }
void GraphProcessor_reset__GraphVertexR(struct GraphProcessor *p, struct Vertex *v) { g_proc_resets++; }
#define DEP_BUILT(d) ((d)->_waiting_num == 0 && !(d)->_established && !(d)->_ready)
void Dep_reset(struct Dep *d)
#ifdef VF_ENFORCE_Dep_reset
__CPROVER_requires(__CPROVER_is_fresh(d, sizeof(*d)))
__CPROVER_assigns(d->_waiting_num, d->_established, d->_ready, g_stored)
__CPROVER_ensures(DEP_BUILT(d))
__CPROVER_ensures(d->_source == __CPROVER_old(d->_source) && d->_target == __CPROVER_old(d->_target) && d->_condition == __CPROVER_old(d->_condition)
                  && d->_establish_value == __CPROVER_old(d->_establish_value) && d->_mutable == __CPROVER_old(d->_mutable) && d->_essential == __CPROVER_old(d->_essential))   /* the built wiring stays */
#else
__CPROVER_requires(d == &g_dep_obj[0])
__CPROVER_assigns(g_dep_obj[0]._waiting_num, g_dep_obj[0]._established, g_dep_obj[0]._ready, g_stored, g_dep_resets)
__CPROVER_ensures(DEP_BUILT(d) && g_dep_resets == __CPROVER_old(g_dep_resets) + 1)
#endif
;
void Vertex_reset(struct Vertex *v)
__CPROVER_requires(__CPROVER_is_fresh(v, sizeof(*v)) && g_n < (1UL << 20) && g_dep_resets == 0 && g_proc_resets == 0)
__CPROVER_assigns(v->_activated, v->_waiting_num, v->_closure, v->_runnable_vertexes, g_it, g_it_end, g_stored, g_dep_resets, g_proc_resets, g_dep_obj[0]._waiting_num, g_dep_obj[0]._established, g_dep_obj[0]._ready)
__CPROVER_ensures(!v->_activated && v->_waiting_num == 0 && v->_closure == 0 && v->_runnable_vertexes == 0)
__CPROVER_ensures(g_dep_resets == g_n && g_proc_resets == 1)
__CPROVER_ensures(v->_trivial == __CPROVER_old(v->_trivial) && v->_builder == __CPROVER_old(v->_builder) && v->_graph == __CPROVER_old(v->_graph))
;
//@loop Vertex_reset 1
//@  __CPROVER_assigns(g_it, g_stored, g_dep_resets, g_dep_obj[0]._waiting_num, g_dep_obj[0]._established, g_dep_obj[0]._ready)
//@  __CPROVER_loop_invariant(g_it <= g_n && g_it_end == g_n && g_dep_resets == g_it)
//@  __CPROVER_decreases(g_n - g_it)
//@end
_Bool Vertex_ready(struct Vertex *v, struct Dep *d)
__CPROVER_requires(__CPROVER_is_fresh(v, sizeof(*v)) && g_activated_deps == 0 && g_ret1 == 0 && g_env_dec == 0 && v->_waiting_num > -(1L << 40) && v->_waiting_num < (1L << 40))
__CPROVER_assigns(v->_waiting_num, g_env_dec)
__CPROVER_ensures(v->_waiting_num == __CPROVER_old(v->_waiting_num) - 1 && __CPROVER_return_value == (__CPROVER_old(v->_waiting_num) == 1))
;
#endif
#endif
