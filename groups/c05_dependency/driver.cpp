// driver TU for C05 (core counter protocol only): GraphDependency::activate / ready and GraphVertex::ready / activate
#include "babylon/anyflow/dependency.cpp"
#include "babylon/anyflow/vertex.cpp"
