D = 'babylon::anyflow::GraphDependency'
V = 'babylon::anyflow::GraphVertex'
GD = 'babylon::anyflow::GraphData'
GROUP = dict(
    prop='C05',
    driver='driver.cpp',
    spec='spec.h',
    aliases=[(D, 'Dep'), (V, 'Vertex'), (GD, 'Data'), ('babylon::anyflow::', '')],
    outside_methods={'absl::InlinedVector<babylon::anyflow::GraphVertex*,128>': ['emplace_back'], 'absl::InlinedVector<babylon::anyflow::GraphData*,128>': ['emplace_back']},
    opaque_records=[GD, V, 'babylon::anyflow::ClosureContext'],
    extern_re=[r'anyflow::GraphData::', r'anyflow::GraphVertex::(closure|ready)', r'anyflow::ClosureContext::'],
    roots=[D + '::activate', D + '::ready', D + '::check_established'],
    reviewed_compiler_conditionals=[],
    assumptions=['SC; interleavings in which preemptions nest (a preempted party resumes after the preempting ones finished), switch points at every atomic operation and every read of shared data state',
                 'no party fails (acquire_*_depend succeed, recursive_activate returns 0); GraphData::release sets the ready flag before it tells the successor dependencies',
                 'everything above the dependency (vertex counters, closure, executor, data publication, graph evaluation order) is not under contract'],
    jobs=[
        dict(id='C05.dependency.lemma', harness='lemma_dependency_finished_once', kind='lemma', unwind=3, backend='cadical', timeout=900),
    ],
)
