D = 'babylon::anyflow::GraphDependency'
V = 'babylon::anyflow::GraphVertex'
GD = 'babylon::anyflow::GraphData'
DV = 'std::vector<babylon::anyflow::GraphDependency>'
DIT = '__gnu_cxx::__normal_iterator<babylon::anyflow::GraphDependency*,std::vector<babylon::anyflow::GraphDependency>>'
GROUP = dict(
    prop='C05',
    driver='driver.cpp',
    spec='spec.h',
    aliases=[(D, 'Dep'), (V, 'Vertex'), (GD, 'Data'), ('babylon::anyflow::', '')],
    outside_methods={DV: ['size', 'begin', 'end'], DIT: ['operator!=', 'operator==', 'operator++', 'operator*'], 'std::unique_ptr<babylon::anyflow::GraphProcessor>': ['operator->'],
                     'absl::InlinedVector<babylon::anyflow::GraphVertex*,128>': ['emplace_back'], 'absl::InlinedVector<babylon::anyflow::GraphData*,128>': ['emplace_back']},
    opaque_records=[GD, 'babylon::anyflow::ClosureContext', 'babylon::anyflow::GraphProcessor', 'babylon::anyflow::GraphVertexBuilder', 'babylon::anyflow::Graph'],
    opaque_by_value=[DV, 'std::vector<babylon::anyflow::GraphData*>', 'std::unique_ptr<babylon::anyflow::GraphProcessor>'],
    extra_structs={DIT: 'struct @ { struct Dep *p; };'},
    trivial_copy=[DIT],
    extern_re=[r'anyflow::GraphData::', r'anyflow::GraphVertex::closure', r'anyflow::GraphProcessor::', r'anyflow::ClosureContext::'],
    roots=[D + '::activate', D + '::ready', D + '::check_established', V + '::activate', V + '::ready', V + '::reset', D + '::reset'],
    reviewed_compiler_conditionals=[],
    assumptions=['SC; interleavings in which preemptions nest (a preempted party resumes after the preempting ones finished), switch points at every atomic operation and every read of shared data state',
                 'no party fails (acquire_*_depend succeed, recursive_activate returns 0); GraphData::release sets the ready flag before it tells the successor dependencies',
                 'everything above the dependency (vertex counters, closure, executor, data publication, graph evaluation order) is not under contract'],
    jobs=[
        dict(id='C05.dependency.lemma', harness='lemma_dependency_finished_once', kind='lemma', unwind=3, backend='cadical', timeout=900, defines=['VF_LEMMA 1']),
        dict(id='C05.vertex.activate', enforce='Vertex_activate', replace=['Dep_activate'], loops=True, backend='cadical', defines=['VF_VERTEX 1']),
        dict(id='C05.vertex.reset', enforce='Vertex_reset', replace=['Dep_reset'], loops=True, backend='cadical', defines=['VF_VERTEX 1']),
        dict(id='C05.dependency.reset', enforce='Dep_reset', backend='cadical', defines=['VF_VERTEX 1']),
        dict(id='C05.vertex.ready', enforce='Vertex_ready', backend='cadical', defines=['VF_VERTEX 1']),
    ],
)
