B = 'babylon::BasicExecutor'
GROUP = dict(
    prop='C07',
    driver='driver.cpp',
    spec='spec.h',
    aliases=[(B + '::RunnerScope', 'Scope'), (B, 'Basic'), ('babylon::', '')],
    roots=[B + '::current', B + '::RunnerScope::RunnerScope', B + '::RunnerScope::~RunnerScope', B + '::is_running_in'],
    reviewed_compiler_conditionals=[],
    assumptions=['the function-local `static thread_local` of BasicExecutor::current() is one global per thread (lowered as a global; its zero initialisation is not modelled: the contracts hold for any initial value)'],
    jobs=[
        dict(id='C07.scope.current', enforce='Basic_current'),
        dict(id='C07.scope.enter', enforce='Scope_ctor__BasicExecutorR', replace=['Basic_current']),
        dict(id='C07.scope.leave', enforce='Scope_dtor', replace=['Basic_current']),
        dict(id='C07.scope.is_running_in', enforce='Basic_is_running_in', replace=['Basic_current']),
    ],
)
