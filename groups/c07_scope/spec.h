/* C07 (runner scope) -- the bodies the thread-pool contracts of group c07_executor stub: "a RunnerScope marks its executor as current on
 * this thread".  current() designates one per-thread cell; entering a scope saves the cell and installs the executor; leaving restores
 * exactly what was saved (so scopes nest: after the inner scope ends the outer executor is current again); is_running_in compares with
 * the cell and nothing else. */
#ifndef C07S_SPEC_H
#define C07S_SPEC_H
#ifndef CUR
#define CUR Basic_current__static_executor
#endif
extern struct Basic *CUR;
static void vf_havoc_ghosts(void) { }
struct Basic **Basic_current(void)
__CPROVER_assigns()
__CPROVER_ensures(__CPROVER_return_value == &CUR)
;
void Scope_ctor__BasicExecutorR(struct Scope *self, struct Basic *new_current)
__CPROVER_requires(__CPROVER_is_fresh(self, sizeof(*self)))
__CPROVER_assigns(self->_old_current, CUR)
__CPROVER_ensures(self->_old_current == __CPROVER_old(CUR) && CUR == new_current)
;
void Scope_dtor(struct Scope *self)
__CPROVER_requires(__CPROVER_is_fresh(self, sizeof(*self)))
__CPROVER_assigns(CUR)
__CPROVER_ensures(CUR == self->_old_current)
;
_Bool Basic_is_running_in(struct Basic *self)
__CPROVER_assigns()
__CPROVER_ensures(__CPROVER_return_value == (self == CUR))
;
#endif
