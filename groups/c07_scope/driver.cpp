// driver TU for C07 (runner scope): BasicExecutor::current / RunnerScope / is_running_in, defined in basic_executor.{h,cpp}
#include "babylon/basic_executor.cpp"
