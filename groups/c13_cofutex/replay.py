import os, sys
sys.path.insert(0, os.path.join(os.path.dirname(os.path.abspath(__file__)), '..', '..', 'tools'))
import replaylib
HERE = os.path.dirname(os.path.abspath(__file__))


def replay(job, failed, report, bdir):
    if job['id'] == 'C13.await_suspend':
        rc, out = replaylib.build_and_run(os.path.join(HERE, 'replay', 'nonmatching_wait_leaks.cpp'), os.path.join(bdir, 'replay'),
                                          sources=('concurrent/*.cpp', 'new.cpp', 'coroutine/*.cpp', 'executor.cpp', 'basic_executor.cpp', 'logging/*.cpp', 'reusable/*.cpp', 'time.cpp'),
                                          flags=['-labsl_str_format_internal', '-lprotobuf'])
        report['native_replay'] = {'program': 'groups/c13_cofutex/replay/nonmatching_wait_leaks.cpp', 'exit': rc, 'output': out}
        return rc == 1
    if job['id'] != 'C13.wake_one.bounded':
        report['native_replay'] = 'no staged replay for this obligation'
        return False
    rc, out = replaylib.build_and_run(os.path.join(HERE, 'replay', 'wake_one_skips.cpp'), os.path.join(bdir, 'replay'),
                                      sources=('concurrent/*.cpp', 'new.cpp', 'coroutine/*.cpp', 'executor.cpp', 'basic_executor.cpp', 'move_only_function.cpp'))
    report['native_replay'] = {'program': 'groups/c13_cofutex/replay/wake_one_skips.cpp', 'exit': rc, 'output': out,
                               'staging': 'two waiters; the first node of the list is taken by a concurrent cancel before wake_one()'}
    return rc == 1
