// driver TU for C13 (partial): the coroutine futex waiter list
#include "babylon/coroutine/futex.cpp"
#include "babylon/coroutine/task.h"
namespace babylon_vf {
using P = ::babylon::coroutine::Promise<void>;
bool force(::babylon::coroutine::Futex::Awaitable& a, ::std::coroutine_handle<P> h) { return a.await_suspend(h); }
}
