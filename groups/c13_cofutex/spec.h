/* C13 (partial) -- coroutine::Futex waiter list: wake_one / wake_all / remove_awaiter.
 * BOUNDED stand-in: lists of at most 3 waiters.  DepositBox::take_released is an executable stub (a waiter is takeable or is
 * being cancelled by someone else: nondeterministic per waiter, at most one winner per id); resume and finish_released count. */
#ifndef C13_SPEC_H
#define C13_SPEC_H
unsigned int nondet_uint(void);
_Bool nondet_bool(void);
typedef struct Futex Futex_t;
typedef struct Futex_Node Node_t;
#ifndef MAXN
#define MAXN 3
#endif
static Node_t b_node[MAXN];
static char b_promise[MAXN];
static _Bool b_takeable[MAXN];
static unsigned b_resumed[MAXN], b_finished[MAXN], b_n;
static _Bool b_locked;
static struct Box { char x; } b_box;

struct Box *Box_instance(void) { return &b_box; }
void LockGuard_ctor_1(struct LockGuard *g, struct std_mutex *m) { __CPROVER_assert(!b_locked, "K2 C13 mutex not taken twice"); b_locked = 1; }
void LockGuard_dtor(struct LockGuard *g) { b_locked = 0; }
Node_t *Box_take_released(struct Box *box, struct VersionedValue_L_unsigned_int_R id) {
  unsigned k = (unsigned)id.__anon_L22.version_and_value;
  __CPROVER_assert(k < b_n, "K4 C13 take with the id of a waiter of this list");
  if (b_takeable[k]) { b_takeable[k] = 0; return &b_node[k]; }    /* at most one winner per id */
  return (Node_t *)0;
}
void Box_finish_released(struct Box *box, struct VersionedValue_L_unsigned_int_R id) { b_finished[(unsigned)id.__anon_L22.version_and_value]++; }
void BasicPromise_resume(struct BasicPromise *p, struct std_coroutine_handle_L_R h) {
  __CPROVER_assert(!b_locked, "K2 C13 a waiter is resumed outside the list mutex");
  unsigned k = (unsigned)((char *)p - b_promise);
  b_resumed[k]++;
}

/* list head -> node[0] -> node[1] -> ... (the order add_awaiter would have produced, newest first) */
static void b_build(Futex_t *f) {
  b_n = nondet_uint() % (MAXN + 1);
  f->_awaiter_head.prev = 0; f->_awaiter_head.next = b_n ? &b_node[0] : 0;
  for (unsigned i = 0; i < MAXN; ++i) {
    if (i >= b_n) continue;
    b_node[i].__base_BasicNode.prev = i == 0 ? &f->_awaiter_head : &b_node[i - 1].__base_BasicNode;
    b_node[i].__base_BasicNode.next = i + 1 < b_n ? &b_node[i + 1] : 0;
    b_node[i].futex = f; b_node[i].id.__anon_L22.version_and_value = i; b_node[i].promise = (struct BasicPromise *)&b_promise[i];
    b_takeable[i] = nondet_bool(); b_resumed[i] = 0; b_finished[i] = 0;
  }
}
/* wake_one: resumes one suspended waiter whenever one exists that is not being cancelled */
void h_wake_one(void) {
  Futex_t f; b_build(&f);
  _Bool any = 0; for (unsigned i = 0; i < MAXN; ++i) if (i < b_n && b_takeable[i]) any = 1;
  int r = Futex_wake_one__void(&f);
  unsigned total = 0; for (unsigned i = 0; i < MAXN; ++i) if (i < b_n) { total += b_resumed[i]; __CPROVER_assert(b_resumed[i] <= 1 && b_finished[i] == b_resumed[i], "K1 C13.wake_one a waiter is resumed at most once and its slot released exactly then"); }
  __CPROVER_assert(r == (any ? 1 : 0) && total == (unsigned)r, "K1 C13.wake_one resumes exactly one waiter iff a takeable one exists");
  /* every node the call unlinked is fully unlinked; what stays in the list is well-formed */
  struct Futex_BasicNode *prev = &f._awaiter_head; Node_t *cur = f._awaiter_head.next;
  for (unsigned i = 0; i < MAXN + 1; ++i) { if (!cur) break; __CPROVER_assert(cur->__base_BasicNode.prev == prev, "K2 C13.wake_one remaining list is doubly linked"); prev = &cur->__base_BasicNode; cur = cur->__base_BasicNode.next; }
  __CPROVER_assert(cur == 0, "K2 C13.wake_one remaining list is finite");
  __CPROVER_assert(0, "VF_VACUITY_TWIN lemma reachable (must fail)");
}
/* wake_all: resumes exactly the takeable waiters, each once, and leaves the list empty */
void h_wake_all(void) {
  Futex_t f; b_build(&f);
  _Bool want[MAXN]; unsigned expect = 0; for (unsigned i = 0; i < MAXN; ++i) { want[i] = i < b_n && b_takeable[i]; expect += want[i]; }
  int r = Futex_wake_all__void(&f);
  for (unsigned i = 0; i < MAXN; ++i) if (i < b_n) __CPROVER_assert(b_resumed[i] == (want[i] ? 1u : 0u) && b_finished[i] == b_resumed[i], "K1 C13.wake_all resumes exactly the takeable waiters, once each");
  __CPROVER_assert((unsigned)r == expect && f._awaiter_head.next == 0, "K1 C13.wake_all count and empty list");
  /* every node that was listed is marked unconnected (prev == 0), also the ones whose cancellation is in flight: their owner's
   * remove_awaiter must find nothing to unlink, or it re-links the emptied head to nodes that are already gone */
  for (unsigned i = 0; i < MAXN; ++i) if (i < b_n) __CPROVER_assert(b_node[i].__base_BasicNode.prev == 0, "K1 C13.wake_all leaves no former waiter connected to the list");
  __CPROVER_assert(0, "VF_VACUITY_TWIN lemma reachable (must fail)");
}

/* ---- Awaitable::await_suspend: "a wait with a non-matching value does not suspend" and leaks no per-wait bookkeeping ----
 * loop-free: the harness ranges over every futex value / expected value / callback presence (complete, not bounded) */
static unsigned b_slots_live, b_emplaced;
static struct Promise_L_void_R b_the_promise;
unsigned long nondet_u64(void);
struct VersionedValue_L_unsigned_int_R Box_emplace__x(struct Box *box) {
  struct VersionedValue_L_unsigned_int_R id; id.__anon_L22.version_and_value = 0; b_slots_live++; b_emplaced++; b_takeable[0] = 1; b_n = 1; return id;
}
Node_t *Box_unsafe_get(struct Box *box, struct VersionedValue_L_unsigned_int_R id) { return &b_node[0]; }
struct Promise_L_void_R *std_coroutine_handle_L_Promise_L_void_R_R_promise(struct std_coroutine_handle_L_Promise_L_void_R_R *h) { return &b_the_promise; }
struct std_coroutine_handle_L_R std_coroutine_handle_L_Promise_L_void_R_R_operator_coroutine_handle(struct std_coroutine_handle_L_Promise_L_void_R_R *h) { struct std_coroutine_handle_L_R r; return r; }
_Bool MoveOnlyFunction_L_void_Futex_CancellationRefRef_R_op_bool(struct MoveOnlyFunction_L_void_Futex_CancellationRefRef_R *f) { return nondet_bool(); }
void MoveOnlyFunction_L_void_Futex_CancellationRefRef_R_op_call(struct MoveOnlyFunction_L_void_Futex_CancellationRefRef_R *f, struct Futex_Cancellation *c) { }
#ifdef VF_HAVE_Box_take   /* the extern exists only if the lowered code calls DepositBox::take */
struct Box_Accessor Box_take(struct Box *box, struct VersionedValue_L_unsigned_int_R id) {
  struct Box_Accessor a; a._box = box; a._object = Box_take_released(box, id); a._id = id; return a;
}
#endif
void h_await_suspend(void) {
  Futex_t f; struct Futex_Awaitable aw; struct std_coroutine_handle_L_Promise_L_void_R_R h;
  f._awaiter_head.prev = 0; f._awaiter_head.next = 0; f._value = nondet_u64();
  aw._futex = &f; aw._expected_value = nondet_u64();
  _Bool suspended = Futex_Awaitable_await_suspend__Promise_L_void_R(&aw, h);
  __CPROVER_assert(suspended == (aw._expected_value == f._value), "K1 C13.await_suspend suspends iff the value matches");
  __CPROVER_assert(!suspended || (f._awaiter_head.next == &b_node[0] && b_node[0].__base_BasicNode.prev == &f._awaiter_head), "K1 C13.await_suspend a suspended waiter is linked at the head");
  unsigned finished = b_finished[0];
  __CPROVER_assert(suspended || b_emplaced == finished, "K1 C13.await_suspend a wait that does not suspend leaks no deposit-box slot");
  __CPROVER_assert(0, "VF_VACUITY_TWIN lemma reachable (must fail)");
}
#endif
