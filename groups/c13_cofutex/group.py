F = 'babylon::coroutine::Futex'
BOX = 'babylon::DepositBox<babylon::coroutine::Futex::Node>'
GROUP = dict(
    prop='C13',
    driver='driver.cpp',
    spec='spec.h',
    aliases=[(BOX, 'Box'), ('babylon::coroutine::', ''), ('std::lock_guard<std::mutex>', 'LockGuard')],
    opaque_by_value=['std::mutex', 'std::coroutine_handle<void>', 'std::coroutine_handle<>', 'std::lock_guard<std::mutex>', 'std::coroutine_handle<babylon::coroutine::Promise<void>>',
                     'babylon::MoveOnlyFunction<void(babylon::coroutine::Futex::Cancellation&&)>'],
    trivial_copy=['std::coroutine_handle<>', 'std::coroutine_handle<void>', 'std::coroutine_handle<babylon::coroutine::Promise<void>>'],
    outside_methods={'std::lock_guard<std::mutex>': [], 'std::coroutine_handle<babylon::coroutine::Promise<void>>': ['promise', 'operator coroutine_handle']},
    extern_re=[r'DepositBox<.*>::(instance|take_released|finish_released|emplace|unsafe_get|take)$', r'BasicPromise::resume', r'MoveOnlyFunction<.*>::operator'],
    roots=[F + '::wake_one', F + '::wake_all', F + '::add_awaiter', F + '::remove_awaiter', F + '::Awaitable::await_suspend'],
    reviewed_compiler_conditionals=[],
    assumptions=['DepositBox::take_released: at most one winner per id (C14; executable stub)', 'std::mutex/lock_guard open and close a critical section (stub)',
                 'BasicPromise::resume resumes the coroutine on its executor (not modelled: counted only)'],
    jobs=[
        dict(id='C13.wake_one.bounded', harness='h_wake_one', unwind=6, bounded='<= 3 waiters in the list; unwind 6'),
        dict(id='C13.await_suspend', harness='h_await_suspend', unwind=2),
        dict(id='C13.wake_all.bounded', harness='h_wake_all', unwind=6, bounded='<= 3 waiters in the list; unwind 6'),
        dict(id='C13.wake_one.bounded6', harness='h_wake_one', unwind=9, tier='thorough', defines=['MAXN 6'], timeout=1800, backend='cadical', bounded='<= 6 waiters in the list; unwind 9'),
        dict(id='C13.wake_all.bounded6', harness='h_wake_all', unwind=9, tier='thorough', defines=['MAXN 6'], timeout=1800, backend='cadical', bounded='<= 6 waiters in the list; unwind 9'),
    ],
)
