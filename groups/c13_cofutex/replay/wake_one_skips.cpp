// native replay of C13.wake_one.bounded (counterexample class: the first waiter in the list is being cancelled by someone
// else, a later waiter is takeable): wake_one() must resume the later one and return 1.
// Staged without coroutine frames: waiter nodes are built by hand (private members via -fno-access-control), the promise
// has no executor and the handle is std::noop_coroutine(), so resume() is harmless.
#include "babylon/coroutine/futex.h"
#include <coroutine>
#include <cstdio>
using ::babylon::coroutine::Futex;
using ::babylon::coroutine::BasicPromise;
int main() {
  auto& box = ::babylon::DepositBox<Futex::Node>::instance();
  Futex futex;
  BasicPromise promise;
  ::babylon::VersionedValue<uint32_t> ids[2];
  Futex::Node* nodes[2];
  for (int i = 0; i < 2; ++i) {
    ids[i] = box.emplace();
    nodes[i] = &box.unsafe_get(ids[i]);
    nodes[i]->futex = &futex; nodes[i]->id = ids[i]; nodes[i]->promise = &promise; nodes[i]->handle = ::std::noop_coroutine();
    if (!futex.add_awaiter(nodes[i], 0)) { std::printf("staging failed\n"); return 2; }
  }
  // list is now: head -> nodes[1] -> nodes[0].  A cancellation wins the take on the first node of the list.
  if (box.take_released(ids[1]) == nullptr) { std::printf("staging failed (take)\n"); return 2; }
  int woken = futex.wake_one();
  if (woken != 1) {
    std::printf("wake_one() returned %d although waiter 0 is suspended and not being cancelled\n", woken);
    return 1;
  }
  return 0;
}
