// native replay of C13.await_suspend ("a wait that does not suspend leaks no deposit-box slot"):
// a real coroutine waits 200 times with a non-matching value; the number of deposit-box slots ever allocated must not grow
#include "babylon/coroutine/futex.h"
#include "babylon/executor.h"
#include <cstdio>
using ::babylon::coroutine::Futex;
using ::babylon::coroutine::Task;
int main() {
  Futex futex;
  futex.value() = 0;
  auto& box = ::babylon::DepositBox<Futex::Node>::instance();
  auto& executor = ::babylon::InplaceExecutor::instance();
  auto run = [&](int n) {
    auto future = executor.execute([&, n]() -> Task<> {
      for (int i = 0; i < n; ++i) { co_await futex.wait(10086); }   // value is 0: never suspends
      co_return;
    });
    future.get();
  };
  run(3);
  size_t before = box._slot_id_allocator.end();
  run(200);
  size_t after = box._slot_id_allocator.end();
  if (after > before + 2) {
    std::printf("200 non-matching waits allocated %zu new deposit-box slots (ids never released)\n", after - before);
    return 1;
  }
  return 0;
}
