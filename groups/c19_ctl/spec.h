/* C19 (instance life cycle) -- CompactEnumerableThreadLocal<long, 1, true> (16 cells per cache line): constructor, move assignment, destructor.
 * An instance with id i uses cell (i % 16) of every thread's cache line in storage block (i / 16): distinct live ids never share a
 * cell (the pair is injective in i); the move swaps all three fields (so the pair stays consistent with the id); the destructor
 * wipes exactly its own cell in every cache line and only then gives the id back (a new instance recycling the id starts from zero
 * and cannot have its first contributions wiped). */
#ifndef C19CTL_SPEC_H
#define C19CTL_SPEC_H
#include <stdint.h>
#include <stdlib.h>
unsigned long nondet_u64(void); unsigned int nondet_u32(void); long nondet_long(void);
typedef struct CTL CTL_t;
typedef struct CTL_CacheLine Line_t;
#define LWIPE CTL_CompactEnumerableThreadLocal_lambda_thread_local_dtor_CompactEnumerableThreadLocal_1_op_call
#define NPC 16u
unsigned int g_next_id; struct Storage *g_storage_of[1]; size_t g_storage_arg; unsigned g_alloc_calls, g_dealloc_calls;
_Bool g_wiped; unsigned long g_dealloc_id; Line_t *g_lines; size_t g_nlines, g_k, g_other; long g_other_old;
struct IdAllocator_L_unsigned_int_R *g_ida;
static void vf_havoc_ghosts(void) {
  g_next_id = nondet_u32(); g_alloc_calls = g_dealloc_calls = 0; g_wiped = 0; g_k = nondet_u64(); g_other = nondet_u64();
  g_nlines = nondet_u64(); __CPROVER_assume(g_nlines < (1UL << 20)); g_lines = malloc((g_nlines + 1) * sizeof(Line_t)); __CPROVER_assume(g_lines != 0);
}
uint32_t CTL_allocate_id__1(void) { g_alloc_calls++; return g_next_id; }
struct Storage *CTL_storage__1(unsigned long slot_index) { g_storage_arg = slot_index; return (struct Storage *)&g_storage_of[0]; }
struct IdAllocator_L_unsigned_int_R *CTL_id_allocator__1(void) { return g_ida; }
void IdAllocator_L_unsigned_int_R_deallocate(struct IdAllocator_L_unsigned_int_R *a, struct VersionedValue_L_unsigned_int_R id) {
  __CPROVER_assert(g_wiped, "K5 C19.ctl the instance id is released only after the instance's cells are wiped");
  g_dealloc_calls++; g_dealloc_id = id.__anon_L22.version_and_value;
}
/* EnumerableThreadLocal::for_each: every cache line ever used, in one or two ranges (assumed contract of the storage) */
void Storage_for_each__lambda_thread_local_dtor_CompactEnumerableThreadLocal_1_void(struct Storage *st, struct lambda_thread_local_dtor_CompactEnumerableThreadLocal_1 *cb) {
  size_t first = nondet_u64(); __CPROVER_assume(first <= g_nlines);
  LWIPE(cb, g_lines, g_lines + first);
  LWIPE(cb, g_lines + first, g_lines + g_nlines);
  g_wiped = 1;
}

void CTL_ctor__void(CTL_t *self)
__CPROVER_requires(__CPROVER_is_fresh(self, sizeof(*self)))
__CPROVER_assigns(self->_instance_id, self->_cacheline_offset, self->_storage, g_alloc_calls, g_storage_arg)
__CPROVER_ensures(g_alloc_calls == 1 && self->_instance_id == g_next_id)
__CPROVER_ensures(self->_cacheline_offset == g_next_id % NPC && g_storage_arg == g_next_id / NPC && self->_cacheline_offset < NPC)
/* (block, cell) determines the id: two live instances (distinct ids) never share a cell */
__CPROVER_ensures(g_storage_arg * NPC + self->_cacheline_offset == g_next_id)
;
CTL_t *CTL_op_assign__CompactEnumerableThreadLocal_L_long_1_1_RR(CTL_t *self, CTL_t *other)
__CPROVER_requires(__CPROVER_is_fresh(self, sizeof(*self)) && __CPROVER_is_fresh(other, sizeof(*other)))
__CPROVER_assigns(self->_instance_id, self->_cacheline_offset, self->_storage, other->_instance_id, other->_cacheline_offset, other->_storage)
__CPROVER_ensures(__CPROVER_return_value == self)
__CPROVER_ensures(self->_instance_id == __CPROVER_old(other->_instance_id) && self->_cacheline_offset == __CPROVER_old(other->_cacheline_offset) && self->_storage == __CPROVER_old(other->_storage))
__CPROVER_ensures(other->_instance_id == __CPROVER_old(self->_instance_id) && other->_cacheline_offset == __CPROVER_old(self->_cacheline_offset) && other->_storage == __CPROVER_old(self->_storage))
;
void CTL_dtor(CTL_t *self)
__CPROVER_requires(__CPROVER_is_fresh(self, sizeof(*self)) && self->_cacheline_offset < NPC && g_other < NPC && g_other != self->_cacheline_offset && g_k < g_nlines)
__CPROVER_requires(g_other_old == g_lines[g_k].value[g_other])
__CPROVER_assigns(__CPROVER_object_whole(g_lines), g_wiped, g_dealloc_calls, g_dealloc_id)
__CPROVER_ensures(g_dealloc_calls == 1 && g_dealloc_id == self->_instance_id && g_wiped)
/* for an arbitrary cache line k: the instance's own cell is zero again, an arbitrary other cell is untouched */
__CPROVER_ensures(g_lines[g_k].value[self->_cacheline_offset] == 0 && g_lines[g_k].value[g_other] == g_other_old)
;
//@loop CTL_CompactEnumerableThreadLocal_lambda_thread_local_dtor_CompactEnumerableThreadLocal_1_op_call 1
//@  VF_REBASE(@p1:iter@, g_lines)
//@  __CPROVER_assigns(@p1:iter@, __CPROVER_object_whole(g_lines))
//@  __CPROVER_loop_invariant(__CPROVER_same_object(@p1:iter@, g_lines) && (size_t)__CPROVER_POINTER_OFFSET(@p1:iter@) <= g_nlines * sizeof(Line_t) && (size_t)__CPROVER_POINTER_OFFSET(@p1:iter@) % sizeof(Line_t) == 0)
//@  __CPROVER_loop_invariant(__CPROVER_loop_entry(@p1:iter@) <= @p1:iter@ && @p1:iter@ <= @p2:end@)
//@  __CPROVER_loop_invariant((g_lines + g_k >= __CPROVER_loop_entry(@p1:iter@) && g_lines + g_k < @p1:iter@) ==> g_lines[g_k].value[self->cap_this->_cacheline_offset] == 0)
//@  __CPROVER_loop_invariant((g_lines + g_k < __CPROVER_loop_entry(@p1:iter@) || g_lines + g_k >= @p1:iter@) ==> g_lines[g_k].value[self->cap_this->_cacheline_offset] == __CPROVER_loop_entry(g_lines[g_k].value[self->cap_this->_cacheline_offset]))
//@  __CPROVER_loop_invariant(g_lines[g_k].value[g_other] == g_other_old)
//@end
#endif
