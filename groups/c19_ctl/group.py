CTL = 'babylon::CompactEnumerableThreadLocal<long, 1, -1>'
ST = 'babylon::EnumerableThreadLocal<babylon::CompactEnumerableThreadLocal<long, 1, -1>::CacheLine, -1>'
GROUP = dict(
    prop='C19',
    driver='driver.cpp',
    spec='spec.h',
    aliases=[(ST, 'Storage'), (CTL, 'CTL'), ('babylon_vf::', '')],
    opaque_records=[ST],
    extern_re=[r'EnumerableThreadLocal<.*>::(for_each|local)', r'CompactEnumerableThreadLocal<.*>::(storage|id_allocator|allocate_id)', r'IdAllocator<unsigned int>::(allocate|deallocate)'],
    roots=[{'name': CTL + '::CompactEnumerableThreadLocal', 'sig': 'void ()'}, CTL + '::operator=', CTL + '::~CompactEnumerableThreadLocal',
           {'lambda_in': CTL + '::~CompactEnumerableThreadLocal', 'ordinal': 1}],
    reviewed_compiler_conditionals=[],
    assumptions=['EnumerableThreadLocal::for_each presents every cache line ever used, in one or two ranges (contract stub); storage(k) / id_allocator() are the per-type singletons (stubs)',
                 'the id allocator hands out distinct ids to live instances (C14); fewer than 2^20 cache lines (model bound on a symbolic size, no unwinding)'],
    jobs=[
        dict(id='C19.ctl.ctor', enforce='CTL_ctor__void', backend='cadical'),
        dict(id='C19.ctl.move_assign', enforce='CTL_op_assign__CompactEnumerableThreadLocal_L_long_1_1_RR', backend='cadical'),
        dict(id='C19.ctl.dtor', enforce='CTL_dtor', loops=True, backend='cadical'),
    ],
)
