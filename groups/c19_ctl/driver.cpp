// driver TU for C19 (instance life cycle of CompactEnumerableThreadLocal: slot assignment, move, wipe-before-release)
#include "babylon/concurrent/thread_local.h"
namespace babylon_vf {
using CTL = ::babylon::CompactEnumerableThreadLocal<long, 1, true>;
long force(CTL& a) {
  CTL b;
  CTL c(::std::move(a));
  b = ::std::move(c);
  return b.local();
}
}
