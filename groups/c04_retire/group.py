RL = 'babylon::internal::concurrent_vector::RetireList<int, babylon_vf::Del>'
GROUP = dict(
    prop='C04',
    driver='driver.cpp',
    spec='spec.h',
    aliases=[(RL, 'RL'), ('babylon_vf::', '')],
    address_model=True,
    outside_funcs={'clock_gettime': 'vf_clock_gettime'},
    roots=[RL + '::retire', RL + '::gc', RL + '::delete_list'],
    reviewed_compiler_conditionals=['src/babylon/concurrent/vector.hpp:#if !__clang__ && BABYLON_GCC_VERSION < 50000'],
    assumptions=['SC; the clock is monotone; other threads stamp what they push with the clock unit at their push and only drop lists whose head is expired (RELY)', 'A-aba: a head word this thread has observed is not installed again by others (address reuse with an equal truncated stamp)',
                 'address model: pointer <-> integer conversions go through VF_P2I / VF_I2P (own node = fixed 48-bit address, other nodes opaque 48-bit numbers)', 'delete_list is a contract stub (frees the list it is given)'],
    jobs=[
        dict(id='C04.retire.retire', enforce='RL_retire', replace=['RL_delete_list'], loops=True, backend='cadical', covers=['g_dropped', 'g_node->next != 0 && g_cas_ok == 1']),
        dict(id='C04.retire.delete_list', enforce='RL_delete_list', loops=True, backend='cadical', defines=['VF_DELETE_LIST 1'], covers=['g_dln > 4', 'g_dln == 0']),
        dict(id='C04.retire.gc', enforce='RL_gc', replace=['RL_delete_list'], backend='cadical'),
    ],
)
