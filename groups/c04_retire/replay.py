import os, sys
sys.path.insert(0, os.path.join(os.path.dirname(os.path.abspath(__file__)), '..', '..', 'tools'))
import replaylib
HERE = os.path.dirname(os.path.abspath(__file__))


def replay(job, failed, report, bdir):
    """the counterexample class of C04.retire.retire: a concurrent retire with a newer timestamp between this thread's clock read and
    its successful CAS.  Staged on the real RetireList with an interposed clock_gettime that also fixes the schedule."""
    if not any('RL_retire.postcondition' in (p.get('property') or '') or 'loop_invariant' in (p.get('property') or '') for p in failed):
        report['native_replay'] = 'no staged program for this obligation'
        return False
    rc, out = replaylib.build_and_run(os.path.join(HERE, 'replay', 'stale_timestamp.cpp'), os.path.join(bdir, 'replay'), sources=())
    report['native_replay'] = {'program': 'groups/c04_retire/replay/stale_timestamp.cpp', 'exit': rc, 'output': out}
    return rc == 1
