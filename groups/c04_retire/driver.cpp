// driver TU for C04 (retire list protocol): RetireList<int, Del>::retire / gc
#include "babylon/concurrent/vector.h"
namespace babylon_vf {
struct Del { void operator()(int*) noexcept; };
using RL = ::babylon::internal::concurrent_vector::RetireList<int, Del>;
void force(RL& r, int* p) { r.retire(p); r.gc(); }
}
