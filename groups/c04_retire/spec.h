/* C04 (retire list protocol) -- RetireList<T,D>::retire / gc: "a snapshot stays usable for at least one cooling period (64 s) after
 * the growth that superseded it, even if gc() is called".
 *
 * The list head is one word: timestamp:16 (64 s units, truncated) | node address:48.  A list is freed as a whole when a later retire /
 * gc sees its HEAD timestamp more than one unit behind the clock (expire(): C04.retire.expire + clock lemma: a positive answer means
 * more than 64 s since the head's unit).  That protects every node of the list only if
 *     (I)  the head's timestamp is never behind the retire time of any node in the list it covers.
 * SC rely/guarantee model with a ghost real clock g_sec that may advance before every atomic operation and every clock read:
 *   RELY  other threads push heads stamped with the clock's unit at their push (so I holds for what they publish and the newest
 *         node's unit never exceeds the current unit), or swap an expired head out;
 *   GUAR  (asserted at this thread's successful CAS)  the word installed carries this thread's node; when it keeps the old list
 *         (node->next == old head's node) its timestamp is not behind the newest node of that list; when it drops the old list
 *         (next == null) the old head had been judged expired with a clock value read after that head was observed; the list
 *         handed to delete_list is exactly the one swapped out by that CAS.
 * Addresses: pointer <-> integer conversions go through VF_P2I / VF_I2P (cbmc keeps an object number where the code keeps its
 * tag): this thread's node has the fixed 48-bit address VF_NODE_ADDR, other nodes are opaque 48-bit numbers (never dereferenced
 * here: delete_list is a contract stub). */
#ifndef C04R_SPEC_H
#define C04R_SPEC_H
#include <stdint.h>
#include <stdlib.h>
#include <time.h>
unsigned long nondet_u64(void); _Bool nondet_bool(void);
typedef struct RL RL_t;
typedef struct RL_Node Node_t;
#define VF_NODE_ADDR 0x00007f0000001000UL
#define STAMP(h) ((unsigned short)((h) >> 48))
#define NODEBITS(h) ((h) & 0x0000FFFFFFFFFFFFUL)
Node_t *g_node;                    /* the node this thread allocates */
unsigned long g_sec;               /* ghost real clock (seconds) */
unsigned long g_head_full;         /* full (untruncated) unit the head's 16-bit timestamp stands for (valid while the list is non-empty) */
unsigned long g_newest;            /* unit of the newest retirement among the nodes of the current list */
unsigned long g_me_full;           /* full unit of this thread's latest clock read */
unsigned long g_seen_head; _Bool g_seen;     /* head value this thread observed last (load or failed CAS) */
unsigned long g_obs_unit;          /* clock unit at that observation */
_Bool g_clock_after_seen;          /* the latest clock read happened after the latest observation of the head */
unsigned g_cas_ok, g_deletes, g_news; unsigned long g_swapped_out, g_deleted_head; _Bool g_dropped_expired_ok, g_kept_ok, g_link_ok, g_mine_ok, g_dropped;
RL_t *g_rl;
Node_t *g_dl; unsigned long g_dln, g_dl_del, g_dl_free; _Bool g_dl_ok;     /* delete_list job */
#define UNIT(sec) ((sec) >> 6)
unsigned long VF_P2I(void *p) { return p == (void *)g_node && p != 0 ? VF_NODE_ADDR : (p == 0 ? 0UL : (unsigned long)p & 0x0000FFFFFFFFFFFFUL); }
void *VF_I2P(unsigned long x) { return x == VF_NODE_ADDR ? (void *)g_node : (void *)x; }
static void env_step(void) {
  unsigned long adv = nondet_u64(); __CPROVER_assume(adv < (1UL << 20) && g_sec < (1UL << 40) && g_sec + adv < (1UL << 40)); g_sec += adv;      /* the clock is monotone (and the model's horizon is 2^40 s) */
  if (nondet_bool()) {            /* another thread retires: pushes a head stamped with the current unit */
    unsigned long n = nondet_u64(); __CPROVER_assume(n != 0 && n < (1UL << 48) && n != VF_NODE_ADDR && (n & 7) == 0);
    unsigned long w = (UNIT(g_sec) << 48) | n;
    __CPROVER_assume(!g_seen || w != g_seen_head);      /* A-aba: a word this thread has observed is not installed again (address reuse + equal truncated stamp) */
    g_rl->_head = w; g_head_full = UNIT(g_sec); g_newest = UNIT(g_sec);
  } else if (nondet_bool()) {     /* another thread's retire / gc swaps an expired list out */
    if (NODEBITS(g_rl->_head) != 0 && UNIT(g_sec) >= g_head_full + 2) { g_rl->_head = nondet_bool() ? 0 : g_rl->_head; }
  }
}
static void vf_havoc_dl(void);
static void vf_havoc_ghosts(void) {
  g_rl = malloc(sizeof(RL_t)); __CPROVER_assume(g_rl != 0);
  g_sec = nondet_u64(); __CPROVER_assume(g_sec < (1UL << 39));
  g_head_full = nondet_u64(); g_newest = nondet_u64(); g_me_full = 0; g_seen = 0; g_seen_head = 0; g_obs_unit = 0; g_clock_after_seen = 0;
  g_cas_ok = g_deletes = g_news = 0; g_swapped_out = 0; g_deleted_head = 0; g_dropped_expired_ok = 1; g_kept_ok = 1; g_link_ok = 1; g_mine_ok = 1; g_node = 0; g_dropped = 0;
  vf_havoc_dl();
}
/* the list as this call finds it: (I) holds, the stamp abbreviates g_head_full, nothing is stamped in the future, and the stamps in
   play are not in the future (so a positive expire() answer is right whatever the 16-bit truncation did: d = ts - stamp mod 2^16 >= 2 and ts_full >= stamp_full give ts_full - stamp_full >= 2) */
#define LIST_OK(rl) (NODEBITS((rl)->_head) == 0 || (STAMP((rl)->_head) == (unsigned short)g_head_full && g_newest <= g_head_full && g_head_full <= UNIT(g_sec) && NODEBITS((rl)->_head) != VF_NODE_ADDR))
void *vf_operator_new(size_t size, size_t align) { g_node = malloc(sizeof(Node_t)); __CPROVER_assume(g_node != 0); g_news++; return g_node; }
int vf_clock_gettime(int clk, struct timespec *ts) { env_step(); ts->tv_sec = (long)g_sec; ts->tv_nsec = 0; g_me_full = UNIT(g_sec); g_clock_after_seen = g_seen; return 0; }
unsigned long vf_atomic_load_u64(unsigned long *p, int order, int site) {
  __CPROVER_assert(order == 2 || order == 5, "K6 C04.retire the head is read with acquire");
  env_step(); g_seen = 1; g_seen_head = *p; g_obs_unit = UNIT(g_sec); g_clock_after_seen = 0; return *p;
}
static _Bool cas(unsigned long *p, unsigned long *expected, unsigned long desired, int order, _Bool weak) {
  __CPROVER_assert(order == 4 || order == 5, "K6 C04.retire the head is swapped with acq_rel");
  env_step();
  if (*p != *expected || (weak && nondet_bool())) { *expected = *p; g_seen = 1; g_seen_head = *p; g_obs_unit = UNIT(g_sec); g_clock_after_seen = 0; return 0; }
  /* success: this thread's own step */
  unsigned long old = *p;
  if (desired != 0) {             /* retire */
    if (NODEBITS(desired) != VF_NODE_ADDR || STAMP(desired) != (unsigned short)g_me_full) g_mine_ok = 0;
    if (g_node->next != 0) {      /* keeps the old list behind its node */
      if ((unsigned long)VF_P2I(g_node->next) != NODEBITS(old)) g_link_ok = 0;
      /* (I): the timestamp installed must not be behind the newest node of the list it now covers */
      if (NODEBITS(old) != 0 && !(g_me_full >= g_newest)) g_kept_ok = 0;
    } else {                      /* drops the old list: only if it was judged expired against a clock read after observing it */
      if (NODEBITS(old) != 0) { g_dropped = 1; if (!(g_me_full >= g_head_full + 2 && g_clock_after_seen && g_seen_head == old)) g_dropped_expired_ok = 0; }
      g_swapped_out = old;
    }
    g_head_full = g_me_full; g_newest = g_me_full;
  } else {                        /* gc */
    if (NODEBITS(old) != 0) { g_dropped = 1; if (!(g_me_full >= g_head_full + 2 && g_clock_after_seen && g_seen_head == old)) g_dropped_expired_ok = 0; }
    g_swapped_out = old;
  }
  *p = desired; __CPROVER_assume(g_cas_ok < 1000); g_cas_ok++;
  return 1;
}
_Bool vf_atomic_compare_exchange_strong_u64(unsigned long *p, unsigned long *e, unsigned long d, int s, int f, int site) { return cas(p, e, d, s, 0); }
_Bool vf_atomic_compare_exchange_weak_u64(unsigned long *p, unsigned long *e, unsigned long d, int s, int f, int site) { return cas(p, e, d, s, 1); }
/* delete_list frees every node of the list and hands its data to the deleter (its own loop is not under contract here) */
void RL_delete_list(unsigned long head)
#ifdef VF_ENFORCE_RL_delete_list
__CPROVER_requires(g_dl_del == 0 && g_dl_free == 0 && g_dl_ok && NODEBITS(head) == (g_dln > 0 ? VF_NODE_ADDR : 0UL) && (g_dln == 0 || g_dl[0].next == (g_dln > 1 ? &g_dl[1] : (Node_t *)0)))
__CPROVER_assigns(g_dl_del, g_dl_free, g_dl_ok, __CPROVER_object_whole(g_dl))
__CPROVER_ensures(g_dl_ok && g_dl_del == g_dln && g_dl_free == g_dln)
#else
__CPROVER_requires(1)
__CPROVER_assigns(g_deletes, g_deleted_head)
__CPROVER_ensures(g_deletes == __CPROVER_old(g_deletes) + 1 && g_deleted_head == head)
#endif
;
#define DL_AT(p, k) (__CPROVER_same_object(p, g_dl) && __CPROVER_POINTER_OFFSET(p) % sizeof(Node_t) == 0 && __CPROVER_POINTER_OFFSET(p) / sizeof(Node_t) == (k))
//@loop RL_delete_list 1
//@  VF_REBASE(@l1:node@, g_dl)
//@  __CPROVER_assigns(@l1:node@, g_dl_del, g_dl_free, g_dl_ok, __CPROVER_object_whole(g_dl))
//@  __CPROVER_loop_invariant(g_dl_ok && g_dl_del == g_dl_free && g_dl_del <= g_dln && (g_dl_del < g_dln ? (DL_AT(@l1:node@, g_dl_del) && g_dl[g_dl_del].next == (g_dl_del + 1 < g_dln ? &g_dl[g_dl_del + 1] : (Node_t *)0)) : @l1:node@ == 0))
//@  __CPROVER_decreases(g_dln - g_dl_del)
//@end

void RL_retire(RL_t *self, int *data)
__CPROVER_requires(__CPROVER_pointer_equals(self, g_rl) && LIST_OK(g_rl) && g_cas_ok == 0 && g_deletes == 0 && g_news == 0)
__CPROVER_assigns(g_rl->_head, g_node, g_sec, g_head_full, g_newest, g_me_full, g_seen_head, g_seen, g_obs_unit, g_clock_after_seen, g_cas_ok, g_deletes, g_news, g_swapped_out, g_deleted_head, g_dropped_expired_ok, g_kept_ok, g_link_ok, g_mine_ok, g_dropped)
__CPROVER_ensures(g_news == 1 && g_cas_ok == 1 && g_mine_ok && g_link_ok && g_node->data == data)      /* one node, published once, carrying the data */
__CPROVER_ensures(g_kept_ok)                 /* (I) is preserved: the new head's timestamp covers the newest node of the list kept behind it */
__CPROVER_ensures(g_dropped_expired_ok)      /* a list is dropped only after being judged expired, by a clock read after it was observed */
__CPROVER_ensures(g_deletes <= 1 && (g_deletes == 1 ==> (g_deleted_head == g_swapped_out && g_node->next == 0)))   /* only the list swapped out is freed, never one that stays linked */
__CPROVER_ensures(g_dropped ==> g_deletes == 1)          /* and a dropped list is freed, not leaked */
;
//@loop RL_retire 1
//@  __CPROVER_assigns(@l2:head@, @l3:timestamp@, @l4:new_head@, g_me_full, g_node->next, g_rl->_head, g_sec, g_head_full, g_newest, g_seen_head, g_seen, g_obs_unit, g_clock_after_seen, g_cas_ok, g_swapped_out, g_dropped_expired_ok, g_kept_ok, g_link_ok, g_mine_ok, g_dropped)
//@  __CPROVER_loop_invariant(!g_dropped && g_cas_ok == 0 && g_deletes == 0 && g_news == 1 && g_kept_ok && g_dropped_expired_ok && g_link_ok && g_mine_ok && LIST_OK(g_rl) && g_node->data == @p1:data@ && g_swapped_out == 0)
//@  __CPROVER_loop_invariant(@l4:new_head@ == ((((unsigned long)@l3:timestamp@) << 48) | VF_NODE_ADDR) && @l3:timestamp@ == (unsigned short)g_me_full)
//@  __CPROVER_loop_invariant(g_sec < (1UL << 40) && g_seen && @l2:head@ == g_seen_head && g_obs_unit <= UNIT(g_sec) && ((g_rl->_head == g_seen_head && NODEBITS(g_seen_head) != 0) ==> g_newest <= g_obs_unit))
//@end

void RL_gc(RL_t *self)
__CPROVER_requires(__CPROVER_pointer_equals(self, g_rl) && LIST_OK(g_rl) && g_cas_ok == 0 && g_deletes == 0)
__CPROVER_assigns(g_rl->_head, g_sec, g_head_full, g_newest, g_me_full, g_seen_head, g_seen, g_obs_unit, g_clock_after_seen, g_cas_ok, g_deletes, g_swapped_out, g_deleted_head, g_dropped_expired_ok, g_dropped)
__CPROVER_ensures(g_dropped_expired_ok && g_cas_ok <= 1 && g_deletes == g_cas_ok)
__CPROVER_ensures(g_cas_ok == 1 ==> g_deleted_head == g_swapped_out)
;

/* delete_list(head): walks the list behind `head` and, for every node, hands its data to the deleter exactly once and frees the node
 * exactly once, in list order (job C04.retire.delete_list, VF_DELETE_LIST).  The list is a typed node array of any length whose
 * first node has the head's 48-bit address; node k links to node k+1: stated for node 0 in the precondition and for node k+1 when the
 * deleter is invoked on node k (the code reads a node's link only after the deleter of its predecessor ran). */
#ifdef VF_DELETE_LIST
static void vf_havoc_dl(void) {
  g_dln = nondet_u64(); __CPROVER_assume(g_dln < (1UL << 20)); g_dl = malloc((g_dln + 1) * sizeof(Node_t)); __CPROVER_assume(g_dl != 0);
  g_dl_del = g_dl_free = 0; g_dl_ok = 1; g_node = g_dl;      /* (the address model maps VF_NODE_ADDR to the first node) */
}
void Del_op_call(struct Del *d, int *data) {
  if (!(g_dl_del < g_dln && g_dl_del == g_dl_free && data == g_dl[g_dl_del].data)) g_dl_ok = 0;      /* the data of the next node, once, before that node is freed */
  if (g_dl_del + 1 < g_dln) __CPROVER_assume(g_dl[g_dl_del + 1].next == (g_dl_del + 2 < g_dln ? &g_dl[g_dl_del + 2] : (Node_t *)0));   /* list shape */
  g_dl_del++;
}
void vf_operator_delete(void *p, size_t n) {
  if (!(g_dl_free < g_dl_del && p == (void *)&g_dl[g_dl_free])) g_dl_ok = 0;                           /* the node whose data was just handed over, once */
  g_dl_free++;
}
#else
static void vf_havoc_dl(void) { }
#endif
#endif
