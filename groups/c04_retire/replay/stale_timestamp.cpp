// Native replay for C04.retire.retire (obligation: the head's timestamp never moves behind the newest node of the list it covers).
// The real RetireList from the working tree is driven with an interposed clock_gettime that also fixes the schedule:
//   A: retire(a) reads the clock at t = 63 s (unit 0) and is held there;
//   B: at t = 65 s (unit 1) retire(b) pushes its node (head stamped 1);
//   A: resumes, its CAS fails, it links b's node behind its own and installs a head stamped with ITS OLD unit 0;
//   gc() at t = 128 s (unit 2) sees the head 2 units old and frees the whole list -- including b, retired 63 s ago.
// Property C04: a retired table stays usable for at least one cooling period (64 s) after the growth that superseded it.
// exit 1 = some object was freed less than 64 s after its retirement; exit 0 = none was.
#include "babylon/concurrent/vector.h"

#include <atomic>
#include <cstdio>
#include <thread>
#include <time.h>

static std::atomic<long> g_now {63};
static std::atomic<int> g_stage {0};      // 0: A not yet in the clock, 1: A held inside the clock, 2: B done
static thread_local bool t_is_a = false;
static thread_local bool t_hold_done = false;

extern "C" int clock_gettime(clockid_t, struct timespec* ts) noexcept {
  ts->tv_sec = g_now.load();
  ts->tv_nsec = 0;
  if (t_is_a && !t_hold_done) {          // A's first clock read: value taken, now hold A until B has retired
    t_hold_done = true;
    g_stage.store(1);
    while (g_stage.load() != 2) { std::this_thread::yield(); }
  }
  return 0;
}

struct Obj { long retired_at; };
static int g_bad = 0, g_freed = 0;
struct Del {
  void operator()(Obj* o) noexcept {
    long age = g_now.load() - o->retired_at;
    std::printf("freed object retired at t=%ld at t=%ld (age %ld s)\n", o->retired_at, g_now.load(), age);
    ++g_freed;
    if (age < 64) { ++g_bad; }
    delete o;
  }
};
using RL = ::babylon::internal::concurrent_vector::RetireList<Obj, Del>;

int main() {
  RL list;
  std::thread a([&] {
    t_is_a = true;
    list.retire(new Obj {63});
  });
  while (g_stage.load() != 1) { std::this_thread::yield(); }
  g_now.store(65);
  list.retire(new Obj {65});              // B (this thread)
  g_stage.store(2);
  a.join();
  g_now.store(128);
  list.gc();
  std::printf("after gc() at t=128: %d freed, %d of them younger than 64 s\n", g_freed, g_bad);
  int bad = g_bad;
  g_now.store(100000);
  list.gc();                               // let everything go before exit
  return bad ? 1 : 0;
}
