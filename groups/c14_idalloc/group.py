A = 'babylon::IdAllocator<unsigned int>'
NV = 'babylon::ConcurrentVector<std::atomic<unsigned int>, 128>'
BOX = 'babylon::DepositBox<babylon_vf::Item>'
SV = 'babylon::ConcurrentVector<babylon::DepositBox<babylon_vf::Item>::Slot, 0>'
GROUP = dict(
    prop='C14',
    driver='driver.cpp',
    spec='spec.h',
    aliases=[(NV, 'NextVec'), (SV, 'SlotVec'), (BOX, 'Box'), (A, 'IdAlloc'), ('babylon::VersionedValue<unsigned int>', 'VV'), ('babylon_vf::', '')],
    opaque_by_value=[NV, SV, 'absl::optional<babylon_vf::Item>'],
    outside_methods={'absl::optional<babylon_vf::Item>': ['operator*', 'emplace']},
    extern_re=[r'IdAllocator<unsigned short>::(allocate|deallocate)', r'ConcurrentVector<std::atomic<unsigned int>,\s*128>::(operator\[\]|ensure)', r'ConcurrentVector<babylon::DepositBox<babylon_vf::Item>::Slot,\s*0>::(operator\[\]|ensure)'],
    roots=[BOX + '::Accessor::Accessor', BOX + '::Accessor::operator=', BOX + '::Accessor::~Accessor',
           'babylon::internal::ThreadIdImpl<-1>::ThreadIdImpl', 'babylon::internal::ThreadIdImpl<-1>::~ThreadIdImpl',
           'babylon::internal::ThreadIdImpl<0>::ThreadIdImpl', 'babylon::internal::ThreadIdImpl<0>::~ThreadIdImpl',
           A + '::allocate', A + '::deallocate', BOX + '::take_released', BOX + '::emplace', BOX + '::finish_released'],
    reviewed_compiler_conditionals=[],
    assumptions=['SC; RMW atomicity; fewer than 2^32-1 pushes and fewer than 2^32-3 values (A-wrap: the head version / value counter do not wrap)',
                 'RELY clauses of the free list are the GUARs of allocate/deallocate of other threads (asserted here for this thread; composition by reading, DESIGN 0.2)',
                 'A-chain: the link of a listed value other than the focus value is TAIL or a listed value and never ACTIVE (whole-list shape; for the focus value these facts are asserted)',
                 'ConcurrentVector cells are stable addresses and value-initialised (C04); a deposit id is shared only after emplace returned'],
    jobs=[
        dict(id='C14.allocate', enforce='IdAlloc_allocate', loops=True, backend='cadical'),
        dict(id='C14.deallocate', enforce='IdAlloc_deallocate', loops=True, backend='cadical'),
        dict(id='C14.box.take_released', enforce='Box_take_released', backend='cadical'),
        dict(id='C14.box.emplace', enforce='Box_emplace__x', replace=['IdAlloc_allocate'], backend='cadical'),
        dict(id='C14.accessor.move_ctor', enforce='Box_Accessor_ctor__AccessorR', backend='cadical'),
        dict(id='C14.accessor.move_assign', enforce='Box_Accessor_op_assign__AccessorR', backend='cadical'),
        dict(id='C14.accessor.dtor', enforce='Box_Accessor_dtor', replace=['Box_finish_released'], backend='cadical'),
        dict(id='C14.threadid.leaky.ctor', enforce='internal_ThreadIdImpl_L_1_R_ctor__IdAllocator_L_unsigned_short_RR', backend='cadical'),
        dict(id='C14.threadid.leaky.dtor', enforce='internal_ThreadIdImpl_L_1_R_dtor', backend='cadical'),
        dict(id='C14.threadid.ctor', enforce='internal_ThreadIdImpl_L_0_R_ctor__IdAllocator_L_unsigned_short_RR', backend='cadical'),
        dict(id='C14.threadid.dtor', enforce='internal_ThreadIdImpl_L_0_R_dtor', backend='cadical'),
        dict(id='C14.box.finish_released', enforce='Box_finish_released', replace=['IdAlloc_deallocate'], backend='cadical'),
    ],
)
