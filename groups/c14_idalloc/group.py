A = 'babylon::IdAllocator<unsigned int>'
NV = 'babylon::ConcurrentVector<std::atomic<unsigned int>, 128>'
BOX = 'babylon::DepositBox<babylon_vf::Item>'
SV = 'babylon::ConcurrentVector<babylon::DepositBox<babylon_vf::Item>::Slot, 0>'
GROUP = dict(
    prop='C14',
    driver='driver.cpp',
    spec='spec.h',
    aliases=[(NV, 'NextVec'), (SV, 'SlotVec'), (BOX, 'Box'), (A, 'IdAlloc'), ('babylon::VersionedValue<unsigned int>', 'VV'), ('babylon_vf::', '')],
    opaque_by_value=[NV, SV, 'absl::optional<babylon_vf::Item>'],
    outside_methods={'absl::optional<babylon_vf::Item>': ['operator*', 'emplace']},
    extern_re=[r'ConcurrentVector<std::atomic<unsigned int>,\s*128>::(operator\[\]|ensure)', r'ConcurrentVector<babylon::DepositBox<babylon_vf::Item>::Slot,\s*0>::(operator\[\]|ensure)'],
    roots=[A + '::allocate', A + '::deallocate', BOX + '::take_released', BOX + '::emplace', BOX + '::finish_released'],
    reviewed_compiler_conditionals=[],
    assumptions=['SC; RMW atomicity; the free-list head version does not wrap (2^32 pushes) between a pop reading the link and its CAS',
                 'RELY clauses of the free list are the GUARs of allocate/deallocate of other threads (checked here for this thread; composition argued in DESIGN)',
                 'ConcurrentVector cells are stable addresses (C04); deposit-box slot versions never decrease'],
    jobs=[
        dict(id='C14.allocate', enforce='IdAlloc_allocate', loops=True, backend='cadical'),
        dict(id='C14.deallocate', enforce='IdAlloc_deallocate', loops=True, backend='cadical'),
        dict(id='C14.box.take_released', enforce='Box_take_released', backend='cadical'),
        dict(id='C14.box.emplace', enforce='Box_emplace__x', replace=['IdAlloc_allocate'], backend='cadical'),
        dict(id='C14.box.finish_released', enforce='Box_finish_released', replace=['IdAlloc_deallocate'], backend='cadical'),
    ],
)
