// driver TU for C14: IdAllocator<uint32_t> free-list (versioned Treiber stack) and DepositBox take
#include "babylon/concurrent/deposit_box.h"
namespace babylon_vf {
struct Item { int x; };
using Box = ::babylon::DepositBox<Item>;
uint64_t force(::babylon::IdAllocator<uint32_t>& a, Box& b) {
  auto id = a.allocate();
  a.deallocate(id);
  auto bid = b.emplace();
  auto* p = b.take_released(bid);
  b.finish_released(bid);
  { auto acc = b.take(bid); Box::Accessor moved(::std::move(acc)); acc = ::std::move(moved); }
  auto tid = ::babylon::ThreadId::current_thread_id();
  auto tid2 = ::babylon::LeakyThreadId::current_thread_id();
  return id.version_and_value + (p != nullptr) + a.end() + tid.value + tid2.value;
}
}
