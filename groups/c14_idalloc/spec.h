/* C14 -- IdAllocator<uint32_t> (versioned Treiber stack of freed ids) and DepositBox.
 *
 * Rely/guarantee model with a ghost focus value v = g_fv (arbitrary, so every obligation holds for every id value):
 *   shared state: the free-list head (value, version), the minting counter, the link cell next[v] (g_cell; the cells of other
 *   values are a scratch cell), the deposit slot of v (g_slot; other slots: g_slot_other).
 *   ghosts: g_in "v is in the free list", g_held "v is owned by this thread", g_maxver = the largest version ever handed out
 *   together with value v (-1: v was never handed out).
 *   S_INV (global invariant, assumed at entry, re-established at every atomic step of this thread and asserted at exit):
 *     head.value == v ==> g_in;  g_in and g_held exclude each other;  g_maxver <= head.version;  g_in ==> g_maxver < head.version
 *     (a listed v was pushed after its last hand-out, and every push bumps the version);  g_in ==> next[v] != ACTIVE;
 *     v >= next_value (never minted) ==> never handed out, not listed, not held.
 *   RELY (steps of other threads; every clause is a GUAR asserted below for this thread's own steps, or follows from S_INV):
 *     the head version and the minting counter never decrease; while the version is unchanged only pops happened: v cannot
 *     re-enter the list and a v that stays listed keeps its link and its g_maxver; a value this thread holds is not touched.
 *   GUAR asserted at this thread's successful head CAS:
 *     pop : version unchanged; new head value == the *current* link of the popped value (the ABA obligation); the version handed
 *           out with v is larger than every version handed out with v before;
 *     push: version + 1; only a held value is pushed; its link == the value of the head it replaces.
 *   K1: a new value is minted only after the head was observed empty.
 * Explicit assumptions: SC + RMW atomicity; fewer than 2^32-1 pushes (version wrap) and fewer than 2^32-3 values. */
#ifndef C14_SPEC_H
#define C14_SPEC_H
unsigned int nondet_u32(void);
long nondet_long(void);
_Bool nondet_bool(void);
typedef struct IdAlloc IdAlloc_t;
typedef struct VV VV_t;
#define VAL(h) ((h).__anon_L22.__anon_L24.value)
#define VER(h) ((h).__anon_L22.__anon_L24.version)
#define TAIL 0xFFFFFFFFU
#define ACTIVE 0xFFFFFFFEU

VV_t *g_head;                 /* &self->_free_head */
unsigned int *g_next;         /* &self->_next_value */
unsigned int g_fv;            /* focus value */
unsigned int g_cell, g_scratch;
struct Box_Slot g_slot, g_slot_other;
_Bool g_in, g_held;
long g_maxver;
unsigned int g_last_head_value; _Bool g_loaded_head;
unsigned g_pops, g_pushes, g_mints;
_Bool g_quiet;                /* no other thread runs (sequential case of the property) */
_Bool g_took;
static void vf_havoc_ghosts2(void);
static void vf_havoc_ghosts(void) { vf_havoc_ghosts2();
  g_fv = nondet_u32(); g_cell = nondet_u32(); g_in = nondet_bool(); g_held = nondet_bool(); g_maxver = nondet_long(); g_quiet = nondet_bool();
  g_slot.version = nondet_u32(); g_loaded_head = 0; g_pops = g_pushes = g_mints = 0; g_took = 0;
}
#define S_INV (g_fv < ACTIVE && (VAL(*g_head) != g_fv || g_in) && !(g_in && g_held) && VAL(*g_head) != ACTIVE \
  && g_maxver >= -1 && g_maxver <= (long)VER(*g_head) && (!g_in || g_maxver < (long)VER(*g_head)) && (!g_in || (g_cell != ACTIVE && g_cell != g_fv)) \
  && VER(*g_head) < 0xFFFFFFFFU && *g_next < ACTIVE - 1 \
  && (g_fv < *g_next || (g_maxver == -1 && !g_in && !g_held)))
/* deposit slot of v: once v was handed out with version P = g_maxver the slot version is P (deposited) or P + 1 (taken) or older;
 * the slot of a value never handed out (g_maxver == -1) still has the version 0 it was value-initialised with (ConcurrentVector's default constructor is T()) */
#define B_INV ((long)g_slot.version <= g_maxver + 1)

static void env_step(void) {
  if (g_quiet) return;
  VV_t nh; unsigned int nc = nondet_u32(), nn = nondet_u32(), nsv = nondet_u32(); _Bool nin = nondet_bool(); long nmax = nondet_long();
  VAL(nh) = nondet_u32(); VER(nh) = nondet_u32();
  __CPROVER_assume(VER(nh) >= VER(*g_head) && VER(nh) < 0xFFFFFFFFU);          /* pushes only increase the version */
  __CPROVER_assume(nn >= *g_next && nn < ACTIVE - 1);                         /* minting only increases the counter */
  __CPROVER_assume(nmax >= g_maxver && nmax <= (long)VER(nh));                /* hand-outs of v carry a head version */
  __CPROVER_assume(nsv >= g_slot.version);                                     /* slot versions never go back (GUAR of take and emplace) */
  if (VER(nh) == VER(*g_head)) {                                               /* no push in between: only pops and mints */
    __CPROVER_assume(!nin || g_in);                                            /*   v cannot re-enter the list */
    __CPROVER_assume(!nin || (nc == g_cell && nmax == g_maxver));              /*   a listed v keeps its link */
  }
  __CPROVER_assume(VAL(nh) != g_fv || nin);
  __CPROVER_assume(VAL(nh) != ACTIVE);
  __CPROVER_assume(!nin || (nmax < (long)VER(nh) && nc != ACTIVE && nc != g_fv));
  if (g_held) __CPROVER_assume(!nin && nc == g_cell && nmax == g_maxver);      /* nobody touches a value this thread owns ... */
  if (g_held || g_in) __CPROVER_assume(nsv == g_slot.version);                 /* ... and nobody has a live deposit id for a value that is free or owned here */
  if (g_fv >= nn) __CPROVER_assume(nmax == -1 && !nin);
  __CPROVER_assume((long)nsv <= nmax + 1);
  *g_head = nh; *g_next = nn; g_cell = nc; g_in = nin; g_maxver = nmax; g_slot.version = nsv;
}
unsigned int *NextVec_op_index__u64(struct NextVec *v, unsigned long index) { return index == g_fv ? &g_cell : &g_scratch; }
unsigned int *NextVec_ensure(struct NextVec *v, unsigned long index) { return index == g_fv ? &g_cell : &g_scratch; }
struct Box_Slot *SlotVec_op_index__u64(struct SlotVec *v, unsigned long index) { return index == g_fv ? &g_slot : &g_slot_other; }
struct Box_Slot *SlotVec_ensure(struct SlotVec *v, unsigned long index) { return index == g_fv ? &g_slot : &g_slot_other; }
struct Item g_item;
struct Item *absl_optional_L_Item_R_op_star(struct absl_optional_L_Item_R *o) { return &g_item; }
struct Item *absl_optional_L_Item_R_emplace(struct absl_optional_L_Item_R *o) { return &g_item; }

VV_t vf_atomic_load_VV(VV_t *p, int order, int site) {
  env_step();
  __CPROVER_assert(order == 2 || order == 4 || order == 5, "K6 C14 the free-list head is loaded with acquire");
  g_last_head_value = VAL(*p); g_loaded_head = 1;
  return *p;
}
unsigned int vf_atomic_load_u32(unsigned int *p, int order, int site) { env_step(); return *p; }
void vf_atomic_store_u32(unsigned int *p, unsigned int v, int order, int site) {
  env_step();
  if (p == &g_slot.version) {
    /* deposit: the new round number is not older than anything the slot has seen, so stale ids stay stale */
    __CPROVER_assert(v >= *p, "K5 C14.emplace never moves a slot version backwards");
  }
  *p = v;
}
unsigned int vf_atomic_fetch_add_u32(unsigned int *p, unsigned int v, int order, int site) {
  env_step();
  __CPROVER_assert(g_loaded_head && g_last_head_value == TAIL, "K1 C14.allocate mints a new value only after observing an empty free list");
  g_mints++;
  unsigned int old = *p; *p = old + v;
  __CPROVER_assume(old < ACTIVE - 2);                 /* A-wrap: fewer than 2^32 - 3 values */
  if (old == g_fv) { g_held = 1; g_maxver = 0; }
  return old;
}
_Bool vf_atomic_compare_exchange_weak_VV(VV_t *p, VV_t *expected, VV_t desired, int success, int failure, int site) {
  env_step();
  if ((!g_quiet && nondet_bool()) || VAL(*p) != VAL(*expected) || VER(*p) != VER(*expected)) { *expected = *p; g_last_head_value = VAL(*p); return 0; }
  if (site == SITE_IdAlloc_allocate_this_free_head_compare_exchange_weak_1) {
    __CPROVER_assert(success == 4 || success == 5, "K6 C14.pop the head CAS is acq_rel");
    __CPROVER_assert(VER(desired) == VER(*expected), "K5 C14.pop leaves the version unchanged");
    if (VAL(*expected) != g_fv) {
      /* A-chain (whole-list shape, outside the one-value focus): the link of a listed value w is TAIL or a listed value, never
       * ACTIVE.  For w == v the same facts are asserted below; that w's link is its *true* link is the ABA obligation with focus w. */
      __CPROVER_assume(VAL(desired) != ACTIVE && (VAL(desired) != g_fv || g_in));
    }
    if (VAL(*expected) == g_fv) {
      __CPROVER_assert(VAL(desired) != ACTIVE, "K5 C14.pop never installs the ACTIVE flag as head");
      __CPROVER_assert(VAL(desired) == g_cell, "K5 C14.pop installs the true successor of the popped value (no ABA)");
      __CPROVER_assert((long)VER(*expected) > g_maxver, "K5 C14.pop hands v out with a version larger than any handed out with v before");
      g_in = 0; g_held = 1; g_maxver = VER(*expected);
    }
    g_pops++;
  } else {
    __CPROVER_assert(success == 3 || success == 4 || success == 5, "K6 C14.push the head CAS is at least release");
    __CPROVER_assume(VER(*expected) < 0xFFFFFFFEU);   /* A-wrap: fewer than 2^32 - 1 pushes in the allocator's life */
    __CPROVER_assert(VER(desired) == (unsigned int)(VER(*expected) + 1), "K5 C14.push bumps the version by exactly one");
    if (VAL(desired) == g_fv) {
      __CPROVER_assert(g_held, "K5 C14.push only a value owned by the caller is pushed");
      __CPROVER_assert(g_cell == VAL(*expected), "K5 C14.push links the pushed value to the head it replaces");
      g_in = 1; g_held = 0;
    }
    g_pushes++;
  }
  *p = desired;
  __CPROVER_assert((VAL(*g_head) != g_fv || g_in) && !(g_in && g_held) && VAL(*g_head) != ACTIVE, "K5 C14 head CAS keeps: head value listed, listed and held exclusive, head never ACTIVE");
  __CPROVER_assert(g_maxver >= -1 && g_maxver <= (long)VER(*g_head) && (!g_in || g_maxver < (long)VER(*g_head)), "K5 C14 head CAS keeps: versions handed out with v are below the head version while v is listed");
  __CPROVER_assert(!g_in || (g_cell != ACTIVE && g_cell != g_fv), "K5 C14 head CAS keeps: a listed value is not ACTIVE and not linked to itself");
  __CPROVER_assert(g_fv < *g_next || (g_maxver == -1 && !g_in && !g_held), "K5 C14 head CAS keeps: a value never minted is neither listed nor held");
  __CPROVER_assert(S_INV, "K5 C14 the head CAS re-establishes the free-list invariant");
  return 1;
}

#define A_SHAPE(a) (__CPROVER_is_fresh(a, sizeof(*a)) && __CPROVER_pointer_equals(g_head, &(a)->_free_head) && __CPROVER_pointer_equals(g_next, &(a)->_next_value) && S_INV && B_INV)
#define A_ASSIGNS(a) (a)->_free_head, (a)->_next_value, g_cell, g_scratch, g_in, g_held, g_maxver, g_slot.version, g_last_head_value, g_loaded_head, g_pops, g_mints, g_pushes

/* allocate(): one pop or one mint; the returned id is owned by the caller, marked ACTIVE, and its version is new for its value */
VV_t IdAlloc_allocate(IdAlloc_t *a)
#ifdef VF_ENFORCE_IdAlloc_allocate
__CPROVER_requires(A_SHAPE(a) && !g_held)
#else
__CPROVER_requires(1)
#endif
__CPROVER_assigns(A_ASSIGNS(a))
__CPROVER_ensures(S_INV && B_INV)
__CPROVER_ensures(g_pops + g_mints == 1 && g_pushes == 0)
__CPROVER_ensures(g_mints == 1 ==> (VER(__CPROVER_return_value) == 0 && VAL(__CPROVER_return_value) < ACTIVE - 1))
__CPROVER_ensures(VAL(__CPROVER_return_value) == g_fv ==> (g_held && !g_in && g_cell == ACTIVE))
__CPROVER_ensures(VAL(__CPROVER_return_value) == g_fv ==> ((long)VER(__CPROVER_return_value) > __CPROVER_old(g_maxver) && g_maxver == (long)VER(__CPROVER_return_value)))
__CPROVER_ensures(VAL(__CPROVER_return_value) == g_fv ==> g_slot.version <= VER(__CPROVER_return_value))
__CPROVER_ensures(VAL(__CPROVER_return_value) != g_fv ==> (g_held == __CPROVER_old(g_held)))
/* sequential case: a non-empty head v is reused (v is arbitrary), an empty head mints the next value.
 * NOT proved here: head.value == TAIL <=> the list is empty (needs the whole-list shape, outside the one-value focus abstraction) */
__CPROVER_ensures((g_quiet && __CPROVER_old(VAL(a->_free_head)) == g_fv) ==> (g_mints == 0 && VAL(__CPROVER_return_value) == g_fv))
__CPROVER_ensures((g_quiet && __CPROVER_old(VAL(a->_free_head)) == TAIL) ==> (g_mints == 1 && VAL(__CPROVER_return_value) == __CPROVER_old(a->_next_value)))
;
//@loop IdAlloc_allocate 1
//@  __CPROVER_assigns(@l1:current_head@, self->_free_head, self->_next_value, g_cell, g_scratch, g_in, g_held, g_maxver, g_slot.version, g_last_head_value, g_pops)
//@  __CPROVER_loop_invariant(S_INV && B_INV && !g_held && g_pops == 0 && g_mints == 0 && g_pushes == 0 && g_loaded_head)
//@  __CPROVER_loop_invariant(g_last_head_value == VAL(@l1:current_head@) && VER(*g_head) >= VER(@l1:current_head@) && g_maxver >= __CPROVER_loop_entry(g_maxver))
//@  __CPROVER_loop_invariant(g_quiet ==> (VAL(*g_head) == VAL(@l1:current_head@) && VER(*g_head) == VER(@l1:current_head@) && g_in == __CPROVER_loop_entry(g_in)))
//@end

/* deallocate(id): one push of a value the caller owns; afterwards v is listed and no longer ACTIVE */
void IdAlloc_deallocate(IdAlloc_t *a, VV_t id)
#ifdef VF_ENFORCE_IdAlloc_deallocate
__CPROVER_requires(A_SHAPE(a) && VAL(id) < ACTIVE && (VAL(id) != g_fv || g_held) && (VAL(id) == g_fv || !g_held))
#else
__CPROVER_requires(VAL(id) < ACTIVE && (VAL(id) != g_fv || g_held) && (VAL(id) == g_fv || !g_held))
#endif
__CPROVER_assigns(A_ASSIGNS(a))
__CPROVER_ensures(S_INV && B_INV)
__CPROVER_ensures(g_pushes == 1 && g_pops == 0 && g_mints == 0)
__CPROVER_ensures(VAL(id) == g_fv ==> (!g_held && g_maxver == __CPROVER_old(g_maxver)))
__CPROVER_ensures((VAL(id) == g_fv && g_quiet) ==> (g_in && g_cell != ACTIVE && VAL(*g_head) == g_fv))
;
//@loop IdAlloc_deallocate 1
//@  __CPROVER_assigns(@l1:current_head@, @p1:id@, self->_free_head, self->_next_value, g_cell, g_scratch, g_in, g_held, g_maxver, g_slot.version, g_last_head_value, g_pushes)
//@  __CPROVER_loop_invariant(S_INV && B_INV && g_pushes == 0 && VAL(@p1:id@) == __CPROVER_loop_entry(VAL(@p1:id@)) && VAL(@p1:id@) < ACTIVE && (VAL(@p1:id@) != g_fv || g_held) && (VAL(@p1:id@) == g_fv || !g_held))
//@  __CPROVER_loop_invariant(g_maxver == __CPROVER_loop_entry(g_maxver) || VAL(@p1:id@) != g_fv)
//@  __CPROVER_loop_invariant(g_quiet ==> (VAL(*g_head) == VAL(@l1:current_head@) && VER(*g_head) == VER(@l1:current_head@)))
//@end

/* ---- DepositBox ---------------------------------------------------------------------------------------------------------- */
_Bool vf_atomic_compare_exchange_strong_u32(unsigned int *p, unsigned int *expected, unsigned int desired, int success, int failure, int site) {
  env_step();
  if (*p != *expected) { *expected = *p; return 0; }
  __CPROVER_assert(desired == (unsigned int)(*expected + 1) && desired > *expected, "K5 C14.take moves the slot version forward by exactly one");
  *p = desired; g_took = 1;
  return 1;
}
#define BOX_SHAPE(b) (__CPROVER_is_fresh(b, sizeof(*b)) && __CPROVER_pointer_equals(g_head, &(b)->_slot_id_allocator._free_head) && __CPROVER_pointer_equals(g_next, &(b)->_slot_id_allocator._next_value) && S_INV && B_INV)

/* take_released(id) for the focus slot: wins iff the CAS moved the version from id.version to id.version + 1; a stale id
 * (slot version already beyond id.version) never matches; a live id with no competitor matches */
struct Item *Box_take_released(struct Box *b, VV_t id)
__CPROVER_requires(BOX_SHAPE(b) && VAL(id) == g_fv && !g_held && !g_in && VER(id) < 0xFFFFFFFFU)
__CPROVER_assigns(A_ASSIGNS(&b->_slot_id_allocator), g_took)
__CPROVER_ensures((__CPROVER_return_value != (struct Item *)0) == g_took)
__CPROVER_ensures(g_took ==> g_slot.version == VER(id) + 1)
__CPROVER_ensures(__CPROVER_old(g_slot.version) > VER(id) ==> !g_took)
__CPROVER_ensures((g_quiet && __CPROVER_old(g_slot.version) == VER(id)) ==> g_took)
__CPROVER_ensures(g_slot.version >= __CPROVER_old(g_slot.version))
;
/* emplace(): the id comes from the allocator; the slot's round number becomes exactly that id's version, which is at least
 * every round number the slot has had (B_INV + the allocator's "new version for this value" postcondition) */
VV_t Box_emplace__x(struct Box *b)
__CPROVER_requires(BOX_SHAPE(b) && !g_held)
__CPROVER_assigns(A_ASSIGNS(&b->_slot_id_allocator), g_slot_other.version)
__CPROVER_ensures(VAL(__CPROVER_return_value) == g_fv ==> (g_slot.version == VER(__CPROVER_return_value) && g_maxver == (long)VER(__CPROVER_return_value) && g_held))
__CPROVER_ensures(VAL(__CPROVER_return_value) == g_fv ==> (long)VER(__CPROVER_return_value) > __CPROVER_old(g_maxver))
__CPROVER_ensures(B_INV)
;
/* finish_released(id): returns the slot's value to the allocator (deallocate's precondition: the caller owns it) */
unsigned g_fin_calls; struct Box *g_fin_box; unsigned long g_fin_id;
void Box_finish_released(struct Box *b, VV_t id)
#ifdef VF_ENFORCE_Box_Accessor_dtor      /* as a callee of ~Accessor only the call itself matters */
__CPROVER_requires(1)
__CPROVER_assigns(g_fin_calls, g_fin_box, g_fin_id)
__CPROVER_ensures(g_fin_calls == __CPROVER_old(g_fin_calls) + 1 && g_fin_box == b && g_fin_id == id.__anon_L22.version_and_value)
#else
__CPROVER_requires(BOX_SHAPE(b) && VAL(id) < ACTIVE && (VAL(id) != g_fv || g_held) && (VAL(id) == g_fv || !g_held))
__CPROVER_assigns(A_ASSIGNS(&b->_slot_id_allocator))
__CPROVER_ensures(g_pushes == 1 && (VAL(id) == g_fv ==> !g_held))
#endif
;
/* ---- DepositBox::Accessor (the RAII form of take): exactly one accessor of a take finishes the slot.
 * Move construction empties the source, move assignment swaps, the destructor finishes the slot iff it still holds the object. */
#define ACC_ID(a) ((a)->_id.__anon_L22.version_and_value)
void Box_Accessor_ctor__AccessorR(struct Box_Accessor *self, struct Box_Accessor *other)
__CPROVER_requires(__CPROVER_is_fresh(self, sizeof(*self)) && __CPROVER_is_fresh(other, sizeof(*other)))
__CPROVER_assigns(self->_box, self->_object, self->_id, other->_object)
__CPROVER_ensures(self->_box == __CPROVER_old(other->_box) && self->_object == __CPROVER_old(other->_object) && ACC_ID(self) == ACC_ID(other))
__CPROVER_ensures(other->_object == (struct Item *)0)
;
struct Box_Accessor *Box_Accessor_op_assign__AccessorR(struct Box_Accessor *self, struct Box_Accessor *other)
__CPROVER_requires(__CPROVER_is_fresh(self, sizeof(*self)) && __CPROVER_is_fresh(other, sizeof(*other)))
__CPROVER_assigns(self->_box, self->_object, self->_id, other->_box, other->_object, other->_id)
__CPROVER_ensures(__CPROVER_return_value == self)
__CPROVER_ensures(self->_box == __CPROVER_old(other->_box) && self->_object == __CPROVER_old(other->_object) && other->_box == __CPROVER_old(self->_box) && other->_object == __CPROVER_old(self->_object))
__CPROVER_ensures(ACC_ID(self) == __CPROVER_old(other->_id.__anon_L22.version_and_value) && ACC_ID(other) == __CPROVER_old(self->_id.__anon_L22.version_and_value))
;
void Box_Accessor_dtor(struct Box_Accessor *self)
__CPROVER_requires(__CPROVER_is_fresh(self, sizeof(*self)) && g_fin_calls == 0)
__CPROVER_assigns(g_fin_calls, g_fin_box, g_fin_id)
__CPROVER_ensures(g_fin_calls == (self->_object != (struct Item *)0 ? 1u : 0u))
__CPROVER_ensures(g_fin_calls == 1 ==> (g_fin_box == self->_box && g_fin_id == ACC_ID(self)))
;
/* ---- ThreadIdImpl<Leaky> (one object per thread, thread_local): the id is allocated once at thread birth and given back once at
 * thread exit, for both flavours (Leaky only changes whether the allocator *singleton* is ever destroyed) */
unsigned g_tid_alloc, g_tid_dealloc; unsigned int g_tid_val, g_tid_freed; void *g_tid_from;
static void vf_havoc_ghosts2(void) { g_fin_calls = 0; g_tid_alloc = 0; g_tid_dealloc = 0; }
struct VersionedValue_L_unsigned_short_R IdAllocator_L_unsigned_short_R_allocate(struct IdAllocator_L_unsigned_short_R *a) {
  struct VersionedValue_L_unsigned_short_R r; r.__anon_L22.version_and_value = nondet_u32(); g_tid_val = r.__anon_L22.version_and_value; g_tid_alloc++; g_tid_from = a; return r;
}
void IdAllocator_L_unsigned_short_R_deallocate(struct IdAllocator_L_unsigned_short_R *a, struct VersionedValue_L_unsigned_short_R id) {
  g_tid_freed = id.__anon_L22.version_and_value; g_tid_dealloc++; g_tid_from = a;
}
#define TID_CONTRACTS(T) \
void T##_ctor__IdAllocator_L_unsigned_short_RR(struct T *self, struct IdAllocator_L_unsigned_short_R *allocator) \
__CPROVER_requires(__CPROVER_is_fresh(self, sizeof(*self)) && g_tid_alloc == 0) \
__CPROVER_assigns(self->_allocator, self->_value, g_tid_alloc, g_tid_val, g_tid_from) \
__CPROVER_ensures(g_tid_alloc == 1 && g_tid_from == allocator && self->_allocator == allocator && self->_value.__anon_L22.version_and_value == g_tid_val) \
; \
void T##_dtor(struct T *self) \
__CPROVER_requires(__CPROVER_is_fresh(self, sizeof(*self)) && g_tid_dealloc == 0) \
__CPROVER_assigns(g_tid_dealloc, g_tid_freed, g_tid_from) \
__CPROVER_ensures(g_tid_dealloc == 1 && g_tid_from == self->_allocator && g_tid_freed == self->_value.__anon_L22.version_and_value) \
;
TID_CONTRACTS(internal_ThreadIdImpl_L_1_R)
TID_CONTRACTS(internal_ThreadIdImpl_L_0_R)
#endif
