E = 'babylon::LogEntry'
B = 'babylon::LogStreamBuffer'
IOV = 'std::vector<iovec>'
GROUP = dict(
    prop='C20',
    driver='driver.cpp',
    spec='spec.h',
    aliases=[(IOV, 'IovVec'), ('babylon::', '')],
    opaque_by_value=['std::basic_streambuf<char>'],
    # LogEntry deliberately indexes pages[INLINE_PAGE_CAPACITY-1], the storage of `head` (see the comment in log_entry.h).  cbmc drops
    # accesses to element 13 of a 13-element member array (and mishandles a union of the two views), so the same 120 bytes are
    # declared as size + 14 page slots and `head` is lowered to slot 13 (offsets asserted in spec.h: pages 8, slot 13 at 112, sizeof 120).
    opaque_records=[E],
    extra_structs={E: 'struct @ { unsigned long size; char *pages[14]; };'},
    field_alias={(E, 'head'): '(*(struct LogEntry_PageTable **)&{obj}pages[13])'},
    type_aliases={'std::basic_streambuf<char>::char_type': 'char', 'std::basic_streambuf<char>::int_type': 'int'},
    outside_methods={IOV: ['emplace_back'], 'std::basic_streambuf<char>': ['pptr', 'setp', 'sputc', 'pbase', 'epptr', 'pbump'], B: ['pptr', 'setp', 'sputc', 'pbase', 'epptr', 'pbump']},
    roots=[E + '::append_to_iovec', E + '::pages_append_to_iovec', E + '::page_table_append_to_iovec',
           B + '::overflow', B + '::sync', B + '::overflow_page_table', B + '::begin', B + '::end'],
    reviewed_compiler_conditionals=[],
    assumptions=[],
    jobs=[
        dict(id='C20.pages_append', enforce='LogEntry_pages_append_to_iovec', loops=True, backend='cadical'),
        dict(id='C20.sync', enforce='LogStreamBuffer_sync', backend='cadical'),
        dict(id='C20.begin', enforce='LogStreamBuffer_begin', backend='cadical'),
        dict(id='C20.overflow', enforce='LogStreamBuffer_overflow', backend='cadical', timeout=900, defines=['VF_PS 256UL']),
        dict(id='C20.reader.bounded', harness='h_reader_bounded', unwind=30, backend='cadical', timeout=900,
             bounded='page_size 32 (3 entries per table), size <= 704 bytes = 22 data pages: inline slots, head-slot boundary, three tables; unwind 30',
             defines=['VF_PS 32UL', 'VF_READER_BOUNDED 1', 'VF_MAXB 704UL', 'VF_IOV_LOG 28']),
        dict(id='C20.writer.bounded', harness='h_writer_bounded', unwind=19, backend='cadical', timeout=900, mem_gb=20,
             bounded='page_size 32 (3 entries per table), 1..18 data pages streamed: inline slots, head-slot boundary, first table opened and filled, second table opened; unwind 19',
             defines=['VF_PS 32UL', 'VF_WRITER_BOUNDED 1', 'VF_NPAGES 18', 'VF_MAXPG 24']),
        dict(id='C20.reader.bounded64', harness='h_reader_bounded', unwind=46, backend='cadical', timeout=3000, tier='thorough', mem_gb=24,
             bounded='page_size 64 (7 entries per table), size <= 2304 bytes = 36 data pages: inline slots, head-slot boundary, four tables; unwind 46',
             defines=['VF_PS 64UL', 'VF_READER_BOUNDED 1', 'VF_MAXB 2304UL', 'VF_IOV_LOG 42']),
        dict(id='C20.writer.bounded64', harness='h_writer_bounded', unwind=24, backend='cadical', timeout=3000, tier='thorough', mem_gb=24,
             bounded='page_size 64 (7 entries per table), 1..22 data pages streamed (inline slots, head-slot boundary, first table filled, second opened); unwind 24',
             defines=['VF_PS 64UL', 'VF_WRITER_BOUNDED 1', 'VF_NPAGES 22', 'VF_MAXPG 28']),
        dict(id='C20.overflow.ps4096', enforce='LogStreamBuffer_overflow', backend='cadical', timeout=1800, tier='thorough'),
    ],
)
