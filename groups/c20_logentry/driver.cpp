// driver TU for C20: LogEntry scatter list (reader) and LogStreamBuffer page bookkeeping (writer), defined in log_entry.cpp
#include "babylon/logging/log_entry.cpp"
