/* C20 (log entry layout) -- LogStreamBuffer (writer: begin / overflow / overflow_page_table / sync / end) and
 * LogEntry::append_to_iovec (reader: pages_append_to_iovec / page_table_append_to_iovec).
 *
 * Layout both sides must agree on (IPC = 14 inline slots, TC = (page_size - 8) / 8 entries per page table):
 *   data page m <  IPC      and the entry has at most IPC pages : _log.pages[m]   (slot IPC-1 is the storage of `head`)
 *   otherwise data page m <  IPC-1                              : _log.pages[m]
 *             data page m >= IPC-1                              : table (m-(IPC-1)) / TC of the chain head -> next -> ..., entry (m-(IPC-1)) % TC
 * Writer step contract (overflow): with n data pages so far and the cursor at SLOT(n), the new page is stored at SLOT(n) (after
 * opening a new table when the current one is full: moving the last inline page into it / linking it behind the last table) and
 * the cursor is SLOT(n+1); bytes: size + unsynced grows by exactly the byte written.  Reader contract (pages_append_to_iovec): the
 * scatter entries appended are exactly pages[0..ceil(size/page_size)) with lengths page_size..., size % page_size.
 * The table chain (unbounded list in memory) has no quantifier-free precondition: page_table_append_to_iovec and the end-to-end
 * agreement writer -> reader are checked BOUNDED (page_size 64, up to 2 tables + 1) by C20.roundtrip.bounded. */
#ifndef C20_SPEC_H
#define C20_SPEC_H
#include <stdint.h>
#include <stdlib.h>
unsigned long nondet_u64(void); _Bool nondet_bool(void); char nondet_char(void);
#ifndef VF_PS
#define VF_PS 4096UL
#endif
#define IPC 14UL
#define TC ((VF_PS - 8) / 8)
typedef struct LogStreamBuffer LSB_t;
_Static_assert(sizeof(struct LogEntry) == 120 && __builtin_offsetof(struct LogEntry, pages) == 8 && __builtin_offsetof(struct LogEntry, pages[13]) == 112, "LogEntry: 14 slots, slot 13 is the storage of head (clang: offsetof(LogEntry, head) == 112, checked by the layout self-check of LogStreamBuffer)");
#define E_HEAD(e) (*(PT_t **)&(e)->pages[13])
typedef struct LogEntry_PageTable PT_t;

/* ---- std::streambuf put area (trusted library semantics): pbase/pptr/epptr */
char *g_pb, *g_pp, *g_ep;
void std_basic_streambuf_L_char_R_setp(struct std_basic_streambuf_L_char_R *s, char *b, char *e) { g_pb = b; g_pp = b; g_ep = e; }
char *std_basic_streambuf_L_char_R_pptr(struct std_basic_streambuf_L_char_R *s) { return g_pp; }
char *std_basic_streambuf_L_char_R_pbase(struct std_basic_streambuf_L_char_R *s) { return g_pb; }
char *std_basic_streambuf_L_char_R_epptr(struct std_basic_streambuf_L_char_R *s) { return g_ep; }
void std_basic_streambuf_L_char_R_pbump(struct std_basic_streambuf_L_char_R *s, int n) { g_pp += n; }
int std_basic_streambuf_L_char_R_sputc(struct std_basic_streambuf_L_char_R *s, char c) {
  __CPROVER_assert(g_pp != 0 && g_pp < g_ep, "K5 C20.overflow leaves room in the put area for the character it must store");
  *g_pp = c; g_pp++;
  return (unsigned char)c;
}
/* ---- page allocator (assumed contract: a fresh page of page_size bytes nobody holds) */
unsigned g_alloc; char *g_page1, *g_page2;
#ifdef VF_MAXPG
char *g_all[VF_MAXPG];
#endif
size_t PageAllocator_page_size(struct PageAllocator *a) { return VF_PS; }
void *PageAllocator_allocate__void(struct PageAllocator *a) {
  char **p = malloc((VF_PS / 8) * sizeof(char *)); __CPROVER_assume(p != 0);
  if (g_alloc == 0) g_page1 = (char *)p; else g_page2 = (char *)p;
#ifdef VF_MAXPG
  __CPROVER_assert(g_alloc < VF_MAXPG, "C20 bounded model: more pages than the bound");
  g_all[g_alloc] = (char *)p;
#endif
  __CPROVER_assume(g_alloc < 1000); g_alloc++;
  return p;
}
/* ---- std::vector<iovec>::emplace_back: ghost recorder */
size_t g_cnt, g_bytes, g_w; void *g_w_base; size_t g_w_len; _Bool g_w_seen;
struct iovec g_last;
#ifdef VF_IOV_LOG
struct iovec g_log[VF_IOV_LOG];
#endif
struct iovec *IovVec_emplace_back(struct IovVec *v, struct iovec *x) {
  if (g_cnt == g_w) { g_w_base = x->iov_base; g_w_len = x->iov_len; g_w_seen = 1; }
#ifdef VF_IOV_LOG
  __CPROVER_assert(g_cnt < VF_IOV_LOG, "C20 bounded model: scatter list longer than the log");
  g_log[g_cnt] = *x;
#endif
  __CPROVER_assume(g_cnt < (1UL << 40) && g_bytes < (1UL << 60));
  g_cnt++; g_bytes += x->iov_len; g_last = *x;
  return &g_last;
}

size_t g_total0; _Bool g_full;   /* entry values bound by the preconditions */
size_t g_n, g_j, g_idx; _Bool g_ext; PT_t *g_T; char **g_parr; size_t g_pn;
static void vf_havoc_ghosts(void) {
  g_alloc = 0; g_cnt = nondet_u64(); g_bytes = nondet_u64(); g_w = nondet_u64(); g_w_seen = 0;
  g_total0 = nondet_u64(); g_full = nondet_bool();
  g_n = nondet_u64(); g_j = nondet_u64(); g_idx = nondet_u64(); g_ext = nondet_bool();
  g_pn = nondet_u64(); __CPROVER_assume(g_pn < (1UL << 32)); g_parr = malloc((g_pn + 1) * sizeof(char *)); __CPROVER_assume(g_parr != 0);
  { char **t = malloc((VF_PS / 8) * sizeof(char *)); __CPROVER_assume(t != 0); g_T = (PT_t *)t; }
}

/* ================= reader: pages_append_to_iovec ================= */
#define CEIL_PAGES(sz) (((sz) + VF_PS - 1) / VF_PS)
void LogEntry_pages_append_to_iovec(char **pages, unsigned long size, unsigned long page_size, struct IovVec *iov)
__CPROVER_requires(page_size == VF_PS && __CPROVER_pointer_equals(pages, g_parr) && size <= g_pn * VF_PS && g_cnt < (1UL << 33) && g_bytes < (1UL << 50))
__CPROVER_assigns(g_cnt, g_bytes, g_w_base, g_w_len, g_w_seen, g_last)
__CPROVER_ensures(g_cnt == __CPROVER_old(g_cnt) + CEIL_PAGES(size) && g_bytes == __CPROVER_old(g_bytes) + size)
__CPROVER_ensures((g_w >= __CPROVER_old(g_cnt) && g_w < g_cnt) ==> (g_w_seen && g_w_base == (void *)pages[g_w - __CPROVER_old(g_cnt)]
                   && g_w_len == ((g_w - __CPROVER_old(g_cnt)) < size / VF_PS ? VF_PS : size % VF_PS)))
__CPROVER_ensures((g_w < __CPROVER_old(g_cnt) || g_w >= g_cnt) ==> g_w_seen == __CPROVER_old(g_w_seen))
;
size_t g_cnt0, g_bytes0, g_size0;
//@loop LogEntry_pages_append_to_iovec 1
//@  __CPROVER_assigns(@l2:i@, @p2:size@, g_cnt, g_bytes, g_w_base, g_w_len, g_w_seen, g_last)
//@  __CPROVER_loop_invariant(@l2:i@ <= @l1:num@ && @l1:num@ == __CPROVER_loop_entry(@p2:size@) / VF_PS && @p2:size@ == __CPROVER_loop_entry(@p2:size@) - @l2:i@ * VF_PS)
//@  __CPROVER_loop_invariant(g_cnt == __CPROVER_loop_entry(g_cnt) + @l2:i@ && g_bytes == __CPROVER_loop_entry(g_bytes) + @l2:i@ * VF_PS)
//@  __CPROVER_loop_invariant((g_w >= __CPROVER_loop_entry(g_cnt) && g_w < g_cnt) ==> (g_w_seen && g_w_base == (void *)g_parr[g_w - __CPROVER_loop_entry(g_cnt)] && g_w_len == VF_PS))
//@  __CPROVER_loop_invariant((g_w < __CPROVER_loop_entry(g_cnt) || g_w >= g_cnt) ==> g_w_seen == __CPROVER_loop_entry(g_w_seen))
//@  __CPROVER_decreases(@l1:num@ - @l2:i@)
//@end

/* ================= writer ================= */
#define TOTAL(b) ((b)->_log.size + ((g_pp != 0 && (uintptr_t)g_pp > (uintptr_t)(b)->_sync_point) ? (size_t)(g_pp - (b)->_sync_point) : 0))
/* cursor invariant with n data pages stored so far */
#define W_INLINE(b) (!g_ext && g_n <= IPC && __CPROVER_pointer_equals((b)->_pages, (char **)((char *)(b)->_log.pages + 8 * g_n)) && __CPROVER_pointer_equals((b)->_pages_end, (b)->_log.pages + IPC))
#define W_TABLE(b) (g_ext && g_idx >= 1 && g_idx <= TC && g_j < (1UL << 30) && g_n == IPC - 1 + g_j * TC + g_idx \
   && __CPROVER_pointer_equals((b)->_pages, g_T->pages + g_idx) && __CPROVER_pointer_equals((b)->_pages_end, (char **)((char *)g_T + VF_PS)) && (g_j != 0 || __CPROVER_pointer_equals(E_HEAD(&(b)->_log), g_T)))
/* put area: empty before the first page, else the last data page with sync_point inside it */
#define W_PUT(b) ((g_n == 0) ? (g_pp == 0 && g_ep == 0 && (b)->_sync_point == 0) \
   : (g_pb != 0 && __CPROVER_same_object(g_pp, g_pb) && g_ep == g_pb + VF_PS && g_pb <= g_pp && g_pp <= g_ep && __CPROVER_same_object((b)->_sync_point, g_pb) && g_pb <= (b)->_sync_point && (b)->_sync_point <= g_pp))

int LogStreamBuffer_sync(LSB_t *b)
__CPROVER_requires(__CPROVER_is_fresh(b, sizeof(*b)) && b->_log.size < (1UL << 60) && (g_pp == 0 || (__CPROVER_is_fresh(g_pb, VF_PS) && __CPROVER_pointer_in_range_dfcc(g_pb, g_pp, g_pb + VF_PS) && __CPROVER_pointer_in_range_dfcc(g_pb, b->_sync_point, g_pp))))
__CPROVER_requires(g_total0 == TOTAL(b))
__CPROVER_assigns(b->_log.size, b->_sync_point)
__CPROVER_ensures(b->_log.size == g_total0 && TOTAL(b) == b->_log.size && __CPROVER_return_value == 0)
__CPROVER_ensures(g_pp != 0 ==> b->_sync_point == g_pp)
;
void LogStreamBuffer_begin(LSB_t *b)
__CPROVER_requires(__CPROVER_is_fresh(b, sizeof(*b)))
__CPROVER_assigns(b->_log.size, b->_pages, b->_pages_end, b->_sync_point, g_pb, g_pp, g_ep)
__CPROVER_ensures(b->_log.size == 0 && b->_pages == b->_log.pages && b->_pages_end == b->_log.pages + IPC && b->_sync_point == 0 && g_pp == 0 && g_ep == 0)
;
/* overflow(ch), called by std::streambuf when the put area is full (or empty before the first page) */
int LogStreamBuffer_overflow(LSB_t *b, int ch)
__CPROVER_requires(__CPROVER_is_fresh(b, sizeof(*b)) && b->_log.size < (1UL << 60) && g_n < (1UL << 40))
__CPROVER_requires(g_n == 0 || (__CPROVER_is_fresh(g_pb, VF_PS) && __CPROVER_pointer_equals(g_pp, g_pb + VF_PS) && __CPROVER_pointer_equals(g_ep, g_pb + VF_PS) && __CPROVER_pointer_in_range_dfcc(g_pb, b->_sync_point, g_pp)))
__CPROVER_requires(g_n != 0 || (g_pp == 0 && g_ep == 0 && b->_sync_point == 0))
__CPROVER_requires(W_INLINE(b) || W_TABLE(b))
__CPROVER_requires(g_total0 == TOTAL(b) && g_full == (b->_pages == b->_pages_end))
__CPROVER_assigns(b->_log.size, E_HEAD(&b->_log), b->_pages, b->_pages_end, b->_sync_point, g_pb, g_pp, g_ep, g_alloc, g_page1, g_page2,
                  __CPROVER_object_whole(b->_pages), __CPROVER_object_whole(g_T))
/* bytes: exactly one more than was streamed before */
__CPROVER_ensures(TOTAL(b) == g_total0 + 1 && __CPROVER_return_value == (unsigned char)ch)
/* the new data page is the put area, holds the character, and sync_point is its start */
__CPROVER_ensures(g_pb == g_page1 && g_pp == g_page1 + 1 && g_ep == g_page1 + VF_PS && b->_sync_point == g_page1 && *g_page1 == (char)ch)
/* cursor not at the end of its table: the page goes to the cursor slot */
__CPROVER_ensures(!g_full ==> (g_alloc == 1 && b->_pages == __CPROVER_old(b->_pages) + 1 && b->_pages_end == __CPROVER_old(b->_pages_end)))
__CPROVER_ensures(!g_full ==> *(__CPROVER_old(b->_pages)) == g_page1)
/* inline slots full: a first table is opened, takes over the last inline page, becomes head, then stores the new page */
__CPROVER_ensures((g_full && !g_ext) ==> (g_alloc == 2 && E_HEAD(&b->_log) == (PT_t *)g_page2 && ((PT_t *)g_page2)->next == 0
   && ((PT_t *)g_page2)->pages[0] == (char *)__CPROVER_old(E_HEAD(&b->_log)) && ((PT_t *)g_page2)->pages[1] == g_page1
   && b->_pages == ((PT_t *)g_page2)->pages + 2 && b->_pages_end == (char **)(g_page2 + VF_PS)))
/* current table full: a new table is linked behind it and stores the new page first */
__CPROVER_ensures((g_full && g_ext) ==> (g_alloc == 2 && g_T->next == (PT_t *)g_page2 && ((PT_t *)g_page2)->next == 0
   && ((PT_t *)g_page2)->pages[0] == g_page1 && b->_pages == ((PT_t *)g_page2)->pages + 1 && b->_pages_end == (char **)(g_page2 + VF_PS)
   && E_HEAD(&b->_log) == __CPROVER_old(E_HEAD(&b->_log))))
;

#ifdef VF_READER_BOUNDED
/* BOUNDED reader check: a LogEntry laid out exactly as the layout rule at the head of this file says, for N <= VF_MAXB bytes
 * (page tokens instead of page memory: the reader never looks into data pages), is listed by the real append_to_iovec /
 * pages_append_to_iovec / page_table_append_to_iovec; the recorded scatter list is compared entry by entry with the list the
 * rule prescribes: data pages in order, full length except the last, every page table once, with length 0, right after its pages. */
#define NTAB 4
#define TOKP(m) ((char *)(0x100000UL + (m) * VF_PS))
void h_reader_bounded(void) {
  struct LogEntry e; char *tabs[NTAB][VF_PS / 8];
  size_t N = nondet_u64(); __CPROVER_assume(N <= VF_MAXB);
  size_t np = (N + VF_PS - 1) / VF_PS; _Bool ext = np > IPC;
  struct iovec want[VF_IOV_LOG]; size_t nw = 0;
  e.size = N;
  if (ext) E_HEAD(&e) = (PT_t *)&tabs[0][0];
  for (size_t t = 0; t < NTAB; t++) tabs[t][0] = (t + 1 < NTAB) ? (char *)&tabs[t + 1][0] : (char *)0;
  for (size_t m = 0; m < np; m++) {
    size_t len = (m + 1 < np || N % VF_PS == 0) ? VF_PS : N % VF_PS;
    if (!ext || m < IPC - 1) {
      if (m < IPC - 1) e.pages[m] = TOKP(m); else E_HEAD(&e) = (PT_t *)TOKP(m);     /* slot IPC-1 is the storage of head */
    } else {
      size_t t = (m - (IPC - 1)) / TC, k = (m - (IPC - 1)) % TC;
      __CPROVER_assert(t < NTAB, "C20 bounded model: more tables than modelled");
      tabs[t][1 + k] = TOKP(m);
    }
    want[nw].iov_base = TOKP(m); want[nw].iov_len = len; nw++;
    if (ext && m >= IPC - 1 && ((m - (IPC - 1)) % TC == TC - 1 || m + 1 == np)) {
      want[nw].iov_base = &tabs[(m - (IPC - 1)) / TC][0]; want[nw].iov_len = 0; nw++;
    }
  }
  g_cnt = 0; g_bytes = 0; g_w = ~0UL;
  LogEntry_append_to_iovec(&e, VF_PS, (struct IovVec *)0);
  __CPROVER_assert(g_bytes == N, "C20.reader the scatter list describes exactly size bytes");
  __CPROVER_assert(g_cnt == nw, "C20.reader the scatter list has one entry per data page and per page table");
  for (size_t i = 0; i < nw; i++)
  {
    __CPROVER_assert(i < g_cnt, "C20.reader the scatter list is not shorter than the layout rule prescribes");
    __CPROVER_assert((uintptr_t)g_log[i].iov_base == (uintptr_t)want[i].iov_base, "C20.reader entry i of the scatter list is the page the layout rule prescribes");
    __CPROVER_assert(g_log[i].iov_len == want[i].iov_len, "C20.reader entry i of the scatter list has the length the layout rule prescribes");
  }
  __CPROVER_assert(0, "VF_VACUITY_TWIN h_reader_bounded reaches its end (must fail)");
}
#endif
#ifdef VF_WRITER_BOUNDED
/* BOUNDED writer check across the boundaries the step contract leaves out (cursor at the head slot) or only covers one step at a
 * time: begin, then VF_NPAGES pages streamed through the real overflow / overflow_page_table / sync; afterwards the entry is laid
 * out as the layout rule says (data pages in allocation order) and size is the number of bytes streamed. */
void h_writer_bounded(void) {
  LSB_t buf; buf._page_allocator = 0;
  char *data[VF_NPAGES]; char *tab[VF_NPAGES]; size_t nd = 0, nt = 0;
  size_t NP = nondet_u64(); __CPROVER_assume(NP >= 1 && NP <= VF_NPAGES);
  size_t last = nondet_u64(); __CPROVER_assume(last >= 1 && last <= VF_PS);     /* bytes in the last page */
  g_alloc = 0;
  LogStreamBuffer_begin(&buf);
  for (size_t m = 0; m < NP; m++) {
    unsigned a0 = g_alloc;
    (void)LogStreamBuffer_overflow(&buf, 'x');
    data[nd++] = g_all[a0];
    if (g_alloc == a0 + 2) tab[nt++] = g_all[a0 + 1];
    __CPROVER_assert(g_alloc == a0 + 1 || g_alloc == a0 + 2, "C20.writer one data page and at most one page table per overflow");
    g_pp += (m + 1 < NP ? VF_PS : last) - 1;                                     /* xsputn fills the rest */
  }
  struct LogEntry *e = LogStreamBuffer_end(&buf);
  __CPROVER_assert(e->size == (NP - 1) * VF_PS + last, "C20.writer size is the number of bytes streamed");
  _Bool ext = NP > IPC;
  __CPROVER_assert(nt == (ext ? (NP - (IPC - 1) + TC - 1) / TC : 0), "C20.writer number of page tables");
  for (size_t m = 0; m < NP; m++) {
    if (!ext || m < IPC - 1) {
      if (m < IPC - 1) __CPROVER_assert(e->pages[m] == data[m], "C20.writer inline data page m is in slot m");
      else __CPROVER_assert((char *)E_HEAD(e) == data[m], "C20.writer data page IPC-1 of a short entry is in the head slot");
    } else {
      size_t t = (m - (IPC - 1)) / TC, k = (m - (IPC - 1)) % TC;
      __CPROVER_assert(t < nt && ((PT_t *)tab[t])->pages[k] == data[m], "C20.writer data page m is entry (m-(IPC-1)) % TC of table (m-(IPC-1)) / TC");
    }
  }
  if (ext) __CPROVER_assert(E_HEAD(e) == (PT_t *)tab[0], "C20.writer head is the first page table");
  for (size_t t = 0; t < nt; t++)
    __CPROVER_assert(((PT_t *)tab[t])->next == (t + 1 < nt ? (PT_t *)tab[t + 1] : (PT_t *)0), "C20.writer page tables are chained in order and the last one ends the chain");
  __CPROVER_assert(0, "VF_VACUITY_TWIN h_writer_bounded reaches its end (must fail)");
}
#endif
#endif
