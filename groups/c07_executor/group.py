E = 'babylon::ThreadPoolExecutor'
TQ = 'babylon::ConcurrentBoundedQueue<babylon::ThreadPoolExecutor::Task>'
ETL = 'babylon::EnumerableThreadLocal<babylon::ConcurrentBoundedQueue<babylon::ThreadPoolExecutor::Task>,0>'
N = 'babylon::AlwaysUseNewThreadExecutor'
IT = '__gnu_cxx::__normal_iterator<std::thread*,std::vector<std::thread>>'
GROUP = dict(
    prop='C07',
    driver='driver.cpp',
    spec='spec.h',
    aliases=[(ETL, 'LocalQs'), (TQ, 'TaskQ'), (E, 'Pool'), ('babylon::MoveOnlyFunction<void()>', 'Fn'), ('babylon::', '')],
    opaque_by_value=[TQ, 'babylon::MoveOnlyFunction<void()>', ETL, 'std::vector<std::thread>', 'std::thread', 'std::chrono::duration<long,std::ratio<1,1000000>>', 'std::string'],
    extra_structs={IT: 'struct @ { struct std_thread *p; };'},
    outside_methods={'std::vector<std::thread>': ['size', 'clear', 'begin', 'end', 'empty'], 'std::thread': ['join', 'joinable', 'detach'], IT: ['operator!=', 'operator==', 'operator++', 'operator*']},
    outside_funcs={'usleep': 'vf_usleep', 'sleep_for': 'vf_sleep_for', 'operator!=': 'vf_thread_iter_ne', 'operator==': 'vf_thread_iter_eq'},
    extern_re=[r'ConcurrentBoundedQueue<.*>::', r'MoveOnlyFunction<void\s*\(\)>::', r'EnumerableThreadLocal<.*>::', r'Executor::', r'RunnerScope::'],
    roots=[{'lambda_in': E + '::keep_execute', 'ordinal': 1}, E + '::keep_execute', E + '::enqueue_task', E + '::invoke', E + '::stop', E + '::wakeup_one_worker',
           E + '::keep_balance', {'lambda_in': E + '::keep_balance', 'ordinal': 1}, {'lambda_in': E + '::keep_balance', 'ordinal': 2},
           'babylon::InplaceExecutor::invoke', N + '::invoke', N + '::join', {'lambda_in': N + '::invoke', 'ordinal': 1}],
    reviewed_compiler_conditionals=['src/babylon/concurrent/bounded_queue.h:#if !__clang__ && BABYLON_GCC_VERSION < 50000'],
    assumptions=['ConcurrentBoundedQueue push/pop/try_pop/size, EnumerableThreadLocal local()/for_each, std::thread and std::vector<std::thread> are contract stubs: a pop delivers a task that was pushed, once (C01); join returns when the thread function returned',
                 'function objects are identified by a ghost id in the opaque MoveOnlyFunction; move leaves the source empty (stub of the move constructor)',
                 'not under contract: futures/results of submit (executor.hpp), start(); RunnerScope / is_running_in are stubs here (a scope marks its executor as current on this thread); their bodies are under contract in group c07_scope'],
    jobs=[
        dict(id='C07.steal', enforce='Pool_keep_execute_lambda_executor_keep_execute_1_op_call', loops=True, backend='cadical'),
        dict(id='C07.keep_execute', enforce='Pool_keep_execute', loops=True, backend='cadical'),
        dict(id='C07.enqueue_task', enforce='Pool_enqueue_task', backend='cadical'),
        dict(id='C07.invoke', enforce='Pool_invoke', backend='cadical'),
        dict(id='C07.wakeup_one_worker', enforce='Pool_wakeup_one_worker', backend='cadical'),
        dict(id='C07.balance.task', enforce='Pool_keep_balance_lambda_executor_keep_balance_1_op_call__TaskR_const', replace=['Pool_enqueue_task'], backend='cadical', defines=['VF_BALANCE 1']),
        dict(id='C07.balance.range', enforce='Pool_keep_balance_lambda_executor_keep_balance_1_op_call__SchedInterface_RP_SchedInterface_RP_const', replace=['Pool_keep_balance_lambda_executor_keep_balance_1_op_call__TaskR_const'], loops=True, backend='cadical', defines=['VF_BALANCE 1'], object_bits=10,
             covers=['g_qb > g_qa + 2 && g_bpops > 3']),
        dict(id='C07.balance', enforce='Pool_keep_balance', replace=['Pool_keep_balance_lambda_executor_keep_balance_1_op_call__SchedInterface_RP_SchedInterface_RP_const'], loops=True, backend='cadical', defines=['VF_BALANCE 1'], object_bits=10),
        dict(id='C07.inplace.invoke', enforce='InplaceExecutor_invoke', backend='cadical'),
        dict(id='C07.newthread.invoke', enforce='AlwaysUseNewThreadExecutor_invoke', backend='cadical'),
        dict(id='C07.newthread.body', enforce='AlwaysUseNewThreadExecutor_invoke_lambda_executor_invoke_1_op_call', backend='cadical'),
        dict(id='C07.newthread.join', enforce='AlwaysUseNewThreadExecutor_join', loops=True, backend='cadical'),
        dict(id='C07.stop', enforce='Pool_stop', loops=True, backend='cadical'),
    ],
)
