// driver TU for C07 (thread pool core): ThreadPoolExecutor::keep_execute / enqueue_task / invoke / stop, defined in executor.cpp
#include "babylon/executor.cpp"
