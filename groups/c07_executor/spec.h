/* C07 (thread pool core) -- ThreadPoolExecutor::keep_execute / enqueue_task / invoke / stop / wakeup_one_worker.
 * The task queues are contract stubs (the queue itself: C01: every pushed task is popped exactly once).  A task's function object is
 * identified by a ghost id stored in the first 8 bytes of the opaque MoveOnlyFunction; g_fid is an arbitrary watched id.
 *   worker loop : every FUNCTION task a worker obtains (own queue, stolen, or global) is invoked exactly once and destroyed, before
 *                 the next task is taken; WAKEUP tasks do nothing; the loop is left only by a STOP task; nothing else is invoked;
 *   enqueue_task: exactly one push of exactly the given task -- into the caller's local queue only when called from a worker of this
 *                 pool and that queue is below its capacity, otherwise into the global queue -- and success is reported;
 *   invoke      : enqueues one FUNCTION task that owns the given function object (moved, not copied);
 *   stop        : does nothing when not running; otherwise clears the running flag, joins the balancing thread BEFORE it pushes
 *                 exactly one STOP task per worker thread into the global queue (behind everything submitted before), joins every
 *                 worker exactly once and forgets the threads. */
#ifndef C07_SPEC_H
#define C07_SPEC_H
#include <stdint.h>
unsigned long nondet_u64(void); int nondet_int(void); _Bool nondet_bool(void);
typedef struct Pool Pool_t;
typedef struct Pool_Task Task_t;
typedef struct ConcurrentBoundedQueue_L_Pool_Task_SchedInterface_R Q_t;
#define FID(f) (*(unsigned long *)(f))
#define T_FUNCTION 0
#define T_WAKEUP 1
#define T_STOP 2
#define LSTEAL Pool_keep_execute_lambda_executor_keep_execute_1_op_call
unsigned long g_fid;                         /* watched function id (non-zero) */
unsigned g_popped_fn, g_invoked, g_popped_focus, g_invoked_focus, g_stop_popped, g_task_ctor, g_task_dtor;
unsigned g_push_local, g_push_global; Task_t *g_pushed_task; Q_t *g_pushed_q; int g_pushed_type; unsigned long g_pushed_fid;
_Bool g_running_in; size_t g_local_size; Q_t g_localq;
struct BasicExecutor *g_scope_exec, *g_focus_scope;   /* executor whose RunnerScope is open on this thread; the one open when the watched function ran */
unsigned g_scope_open, g_scope_close;
unsigned g_joins, g_balance_joins; size_t g_nthreads, g_it; _Bool g_cleared, g_balance_joinable, g_pushed_before_balance_join;
unsigned g_adds, g_subs, g_threads_made, g_detached, g_loads; unsigned long g_thread_fid, g_last_load; _Bool g_counted_before_thread, g_sub_after_run;
static void vf_havoc_balance(void);
static void vf_havoc_ghosts(void) {
  g_fid = nondet_u64(); g_popped_fn = g_invoked = g_popped_focus = g_invoked_focus = g_stop_popped = g_task_ctor = g_task_dtor = 0;
  g_push_local = g_push_global = 0; g_scope_exec = 0; g_focus_scope = 0; g_scope_open = g_scope_close = 0; g_running_in = nondet_bool(); g_local_size = nondet_u64();
  g_adds = g_subs = g_threads_made = g_detached = g_loads = 0; g_thread_fid = 0; g_last_load = nondet_u64(); g_counted_before_thread = 0; g_sub_after_run = 0;
  vf_havoc_balance();
  g_joins = g_balance_joins = 0; g_nthreads = nondet_u64(); g_it = 0; g_cleared = 0; g_balance_joinable = nondet_bool(); g_pushed_before_balance_join = 0;
}
/* ---- tasks and function objects */
void Pool_Task_ctor__void(Task_t *t) { t->type = T_FUNCTION; FID(&t->function) = 0; __CPROVER_assume(g_task_ctor < (1u << 30)); g_task_ctor++; }
void Pool_Task_dtor(Task_t *t) { g_task_dtor++; }
void Fn_ctor__void(struct Fn *f) { FID(f) = 0; }
void Fn_ctor__MoveOnlyFunction_L_void_RR(struct Fn *f, struct Fn *o) { FID(f) = FID(o); FID(o) = 0; }      /* move: the source is left empty */
void Fn_op_call(struct Fn *f) {
  __CPROVER_assert(FID(f) != 0, "K5 C07.worker only a task that holds a function is invoked");
  __CPROVER_assume(g_invoked < 1000000); g_invoked++; if (FID(f) == g_fid) { g_invoked_focus++; g_focus_scope = g_scope_exec; }
}
/* ---- queues: whatever a pop delivers was pushed by somebody and is delivered once (C01) */
static _Bool deliver(Task_t *t) {
  int ty = nondet_int(); __CPROVER_assume(ty == T_FUNCTION || ty == T_WAKEUP || ty == T_STOP);
  t->type = ty; FID(&t->function) = nondet_u64();
  if (ty == T_FUNCTION) { __CPROVER_assume(FID(&t->function) != 0 && g_popped_fn < 1000000); g_popped_fn++; if (FID(&t->function) == g_fid) g_popped_focus++; }
  else FID(&t->function) = 0;
  if (ty == T_STOP) g_stop_popped++;
  return 1;
}
Q_t *LocalQs_local(struct LocalQs *l) { return &g_localq; }
_Bool ConcurrentBoundedQueue_L_Pool_Task_SchedInterface_R_try_pop__1_0(Q_t *q, Task_t *t) { if (nondet_bool()) return 0; return deliver(t); }
void ConcurrentBoundedQueue_L_Pool_Task_SchedInterface_R_pop__1_1_0(Q_t *q, Task_t *t) { deliver(t); }
void LocalQs_for_each__lambda_executor_keep_execute_1_void(struct LocalQs *l, struct lambda_executor_keep_execute_1 *cb) {
  Q_t other[2];      /* the local queues of the workers, in one or two ranges */
  LSTEAL(cb, &other[0], &other[1]);
  LSTEAL(cb, &other[1], &other[2]);
}
size_t ConcurrentBoundedQueue_L_Pool_Task_SchedInterface_R_size(Q_t *q) { return g_local_size; }
static void pushed(Q_t *q, Task_t *t) { g_pushed_q = q; g_pushed_task = t; g_pushed_type = t->type; g_pushed_fid = FID(&t->function); FID(&t->function) = 0; if (!g_balance_joins && g_balance_joinable) g_pushed_before_balance_join = 1; }
void ConcurrentBoundedQueue_L_Pool_Task_SchedInterface_R_push__0_0_0_Pool_Task_0(Q_t *q, Task_t *t) { __CPROVER_assume(g_push_local < 1000000); g_push_local++; pushed(q, t); }
void ConcurrentBoundedQueue_L_Pool_Task_SchedInterface_R_push__1_0_1_Pool_Task_0(Q_t *q, Task_t *t) { __CPROVER_assume(g_push_global < (1u << 30)); g_push_global++; pushed(q, t); }
_Bool BasicExecutor_is_running_in(struct BasicExecutor *e) { return g_running_in; }
void BasicExecutor_RunnerScope_ctor__BasicExecutorR(struct BasicExecutor_RunnerScope *s, struct BasicExecutor *e) { s->_old_current = 0; g_scope_exec = e; __CPROVER_assume(g_scope_open < 1000); g_scope_open++; }
void BasicExecutor_RunnerScope_dtor(struct BasicExecutor_RunnerScope *s) { g_scope_exec = 0; g_scope_close++; }
/* ---- threads */
_Bool std_thread_joinable(struct std_thread *t) { return g_balance_joinable; }
struct std_thread g_threads_store[1];
void std_thread_join(struct std_thread *t) { if (t == &g_threads_store[0]) { __CPROVER_assume(g_joins < (1u << 30)); g_joins++; } else g_balance_joins++; }
unsigned long std_vector_L_std_thread_R_size(struct std_vector_L_std_thread_R *v) { return g_nthreads; }
void std_vector_L_std_thread_R_clear(struct std_vector_L_std_thread_R *v) { g_cleared = 1; }
typedef struct gnu_cxx_normal_iterator_L_std_threadP_std_vector_L_std_thread_R_R TIt_t;
size_t g_it_end;
TIt_t std_vector_L_std_thread_R_begin(struct std_vector_L_std_thread_R *v) { TIt_t r; r.p = &g_threads_store[0]; g_it = 0; return r; }
TIt_t std_vector_L_std_thread_R_end(struct std_vector_L_std_thread_R *v) { TIt_t r; r.p = &g_threads_store[0]; g_it_end = g_nthreads; return r; }
_Bool gnu_cxx_normal_iterator_L_std_threadP_std_vector_L_std_thread_R_R_op_eq(TIt_t *a, TIt_t *b) { return g_it == g_it_end; }     /* position modelled by the ghost index */
TIt_t *gnu_cxx_normal_iterator_L_std_threadP_std_vector_L_std_thread_R_R_op_inc(TIt_t *a) { g_it++; return a; }
struct std_thread *gnu_cxx_normal_iterator_L_std_threadP_std_vector_L_std_thread_R_R_op_star(TIt_t *a) { __CPROVER_assert(g_it < g_nthreads, "K5 C07.stop joins only existing worker threads"); return &g_threads_store[0]; }
void gnu_cxx_normal_iterator_L_std_threadP_std_vector_L_std_thread_R_R_dtor(TIt_t *a) { }
_Bool vf_atomic_load_bool(_Bool *p, int order, int site) { __CPROVER_assert(order == 2 || order == 5, "K6 C07.stop reads the running flag with acquire"); return *p; }
void vf_atomic_store_bool(_Bool *p, _Bool v, int order, int site) { __CPROVER_assert(order == 3 || order == 5, "K6 C07.stop clears the running flag with release"); *p = v; }

#define P_SHAPE(p) (__CPROVER_is_fresh(p, sizeof(*p)))
/* the stealing lambda: stops at the first queue that yields a task; a stolen task is delivered like any other */
void LSTEAL(struct lambda_executor_keep_execute_1 *self, Q_t *iter, Q_t *end)
__CPROVER_requires(__CPROVER_is_fresh(self, sizeof(*self)) && __CPROVER_is_fresh(self->cap_steal_success, sizeof(_Bool)) && __CPROVER_is_fresh(self->cap_task, sizeof(Task_t)) && __CPROVER_is_fresh(iter, 2 * sizeof(Q_t)) && (end == iter + 1 || end == iter + 2 || end == iter))
__CPROVER_assigns(*self->cap_steal_success, *self->cap_task, g_popped_fn, g_popped_focus, g_stop_popped)
__CPROVER_ensures(__CPROVER_old(*self->cap_steal_success) ==> (*self->cap_steal_success && g_popped_fn == __CPROVER_old(g_popped_fn) && g_stop_popped == __CPROVER_old(g_stop_popped)))
__CPROVER_ensures((g_popped_fn + g_stop_popped) - (__CPROVER_old(g_popped_fn) + __CPROVER_old(g_stop_popped)) <= 1)
__CPROVER_ensures(!*self->cap_steal_success ==> (g_popped_fn == __CPROVER_old(g_popped_fn) && g_stop_popped == __CPROVER_old(g_stop_popped)))
;
//@loop Pool_keep_execute_lambda_executor_keep_execute_1_op_call 1
//@  __CPROVER_assigns(@p1:iter@, *self->cap_steal_success, *self->cap_task, g_popped_fn, g_popped_focus, g_stop_popped)
//@  __CPROVER_loop_invariant(!*self->cap_steal_success && g_popped_fn == __CPROVER_loop_entry(g_popped_fn) && g_popped_focus == __CPROVER_loop_entry(g_popped_focus) && g_stop_popped == __CPROVER_loop_entry(g_stop_popped))
//@end
/* worker loop */
void Pool_keep_execute(Pool_t *p)
__CPROVER_requires(P_SHAPE(p) && g_fid != 0)
__CPROVER_assigns(g_popped_fn, g_invoked, g_popped_focus, g_invoked_focus, g_stop_popped, g_task_ctor, g_task_dtor, g_scope_exec, g_focus_scope, g_scope_open, g_scope_close)
__CPROVER_ensures(g_invoked_focus >= 1 ==> g_focus_scope == &p->__base_Executor.__base_BasicExecutor)   /* tasks run on a thread that reports itself as running in this executor */
__CPROVER_ensures(g_scope_open == 1 && g_scope_close == 1)
__CPROVER_ensures(g_stop_popped >= 1)                                               /* left only by a STOP task */
__CPROVER_ensures(g_invoked == g_popped_fn && g_invoked_focus == g_popped_focus)    /* every obtained function ran exactly once, nothing else ran */
__CPROVER_ensures(g_task_dtor == g_task_ctor)                                       /* no task object is left behind */
;
//@loop Pool_keep_execute 1
//@  __CPROVER_assigns(g_popped_fn, g_invoked, g_popped_focus, g_invoked_focus, g_stop_popped, g_task_ctor, g_task_dtor, g_focus_scope)
//@  __CPROVER_loop_invariant(g_scope_exec == &self->__base_Executor.__base_BasicExecutor && g_scope_open == 1 && g_scope_close == 0 && (g_invoked_focus >= 1 ==> g_focus_scope == g_scope_exec))
//@  __CPROVER_loop_invariant(g_invoked == g_popped_fn && g_invoked_focus == g_popped_focus && g_stop_popped == 0 && g_task_dtor == g_task_ctor)
//@end

int Pool_enqueue_task(Pool_t *p, Task_t *t)
__CPROVER_requires(P_SHAPE(p) && __CPROVER_is_fresh(t, sizeof(*t)))
__CPROVER_assigns(g_push_local, g_push_global, g_pushed_task, g_pushed_q, g_pushed_type, g_pushed_fid, g_pushed_before_balance_join, t->function)
__CPROVER_ensures(__CPROVER_return_value == 0 && g_push_local + g_push_global == 1 && g_pushed_task == t)
__CPROVER_ensures(g_pushed_type == __CPROVER_old(t->type))
__CPROVER_ensures(g_push_local == 1 ==> (g_running_in && p->_local_capacity > 0 && g_local_size < p->_local_capacity && g_pushed_q == &g_localq))
__CPROVER_ensures(g_push_global == 1 ==> g_pushed_q == &p->_global_task_queue)
;
int Pool_invoke(Pool_t *p, struct Fn *f)
__CPROVER_requires(P_SHAPE(p) && __CPROVER_is_fresh(f, sizeof(*f)) && FID(f) == g_fid && g_fid != 0)
__CPROVER_assigns(g_push_local, g_push_global, g_pushed_task, g_pushed_q, g_pushed_type, g_pushed_fid, g_pushed_before_balance_join, g_task_dtor, *f)
__CPROVER_ensures(__CPROVER_return_value == 0 && g_push_local + g_push_global == 1 && g_pushed_type == T_FUNCTION && g_pushed_fid == g_fid)
__CPROVER_ensures(FID(f) == 0 && g_task_dtor == 1)        /* the function object was moved into the task; the temporary task is destroyed */
;
void Pool_wakeup_one_worker(Pool_t *p)
__CPROVER_requires(P_SHAPE(p))
__CPROVER_assigns(g_push_global, g_pushed_task, g_pushed_q, g_pushed_type, g_pushed_fid, g_pushed_before_balance_join, g_task_dtor)
__CPROVER_ensures(g_push_global == 1 && g_pushed_type == T_WAKEUP && g_pushed_q == &p->_global_task_queue && g_task_dtor == 1)
;
void Pool_stop(Pool_t *p)
__CPROVER_requires(P_SHAPE(p) && g_nthreads < (1UL << 20))
__CPROVER_assigns(p->_running, g_push_global, g_pushed_task, g_pushed_q, g_pushed_type, g_pushed_fid, g_pushed_before_balance_join, g_task_dtor, g_joins, g_balance_joins, g_it, g_it_end, g_cleared)
__CPROVER_ensures(!__CPROVER_old(p->_running) ==> (g_push_global == 0 && g_joins == 0 && g_balance_joins == 0 && !g_cleared))
__CPROVER_ensures(__CPROVER_old(p->_running) ==> (!p->_running && g_push_global == g_nthreads && g_joins == g_nthreads && g_cleared && g_task_dtor == g_nthreads))
__CPROVER_ensures(__CPROVER_old(p->_running) ==> (g_balance_joins == (g_balance_joinable ? 1u : 0u) && !g_pushed_before_balance_join))
__CPROVER_ensures((__CPROVER_old(p->_running) && g_nthreads > 0) ==> (g_pushed_type == T_STOP && g_pushed_q == &p->_global_task_queue))
;
//@loop Pool_stop 1
//@  __CPROVER_assigns(@l1:i@, g_push_global, g_pushed_task, g_pushed_q, g_pushed_type, g_pushed_fid, g_pushed_before_balance_join, g_task_dtor)
//@  __CPROVER_loop_invariant(@l1:i@ <= g_nthreads && g_push_global == @l1:i@ && g_task_dtor == @l1:i@ && !g_pushed_before_balance_join && (@l1:i@ > 0 ==> (g_pushed_type == T_STOP && g_pushed_q == &self->_global_task_queue)))
//@  __CPROVER_decreases(g_nthreads - @l1:i@)
//@end
//@loop Pool_stop 2
//@  __CPROVER_assigns(g_it, g_joins)
//@  __CPROVER_loop_invariant(g_it <= g_nthreads && g_joins == g_it && g_it_end == g_nthreads)
//@  __CPROVER_decreases(g_nthreads - g_it)
//@end

/* ================= inplace and always-new-thread executors =================
 * inplace invoke   : the function runs exactly once, before invoke returns, inside a RunnerScope of this executor; success is reported;
 * new-thread invoke: the task is COUNTED (fetch_add on _running, release or stronger) BEFORE its thread exists -- join() and the
 *                    destructor wait for _running == 0, so a task counted only by its own thread could be missed by them --; exactly
 *                    one thread is created, it owns the function object (moved), and it is detached; success is reported;
 * thread body      : runs the function exactly once inside a RunnerScope of this executor and only then gives its count back
 *                    (fetch_sub with release or stronger: join's acquire load then sees the task's effects);
 * join             : returns only after an acquire load of _running that read 0. */
typedef struct AlwaysUseNewThreadExecutor NTE_t;
typedef struct lambda_executor_invoke_1 NTL_t;
#define LBODY AlwaysUseNewThreadExecutor_invoke_lambda_executor_invoke_1_op_call
unsigned long vf_atomic_fetch_add_u64(unsigned long *p, unsigned long v, int order, int site) {
  __CPROVER_assert(v == 1 && (order == 3 || order == 4 || order == 5), "K6 C07.newthread a task is counted with one release-or-stronger increment");
  g_adds++; unsigned long o = *p; *p = o + v; return o;
}
unsigned long vf_atomic_fetch_sub_u64(unsigned long *p, unsigned long v, int order, int site) {
  __CPROVER_assert(v == 1 && (order == 3 || order == 4 || order == 5), "K6 C07.newthread the count is given back with one release-or-stronger decrement");
  g_sub_after_run = (g_invoked_focus == 1); g_subs++; unsigned long o = *p; *p = o - v; return o;
}
unsigned long vf_atomic_load_u64(unsigned long *p, int order, int site) {
  __CPROVER_assert(order == 2 || order == 5, "K6 C07.newthread join reads the count with acquire");
  g_last_load = nondet_u64(); __CPROVER_assume(g_loads < 1000000); g_loads++; return g_last_load;     /* other threads count up and down */
}
int vf_usleep(unsigned us) { return 0; }
void std_thread_ctor_1(struct std_thread *t, NTL_t *body) {
  g_counted_before_thread = (g_adds == 1); g_threads_made++; g_thread_fid = FID(&body->cap1); FID(&body->cap1) = 0;     /* the thread takes the closure */
}
void std_thread_detach(struct std_thread *t) { g_detached++; }
void std_thread_dtor(struct std_thread *t) { }

int InplaceExecutor_invoke(struct InplaceExecutor *e, struct Fn *f)
__CPROVER_requires(__CPROVER_is_fresh(e, sizeof(*e)) && __CPROVER_is_fresh(f, sizeof(*f)) && FID(f) == g_fid && g_fid != 0)
__CPROVER_assigns(g_invoked, g_invoked_focus, g_scope_exec, g_focus_scope, g_scope_open, g_scope_close)
__CPROVER_ensures(__CPROVER_return_value == 0 && g_invoked == 1 && g_invoked_focus == 1 && g_focus_scope == &e->__base_Executor.__base_BasicExecutor)
__CPROVER_ensures(g_scope_open == 1 && g_scope_close == 1)
;
int AlwaysUseNewThreadExecutor_invoke(NTE_t *e, struct Fn *f)
__CPROVER_requires(__CPROVER_is_fresh(e, sizeof(*e)) && __CPROVER_is_fresh(f, sizeof(*f)) && FID(f) == g_fid && g_fid != 0 && e->_running < (1UL << 62))
__CPROVER_requires(g_adds == 0 && g_threads_made == 0 && g_detached == 0 && g_subs == 0)
__CPROVER_assigns(e->_running, *f, g_adds, g_threads_made, g_detached, g_thread_fid, g_counted_before_thread)
__CPROVER_ensures(__CPROVER_return_value == 0 && g_adds == 1 && e->_running == __CPROVER_old(e->_running) + 1)
__CPROVER_ensures(g_threads_made == 1 && g_counted_before_thread && g_detached == 1)
__CPROVER_ensures(g_thread_fid == g_fid && FID(f) == 0 && g_invoked == 0)     /* the thread owns the function; the caller's thread did not run it */
;
void LBODY(NTL_t *c)
__CPROVER_requires(__CPROVER_is_fresh(c, sizeof(*c)) && __CPROVER_is_fresh(c->cap_this, sizeof(NTE_t)) && FID(&c->cap1) == g_fid && g_fid != 0 && c->cap_this->_running >= 1)
__CPROVER_requires(g_subs == 0 && g_adds == 0)
__CPROVER_assigns(c->cap_this->_running, g_invoked, g_invoked_focus, g_scope_exec, g_focus_scope, g_scope_open, g_scope_close, g_subs, g_sub_after_run)
__CPROVER_ensures(g_invoked == 1 && g_invoked_focus == 1 && g_focus_scope == &c->cap_this->__base_Executor.__base_BasicExecutor)
__CPROVER_ensures(g_subs == 1 && g_sub_after_run && g_adds == 0 && c->cap_this->_running == __CPROVER_old(c->cap_this->_running) - 1)
;
void AlwaysUseNewThreadExecutor_join(NTE_t *e)
__CPROVER_requires(__CPROVER_is_fresh(e, sizeof(*e)))
__CPROVER_assigns(g_loads, g_last_load)
__CPROVER_ensures(g_loads >= 1 && g_last_load == 0)
;
//@loop AlwaysUseNewThreadExecutor_join 1
//@  __CPROVER_assigns(g_loads, g_last_load)
//@  __CPROVER_loop_invariant(1)
//@end

/* ================= balance thread (keep_balance) =================
 * inner lambda : a task popped from a worker's local queue is handed to enqueue_task, once (moved, not copied);
 * range lambda : only queues of the range it is given are polled, and every task popped is enqueued exactly once -- none lost, none
 *                duplicated (how many tasks it moves per queue and sweep is its own business: workers drain their queues anyway);
 * keep_balance : sleeps, sweeps all local queues, and returns only after it read the running flag as false (acquire). */
#include <stdlib.h>
typedef struct lambda_executor_keep_balance_1 BalR_t;
typedef struct lambda_executor_keep_balance_2 BalT_t;
#define LBAL_RANGE Pool_keep_balance_lambda_executor_keep_balance_1_op_call__SchedInterface_RP_SchedInterface_RP_const
#define LBAL_TASK Pool_keep_balance_lambda_executor_keep_balance_1_op_call__TaskR_const
Q_t *g_lqs; size_t g_nq, g_qa, g_qb, g_qcur; unsigned long g_bpops, g_bmoves; _Bool g_bal_ok; unsigned g_sweeps, g_sleeps_bal; _Bool g_saw_stop;
#define LQ_AT(p, k) (__CPROVER_same_object(p, g_lqs) && __CPROVER_POINTER_OFFSET(p) % sizeof(Q_t) == 0 && __CPROVER_POINTER_OFFSET(p) / sizeof(Q_t) == (k))
Task_t g_bal_task;
#ifdef VF_BALANCE
static void vf_havoc_balance(void) {
  g_nq = nondet_u64(); __CPROVER_assume(g_nq < (1UL << 12)); g_lqs = malloc((g_nq + 1) * sizeof(Q_t)); __CPROVER_assume(g_lqs != 0);
  g_qa = nondet_u64(); g_qb = nondet_u64(); g_qcur = nondet_u64(); g_bpops = g_bmoves = 0; g_bal_ok = 1; g_sweeps = g_sleeps_bal = 0; g_saw_stop = 0;
}
void LBAL_TASK(BalT_t *c, Task_t *t)
#ifdef VF_ENFORCE_Pool_keep_balance_lambda_executor_keep_balance_1_op_call__TaskR_const
__CPROVER_requires(__CPROVER_is_fresh(c, sizeof(*c)) && __CPROVER_is_fresh(c->cap_this, sizeof(Pool_t)) && __CPROVER_is_fresh(t, sizeof(*t)) && g_push_local == 0 && g_push_global == 0)
__CPROVER_assigns(g_push_local, g_push_global, g_pushed_task, g_pushed_q, g_pushed_type, g_pushed_fid, g_pushed_before_balance_join, t->function)
__CPROVER_ensures(g_push_local + g_push_global == 1 && g_pushed_task == t && g_pushed_type == __CPROVER_old(t->type))
#else
__CPROVER_requires(t == &g_bal_task)
__CPROVER_assigns(g_bmoves, g_bal_task)
__CPROVER_ensures(g_bmoves == __CPROVER_old(g_bmoves) + 1)
#endif
;
/* try_pop(callback): fails (queue empty) or pops one task and runs the callback on it exactly once */
_Bool ConcurrentBoundedQueue_L_Pool_Task_SchedInterface_R_try_pop__1_0_lambda_executor_keep_balance_2_void(Q_t *q, BalT_t *cb) {
  if (!(__CPROVER_same_object(q, g_lqs) && __CPROVER_POINTER_OFFSET(q) % sizeof(Q_t) == 0 && __CPROVER_POINTER_OFFSET(q) / sizeof(Q_t) >= g_qa && __CPROVER_POINTER_OFFSET(q) / sizeof(Q_t) < g_qb)) g_bal_ok = 0;   /* a queue of the range */
  if (nondet_bool()) return 0;                                                        /* empty */
  g_bal_task.type = T_FUNCTION; FID(&g_bal_task.function) = nondet_u64();
  __CPROVER_assume(g_bpops < (1UL << 40)); g_bpops++;
  LBAL_TASK(cb, &g_bal_task);
  return 1;
}
void LBAL_RANGE(BalR_t *c, Q_t *iter, Q_t *end)
__CPROVER_requires(__CPROVER_is_fresh(c, sizeof(*c)) && __CPROVER_is_fresh(c->cap_this, sizeof(Pool_t)) && g_qa <= g_qb && g_qb <= g_nq && g_bal_ok)
__CPROVER_requires(__CPROVER_pointer_equals(iter, g_lqs + g_qa) && __CPROVER_pointer_equals(end, g_lqs + g_qb) && g_bpops == g_bmoves)
__CPROVER_assigns(g_bpops, g_bmoves, g_bal_ok, g_bal_task)
__CPROVER_ensures(g_bal_ok && g_bpops == g_bmoves)
;
void LocalQs_for_each__lambda_executor_keep_balance_1_void(struct LocalQs *l, BalR_t *cb) {
  size_t mid = nondet_u64(); __CPROVER_assume(mid <= g_nq);
  g_qa = 0; g_qb = mid; LBAL_RANGE(cb, g_lqs, g_lqs + mid);
  g_qa = mid; g_qb = g_nq; LBAL_RANGE(cb, g_lqs + mid, g_lqs + g_nq);
  __CPROVER_assume(g_sweeps < 1000); g_sweeps++;
}
void vf_sleep_for(struct chrono_duration_L_long_ratio_L_1_1000000_R_R *d) { if (g_sleeps_bal < 1000000) g_sleeps_bal++; }
void Pool_keep_balance(Pool_t *p)
__CPROVER_requires(P_SHAPE(p) && g_bal_ok && g_bpops == 0 && g_bmoves == 0 && g_sweeps == 0)
__CPROVER_assigns(p->_running, g_qa, g_qb, g_bpops, g_bmoves, g_bal_ok, g_bal_task, g_sweeps, g_sleeps_bal)
__CPROVER_ensures(!p->_running && g_bal_ok && g_bpops == g_bmoves)
;
#else
static void vf_havoc_balance(void) { }
#endif
//@loop Pool_keep_balance_lambda_executor_keep_balance_1_op_call__SchedInterface_RP_SchedInterface_RP_const 1
//@  VF_REBASE(@p1:iter@, g_lqs)
//@  __CPROVER_assigns(@p1:iter@, g_bpops, g_bmoves, g_bal_ok, g_bal_task)
//@  __CPROVER_loop_invariant(__CPROVER_same_object(@p1:iter@, g_lqs) && __CPROVER_POINTER_OFFSET(@p1:iter@) % sizeof(Q_t) == 0 && __CPROVER_POINTER_OFFSET(@p1:iter@) / sizeof(Q_t) >= g_qa && __CPROVER_POINTER_OFFSET(@p1:iter@) / sizeof(Q_t) <= g_qb && LQ_AT(@p2:end@, g_qb) && g_bal_ok && g_bpops == g_bmoves)
//@  __CPROVER_decreases(g_qb - __CPROVER_POINTER_OFFSET(@p1:iter@) / sizeof(Q_t))
//@end
//@loop Pool_keep_balance_lambda_executor_keep_balance_1_op_call__SchedInterface_RP_SchedInterface_RP_const 2
//@  __CPROVER_assigns(@l2:success@, g_bpops, g_bmoves, g_bal_ok, g_bal_task)
//@  __CPROVER_loop_invariant(g_bal_ok && g_bpops == g_bmoves)
//@end
//@loop Pool_keep_balance 1
//@  __CPROVER_assigns(self->_running, g_qa, g_qb, g_bpops, g_bmoves, g_bal_ok, g_bal_task, g_sweeps, g_sleeps_bal)
//@  __CPROVER_loop_invariant(g_bal_ok && g_bpops == g_bmoves)
//@end
#endif
