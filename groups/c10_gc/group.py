GC = 'babylon::GarbageCollector<babylon_vf::R>'
VEC = 'std::vector<babylon::GarbageCollector<babylon_vf::R>::ReclaimTask>'
GROUP = dict(
    prop='C10',
    driver='driver.cpp',
    spec='spec.h',
    aliases=[(VEC, 'TaskVec'), ('babylon::ConcurrentBoundedQueue<babylon::GarbageCollector<babylon_vf::R>::ReclaimTask, babylon::SchedInterface>', 'TaskQ'), (GC, 'GC'), ('babylon_vf::', '')],
    outside_methods={VEC: ['size', 'clear', 'reserve', 'emplace_back', 'operator[]']},
    outside_funcs={'usleep': 'vf_usleep'},
    type_aliases={'std::vector<ReclaimTask>': VEC,
                  '__gnu_cxx::__alloc_traits<std::allocator<babylon::GarbageCollector<babylon_vf::R>::ReclaimTask>, babylon::GarbageCollector<babylon_vf::R>::ReclaimTask>::value_type': GC + '::ReclaimTask'},
    opaque_by_value=['babylon::Epoch', 'babylon::ConcurrentBoundedQueue<babylon::GarbageCollector<babylon_vf::R>::ReclaimTask>', 'std::thread', VEC, 'babylon_vf::R'],
    extern_re=[r'ConcurrentBoundedQueue<.*>::try_pop_n', r'ConcurrentBoundedQueue<.*>::capacity', r'Epoch::low_water_mark'],
    roots=[GC + '::keep_reclaim', GC + '::reclaim_start_from', GC + '::consume_reclaim_task', {'lambda_in': GC + '::consume_reclaim_task', 'ordinal': 1}],
    reviewed_compiler_conditionals=['src/babylon/concurrent/bounded_queue.h:#if !__clang__ && BABYLON_GCC_VERSION < 50000'],
    assumptions=['std::vector<ReclaimTask> abstracted to its length and ghost counters (contract stubs)',
                 'consume_reclaim_task appends exactly what it popped before the stop marker (assumed contract; queue side is C01)',
                 'Epoch::low_water_mark is C09 (stub here)', 'thread creation/join (std::thread) trusted; stop() blocking while regions stay open is liveness, not claimed'],
    jobs=[
        dict(id='C10.consume.lambda', enforce='GC_consume_reclaim_task_lambda_garbage_collector_consume_reclaim_task_1_op_call', loops=True, backend='cadical', defines=['VF_CONSUME 1'], object_bits=10,
             covers=['g_moved == g_qn && g_qn > 3', 'g_moved < g_qn && g_moved > 2']),
        dict(id='C10.consume', enforce='GC_consume_reclaim_task', replace=['GC_consume_reclaim_task_lambda_garbage_collector_consume_reclaim_task_1_op_call'], backend='cadical', defines=['VF_CONSUME 1'], object_bits=10,
             covers=['g_stop_seen && g_moved > 1', '!g_stop_seen && g_moved > 1']),
        dict(id='C10.keep_reclaim', enforce='GC_keep_reclaim', loops=True, object_bits=10,
             replace=['GC_consume_reclaim_task', 'GC_reclaim_start_from', 'TaskVec_ctor_0', 'TaskVec_reserve', 'TaskVec_size', 'TaskVec_clear', 'TaskVec_dtor', 'TaskQ_capacity', 'vf_usleep']),
        dict(id='C10.reclaim_start_from', enforce='GC_reclaim_start_from', loops=True, object_bits=10,
             replace=['Epoch_low_water_mark', 'TaskVec_size', 'TaskVec_op_index', 'GC_ReclaimTask_ctor__ReclaimTaskR', 'GC_ReclaimTask_dtor', 'R_op_call']),
    ],
)
