/* C10 -- GarbageCollector<R>: reclaimers run exactly once, never early, and none is dropped when the collector stops.
 * std::vector<ReclaimTask> is abstracted to its length plus ghost counters (contract stubs, listed as assumptions);
 * R (the reclaimer) is a declared-only type: any implementation. */
#ifndef C10_SPEC_H
#define C10_SPEC_H
unsigned long nondet_u64(void);
_Bool nondet_bool(void);

typedef struct TaskQ_Slot QSlot_t;
QSlot_t *g_qslots; unsigned long g_qcap, g_qn, g_moved; _Bool g_move_ok;
unsigned g_pushes, g_st_pushes; unsigned long g_push_epoch, g_tick; _Bool g_push_multi, g_push_moved; unsigned g_joins_gc, g_ticks; _Bool g_joinable, g_join_after_push;
unsigned long g_size;        /* tasks.size() */
unsigned long g_uninvoked;   /* tasks in the vector whose reclaimer has not run yet */
unsigned long g_lost;        /* tasks destroyed (clear / vector destructor) while their reclaimer had not run */
struct GC_ReclaimTask g_task;   /* the element operator[] hands out */
_Bool g_stop_seen;           /* the stop marker was consumed from the queue */
unsigned long g_lwm;         /* low water mark observed by the current reclaim_start_from call */
unsigned long g_cur_epoch;   /* lowest_epoch of the task most recently handed out by operator[] */
unsigned long g_cur_index;
unsigned long g_invocations;
static void vf_havoc_consume(void);
static void vf_havoc_ghosts(void) { g_size = nondet_u64(); g_uninvoked = nondet_u64(); g_lost = 0; g_stop_seen = 0; g_invocations = 0; vf_havoc_consume();
  g_pushes = g_st_pushes = 0; g_push_epoch = nondet_u64(); g_tick = nondet_u64(); g_push_multi = 0; g_push_moved = 0; g_joins_gc = g_ticks = 0; g_joinable = nondet_bool(); g_join_after_push = 0; }

/* ---- std::vector<ReclaimTask> abstraction ---- */
void TaskVec_ctor_0(struct TaskVec *v) __CPROVER_assigns(g_size, g_uninvoked) __CPROVER_ensures(g_size == 0 && g_uninvoked == 0);
void TaskVec_reserve(struct TaskVec *v, unsigned long n) __CPROVER_assigns() __CPROVER_ensures(1);
unsigned long TaskVec_size(struct TaskVec *v) __CPROVER_assigns() __CPROVER_ensures(__CPROVER_return_value == g_size);
void TaskVec_clear(struct TaskVec *v) __CPROVER_assigns(g_size, g_uninvoked, g_lost)
  __CPROVER_ensures(g_size == 0 && g_uninvoked == 0 && g_lost == __CPROVER_old(g_lost) + __CPROVER_old(g_uninvoked));
void TaskVec_dtor(struct TaskVec *v) __CPROVER_assigns(g_size, g_uninvoked, g_lost)
  __CPROVER_ensures(g_size == 0 && g_uninvoked == 0 && g_lost == __CPROVER_old(g_lost) + __CPROVER_old(g_uninvoked));
size_t TaskQ_capacity(struct TaskQ *q) __CPROVER_assigns() __CPROVER_ensures(__CPROVER_return_value >= 1);
int vf_usleep(unsigned int us) __CPROVER_assigns() __CPROVER_ensures(1);

/* ---- consume_reclaim_task(batch, tasks): appends what it popped up to the stop marker (assumed here; its body runs the
 *      queue's try_pop_n with a lambda -- the queue side is C01's) ---- */
_Bool GC_consume_reclaim_task(struct GC *self, unsigned long batch, struct TaskVec *tasks)
__CPROVER_requires(!g_stop_seen)          /* the collector never polls the queue again after it consumed the stop marker */
#ifdef VF_ENFORCE_GC_consume_reclaim_task
__CPROVER_requires(__CPROVER_is_fresh(self, sizeof(*self)) && __CPROVER_is_fresh(tasks, sizeof(*tasks)) && g_size < (1UL << 39) && g_move_ok)
__CPROVER_assigns(g_size, g_uninvoked, g_stop_seen, g_qn, g_moved, g_move_ok)
__CPROVER_ensures(g_move_ok)              /* what was appended are the popped tasks before the marker, in pop order, each once (lambda contract) */
#else
__CPROVER_assigns(g_size, g_uninvoked, g_stop_seen)
#endif
__CPROVER_ensures(g_size >= __CPROVER_old(g_size) && g_size - __CPROVER_old(g_size) <= batch)
__CPROVER_ensures(g_uninvoked - __CPROVER_old(g_uninvoked) == g_size - __CPROVER_old(g_size))
__CPROVER_ensures(__CPROVER_return_value == !g_stop_seen)
;

/* ---- reclaim_start_from(index, tasks): runs a prefix of tasks[index..) ---- */
size_t GC_reclaim_start_from(struct GC *self, unsigned long index, struct TaskVec *tasks)
__CPROVER_requires(index <= g_size && g_size <= (1UL << 40) && g_uninvoked == g_size - index)
#ifdef VF_ENFORCE_GC_reclaim_start_from
__CPROVER_requires(__CPROVER_is_fresh(self, sizeof(*self)))
#endif
__CPROVER_assigns(g_uninvoked, g_lwm, g_cur_epoch, g_cur_index, g_invocations, g_task.lowest_epoch)
__CPROVER_ensures(__CPROVER_return_value <= g_size - index)
__CPROVER_ensures(g_uninvoked == __CPROVER_old(g_uninvoked) - __CPROVER_return_value)
__CPROVER_ensures(g_invocations == __CPROVER_old(g_invocations) + __CPROVER_return_value)
;

/* ---- keep_reclaim(): the collector thread's body.  C10: when it returns (stop() then joins), no task was dropped ---- */
void GC_keep_reclaim(struct GC *self)
__CPROVER_requires(__CPROVER_is_fresh(self, sizeof(*self)) && !g_stop_seen && g_lost == 0)
__CPROVER_assigns(g_size, g_uninvoked, g_lost, g_stop_seen, g_lwm, g_cur_epoch, g_cur_index, g_invocations, g_task.lowest_epoch)
__CPROVER_ensures(g_stop_seen)                 /* returns only after the stop marker */
__CPROVER_ensures(g_lost == 0)                 /* every reclaimer handed over before the marker has run */
;
//@loop GC_keep_reclaim 1
//@  __CPROVER_assigns(@l1:running@, @l3:index@, @l5:backoff_us@, g_size, g_uninvoked, g_lost, g_stop_seen, g_lwm, g_cur_epoch, g_cur_index, g_invocations, g_task.lowest_epoch)
//@  __CPROVER_loop_invariant(@l3:index@ <= g_size && g_size <= (1UL << 40) && g_uninvoked == g_size - @l3:index@ && g_lost == 0)
//@  __CPROVER_loop_invariant(@l1:running@ == !g_stop_seen)
//@  __CPROVER_loop_invariant(@l2:batch@ >= 1 && @l2:batch@ <= 1024)
//@end

/* ---- stubs used when reclaim_start_from itself is verified ---- */
uint64_t Epoch_low_water_mark(struct Epoch *e) __CPROVER_assigns(g_lwm) __CPROVER_ensures(__CPROVER_return_value == g_lwm);
struct GC_ReclaimTask *TaskVec_op_index(struct TaskVec *v, unsigned long i)
__CPROVER_requires(i < g_size)                                  /* K4: index inside the vector */
__CPROVER_assigns(g_cur_epoch, g_cur_index, g_task.lowest_epoch)
__CPROVER_ensures(__CPROVER_return_value == &g_task && g_task.lowest_epoch == g_cur_epoch && g_cur_index == i)
;
void GC_ReclaimTask_ctor__ReclaimTaskR(struct GC_ReclaimTask *self, struct GC_ReclaimTask *other)
__CPROVER_requires(other == &g_task && __CPROVER_w_ok(self, sizeof(*self)))
__CPROVER_assigns(*self) __CPROVER_ensures(1);
void GC_ReclaimTask_dtor(struct GC_ReclaimTask *self) __CPROVER_assigns() __CPROVER_ensures(1);
void R_op_call(struct R *self)
/* K1 never early: a reclaimer runs only if its epoch is <= the low water mark observed in this call */
__CPROVER_requires(g_cur_epoch <= g_lwm)
__CPROVER_assigns(g_invocations, g_uninvoked)
__CPROVER_ensures(g_invocations == __CPROVER_old(g_invocations) + 1 && g_uninvoked == __CPROVER_old(g_uninvoked) - 1)
;
//@loop GC_reclaim_start_from 1
//@  __CPROVER_assigns(@p1:index@, @l1:reclaimed@, g_cur_epoch, g_cur_index, g_task.lowest_epoch, g_invocations, g_uninvoked)
//@  __CPROVER_loop_invariant(@p1:index@ <= g_size && @l1:reclaimed@ <= @p1:index@ && g_uninvoked == g_size - @p1:index@)
//@  __CPROVER_loop_invariant(g_invocations == __CPROVER_loop_entry(g_invocations) + @l1:reclaimed@)
//@  __CPROVER_loop_invariant(@p1:index@ == __CPROVER_loop_entry(@p1:index@) + @l1:reclaimed@)
//@  __CPROVER_decreases(g_size - @p1:index@)
//@end

/* ---- consume_reclaim_task and its real lambda (jobs C10.consume.*, VF_CONSUME): the batch the queue hands over is walked with the
 * queue's real iterator over a typed slot array; every task before the stop marker (lowest_epoch == UINT64_MAX) is moved into the
 * task list exactly once, in pop order; the marker itself is never moved, it clears `running` and ends the walk. */
#include <stdlib.h>
#define QS_AT(p, k) (__CPROVER_same_object(p, g_qslots) && __CPROVER_POINTER_OFFSET(p) % sizeof(QSlot_t) == 0 && __CPROVER_POINTER_OFFSET(p) / sizeof(QSlot_t) == (k))
#ifdef VF_CONSUME
typedef struct lambda_garbage_collector_consume_reclaim_task_1 ConsL_t;
#define LCONS GC_consume_reclaim_task_lambda_garbage_collector_consume_reclaim_task_1_op_call
static void vf_havoc_consume(void) {
  g_qcap = nondet_u64(); __CPROVER_assume(g_qcap < (1UL << 16));
  g_qslots = malloc((g_qcap + 1) * sizeof(QSlot_t)); __CPROVER_assume(g_qslots != 0);
  g_qn = nondet_u64(); g_moved = 0; g_move_ok = 1;
}
struct GC_ReclaimTask *TaskVec_emplace_back(struct TaskVec *v, struct GC_ReclaimTask *t) {
  if (!(t == &g_qslots[g_moved].value && t->lowest_epoch != 0xFFFFFFFFFFFFFFFFUL)) g_move_ok = 0;       /* next item of the batch, never the marker */
  __CPROVER_assume(g_moved < (1UL << 30) && g_size < (1UL << 40)); g_moved++; g_size++; g_uninvoked++;
  return t;
}
void LCONS(ConsL_t *c, struct TaskQ_Iterator iter, struct TaskQ_Iterator end)
__CPROVER_requires(__CPROVER_is_fresh(c, sizeof(*c)) && __CPROVER_is_fresh(c->VF_CAP_lambda_garbage_collector_consume_reclaim_task_1_1, sizeof(_Bool)) && g_qn <= g_qcap && g_moved == 0 && g_move_ok && g_size < (1UL << 39))
__CPROVER_requires(__CPROVER_pointer_equals(iter._slot, g_qslots) && __CPROVER_pointer_equals(end._slot, g_qslots + g_qn))
__CPROVER_assigns(*c->VF_CAP_lambda_garbage_collector_consume_reclaim_task_1_1, g_moved, g_move_ok, g_size, g_uninvoked)
__CPROVER_ensures(g_move_ok && g_moved <= g_qn && g_size == __CPROVER_old(g_size) + g_moved && g_uninvoked == __CPROVER_old(g_uninvoked) + g_moved)
__CPROVER_ensures(g_moved == g_qn ? *c->VF_CAP_lambda_garbage_collector_consume_reclaim_task_1_1 == __CPROVER_old(*c->VF_CAP_lambda_garbage_collector_consume_reclaim_task_1_1) : (!*c->VF_CAP_lambda_garbage_collector_consume_reclaim_task_1_1 && g_qslots[g_moved].value.lowest_epoch == 0xFFFFFFFFFFFFFFFFUL))
;
size_t TaskQ_try_pop_n__0_0_lambda_garbage_collector_consume_reclaim_task_1_void(struct TaskQ *q, ConsL_t *cb, unsigned long num) {
  g_qn = nondet_u64(); __CPROVER_assume(g_qn <= num && g_qn <= g_qcap); g_moved = 0;
  struct TaskQ_Iterator b, e; b._slot = g_qslots; e._slot = g_qslots + g_qn;
  LCONS(cb, b, e);
  if (!*cb->VF_CAP_lambda_garbage_collector_consume_reclaim_task_1_1) g_stop_seen = 1;
  return g_qn;
}
#else
static void vf_havoc_consume(void) { }
#endif
//@loop GC_consume_reclaim_task_lambda_garbage_collector_consume_reclaim_task_1_op_call 1
//@  VF_REBASE(@p1:iter@._slot, g_qslots)
//@  __CPROVER_assigns(@p1:iter@._slot, g_moved, g_move_ok, g_size, g_uninvoked)
//@  __CPROVER_loop_invariant(g_moved <= g_qn && QS_AT(@p1:iter@._slot, g_moved) && QS_AT(@p2:end@._slot, g_qn) && g_move_ok && g_size == __CPROVER_loop_entry(g_size) + g_moved && g_uninvoked == __CPROVER_loop_entry(g_uninvoked) + g_moved)
//@  __CPROVER_loop_invariant(*self->VF_CAP_lambda_garbage_collector_consume_reclaim_task_1_1 == __CPROVER_loop_entry(*self->VF_CAP_lambda_garbage_collector_consume_reclaim_task_1_1))
//@  __CPROVER_decreases(g_qn - g_moved)
//@end

/* ---- retire / stop (jobs C10.retire*, C10.stop; VF_RETIRE): the producer side.  retire() may be called from any thread: it hands
 * exactly one task carrying the reclaimer and the given epoch (the current tick for the one-argument form) to the queue through the
 * MULTI-producer push; stop() pushes the stop marker (lowest_epoch == UINT64_MAX) the same way, once, and only then joins the
 * collector thread, once; it does nothing when the collector is not running. */
#ifdef VF_RETIRE
static void pushed_task(struct GC_ReclaimTask *t, _Bool multi) { if (g_pushes < 1000) g_pushes++; g_push_epoch = t->lowest_epoch; g_push_multi = multi; }
void TaskQ_push__1_0_0_GC_ReclaimTask_0(struct TaskQ *q, struct GC_ReclaimTask *t) { pushed_task(t, 1); }
#ifdef VF_HAVE_TaskQ_push__0_0_0_GC_ReclaimTask_0
void TaskQ_push__0_0_0_GC_ReclaimTask_0(struct TaskQ *q, struct GC_ReclaimTask *t) { pushed_task(t, 0); }      /* single-producer push: not safe for retire() */
#endif
uint64_t Epoch_tick(struct Epoch *e) { if (g_ticks < 1000) g_ticks++; return g_tick; }
void R_ctor__RR(struct R *dst, struct R *src) { g_push_moved = 1; }
void R_ctor__void(struct R *r) { }
void R_dtor(struct R *r) { }
_Bool std_thread_joinable(struct std_thread *t) { return g_joinable; }
void std_thread_join(struct std_thread *t) { g_join_after_push = (g_pushes == 1); if (g_joins_gc < 1000) g_joins_gc++; }
#define RETIRE_COMMON __CPROVER_assigns(g_pushes, g_push_epoch, g_push_multi, g_push_moved, g_ticks)
void GC_retire__RR_u64(struct GC *gc, struct R *r, unsigned long epoch)
__CPROVER_requires(__CPROVER_is_fresh(gc, sizeof(*gc)) && __CPROVER_is_fresh(r, sizeof(*r)) && g_pushes == 0 && !g_push_moved)
RETIRE_COMMON
__CPROVER_ensures(g_pushes == 1 && g_push_epoch == epoch && g_push_multi && g_push_moved)
;
void GC_retire__RR(struct GC *gc, struct R *r)
__CPROVER_requires(__CPROVER_is_fresh(gc, sizeof(*gc)) && __CPROVER_is_fresh(r, sizeof(*r)) && g_pushes == 0 && !g_push_moved && g_ticks == 0)
RETIRE_COMMON
__CPROVER_ensures(g_pushes == 1 && g_ticks == 1 && g_push_epoch == g_tick && g_push_multi && g_push_moved)
;
void GC_stop(struct GC *gc)
__CPROVER_requires(__CPROVER_is_fresh(gc, sizeof(*gc)) && g_pushes == 0 && g_joins_gc == 0)
__CPROVER_assigns(g_pushes, g_push_epoch, g_push_multi, g_joins_gc, g_join_after_push)
__CPROVER_ensures(g_joinable ? (g_pushes == 1 && g_push_epoch == 0xFFFFFFFFFFFFFFFFUL && g_push_multi && g_joins_gc == 1 && g_join_after_push) : (g_pushes == 0 && g_joins_gc == 0))
;
#endif
#endif
