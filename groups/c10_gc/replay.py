import os, sys
sys.path.insert(0, os.path.join(os.path.dirname(os.path.abspath(__file__)), '..', '..', 'tools'))
import replaylib
HERE = os.path.dirname(os.path.abspath(__file__))


def replay(job, failed, report, bdir):
    """staged native replay: stop() issued while a region is open and retired tasks are batched"""
    if job['id'] != 'C10.keep_reclaim':
        report['native_replay'] = 'no staged replay for this obligation'
        return False
    rc, out = replaylib.build_and_run(os.path.join(HERE, 'replay', 'keep_reclaim_drop.cpp'), os.path.join(bdir, 'replay'))
    report['native_replay'] = {'program': 'groups/c10_gc/replay/keep_reclaim_drop.cpp', 'exit': rc, 'output': out,
                               'staging': 'capacity 8, one accessor locked, 3 retires, stop() from a second thread, 300 ms'}
    return rc == 1
