// driver TU for C10: GarbageCollector<R> with a declared-only reclaimer type
#include "babylon/concurrent/garbage_collector.h"
namespace babylon_vf {
struct R {
  R() noexcept;
  R(R&&) noexcept;
  R& operator=(R&&) noexcept;
  ~R() noexcept;
  void operator()() noexcept;
};
using GC = ::babylon::GarbageCollector<R>;
void force(GC& gc, R&& r) { gc.start(); gc.retire(::std::move(r)); gc.stop(); }
}
