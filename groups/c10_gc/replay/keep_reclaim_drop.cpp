// native replay of obligation C10.keep_reclaim/postcondition "g_lost == 0":
// stop() issued while a critical region is still open and retired tasks sit in the collector's batch.
// exit 0: every reclaimer ran exactly once before stop() returned; exit 1: reclaimers were dropped (destroyed un-invoked)
#include "babylon/concurrent/garbage_collector.h"
#include <atomic>
#include <chrono>
#include <cstdio>
#include <thread>
static std::atomic<int> g_invoked {0};
static std::atomic<int> g_destroyed_live {0};
struct Reclaimer {
  Reclaimer() = default;
  Reclaimer(Reclaimer&& o) noexcept : live(o.live), ran(o.ran) { o.live = false; }
  Reclaimer& operator=(Reclaimer&& o) noexcept { live = o.live; ran = o.ran; o.live = false; return *this; }
  ~Reclaimer() { if (live && !ran) g_destroyed_live++; }
  void operator()() noexcept { ran = true; g_invoked++; }
  bool live {false}; bool ran {false};
};
int main() {
  int bad = 0;
  for (int round = 0; round < 5; ++round) {
    g_invoked = 0; g_destroyed_live = 0;
    {
      ::babylon::GarbageCollector<Reclaimer> gc;
      gc.set_queue_capacity(8);
      gc.start();
      auto accessor = gc.epoch().create_accessor();
      accessor.lock();                       // a region that stays open
      for (int i = 0; i < 3; ++i) { Reclaimer r; r.live = true; gc.retire(std::move(r)); }
      std::atomic<bool> stopped {false};
      std::thread stopper([&] { gc.stop(); stopped = true; });
      std::this_thread::sleep_for(std::chrono::milliseconds(300));
      bool returned_early = stopped.load();
      int invoked_at_return = g_invoked.load();
      accessor.unlock();
      stopper.join();
      if (g_invoked.load() != 3 || g_destroyed_live.load() != 0) {
        std::printf("round %d: stop() returned%s with %d of 3 reclaimers invoked; %d destroyed without running\n", round,
                    returned_early ? " while the region was still open" : "", g_invoked.load(), g_destroyed_live.load());
        bad++;
      }
      (void)invoked_at_return;
    }
  }
  return bad ? 1 : 0;
}
