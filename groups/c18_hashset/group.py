KE = 'babylon::internal::concurrent_transient_hash_table::IdentityKeyExtractor'
SET = 'babylon::ConcurrentTransientHashSet<unsigned long, babylon_vf::Hash, ' + KE + '>'
TAB = 'babylon::ConcurrentFixedSwissTable<unsigned long, babylon_vf::Hash, ' + KE + '>'
GROUP = dict(
    prop='C18',
    driver='driver.cpp',
    spec='spec.h',
    aliases=[(SET, 'Set'), (TAB, 'Tab'), ('babylon_vf::', '')],
    opaque_by_value=['babylon::ConcurrentFixedSwissTable<unsigned long, babylon_vf::Hash>'],
    extra_structs={'std::pair<iterator, bool>': 'struct @ { struct Tab_Iterator_L_0_R first; _Bool second; };'},
    trivial_copy=['std::pair<iterator, bool>'],
    extern_re=[r'ConcurrentFixedSwissTable<.*>::(begin|end|size|bucket_count|empty|emplace|ConcurrentFixedSwissTable|~ConcurrentFixedSwissTable)$', r'ConcurrentFixedSwissTable<.*>::Iterator<.*>::operator'],
    roots=[SET + '::begin', SET + '::total_size', SET + '::size', SET + '::Iterator<0>::operator++',
           {'name': SET + '::ConcurrentTransientHashSet', 'sig': 'const babylon::ConcurrentTransientHashSet'}],
    reviewed_compiler_conditionals=['src/babylon/concurrent/transient_hash_table.hpp:#if GCC_VERSION >= 120000'],  # a diagnostic pragma only
    assumptions=['ConcurrentFixedSwissTable is abstracted to (n elements, bucket count) with an abstract element order (executable stubs)',
                 'quiescent state: every table before the last one is full, except a default-constructed placeholder head'],
    jobs=[
        dict(id='C18.chain.begin', enforce='Set_begin__void', loops=True, backend='cadical', defines=['VF_CHAIN 1']),
        dict(id='C18.chain.next', enforce='Set_Iterator_L_0_R_op_inc', loops=True, backend='cadical', defines=['VF_CHAIN 1']),
        dict(id='C18.chain.total_size', enforce='Set_total_size', loops=True, backend='cadical', defines=['VF_CHAIN 1']),
        dict(id='C18.chain.size', enforce='Set_size', replace=['Set_total_size'], backend='cadical', defines=['VF_CHAIN 1']),
        dict(id='C18.iterate.bounded', harness='h_iterate_bounded', unwind=9, bounded='chain <= 3 tables, <= 2 elements per table; unwind 9'),
        dict(id='C18.copy.bounded', harness='h_copy_bounded', unwind=9, object_bits=10, bounded='source chain <= 3 tables with abstract bucket counts 1/2/4 (every fill growth can produce); unwind 9'),
        dict(id='C18.size.bounded', harness='h_size_bounded', unwind=5, bounded='chain <= 3 tables (16/32/64 buckets), any fill of the last table; unwind 5'),
    ],
)
