import os, sys
sys.path.insert(0, os.path.join(os.path.dirname(os.path.abspath(__file__)), '..', '..', 'tools'))
import replaylib
HERE = os.path.dirname(os.path.abspath(__file__))


def replay(job, failed, report, bdir):
    """the bounded counterexamples are chains behind an empty/placeholder head: reachable through the public API by
    default-constructing a set and inserting until it has chained two more tables"""
    rc, out = replaylib.build_and_run(os.path.join(HERE, 'replay', 'default_constructed_growth.cpp'), os.path.join(bdir, 'replay'))
    report['native_replay'] = {'program': 'groups/c18_hashset/replay/default_constructed_growth.cpp', 'exit': rc, 'output': out}
    return rc == 1
