// driver TU for C18: chain-level iteration and size of ConcurrentTransientHashSet
#include "babylon/concurrent/transient_hash_table.h"
namespace babylon_vf {
struct Hash { size_t operator()(uint64_t) const noexcept; };
using Set = ::babylon::ConcurrentTransientHashSet<uint64_t, Hash>;
size_t force(Set& s) {
  size_t n = 0;
  for (auto it = s.begin(); it != s.end(); ++it) { n += *it; }
  s.emplace(1);
  Set copy {s};
  n += copy.size();
  return n + s.size();
}
}
