// native replay of C18.iterate.bounded / C18.size.bounded: a default-constructed set that grows by chaining tables
// exit 0: size(), iteration and copy agree with the number of distinct keys inserted; exit 1 otherwise
#include "babylon/concurrent/transient_hash_table.h"
#include <cstdio>
#include <set>
int main() {
  int bad = 0;
  for (size_t n : {1ul, 17ul, 40ul, 200ul}) {
    ::babylon::ConcurrentTransientHashSet<uint64_t> set;      // default constructed: placeholder head
    for (uint64_t i = 0; i < n; ++i) set.emplace(i * 7919);
    std::set<uint64_t> seen; size_t visited = 0;
    for (auto& v : set) { seen.insert(v); if (++visited > 10 * n + 10) break; }
    ::babylon::ConcurrentTransientHashSet<uint64_t> copy {set};
    size_t copied = 0; for (auto& v : copy) { (void)v; if (++copied > 10 * n + 10) break; }
    if (set.size() != n || visited != n || seen.size() != n || copied != n) {
      std::printf("inserted %zu distinct keys: size()=%zu, iteration visited %zu (%zu distinct), copy holds %zu\n", n, set.size(), visited, seen.size(), copied);
      bad++;
    }
  }
  return bad ? 1 : 0;
}
