/* C18 -- chain-level iteration and size of ConcurrentTransientHashSet (begin / Iterator::operator++ / size / total_size).
 * The fixed table (ConcurrentFixedSwissTable) is opaque here: its begin/end/size/bucket_count and its iterator are executable
 * stubs over a ghost view (n elements at abstract positions 0..n-1, `buckets` buckets) stored in the opaque bytes.
 * BOUNDED stand-in: chains of at most 3 tables (head + 2), at most 2 elements per table for the iteration harness. */
#ifndef C18_SPEC_H
#define C18_SPEC_H
#include <stdlib.h>
unsigned long nondet_u64(void);
unsigned int nondet_uint(void);
_Bool nondet_bool(void);
typedef struct Set Set_t;
typedef struct Set_TableNode Node_t;
typedef struct Tab_Iterator_L_0_R TIt_t;
typedef struct Set_Iterator_L_0_R SIt_t;
struct GT { unsigned long n, buckets, idx; };
#define B_MINB 1UL   /* abstract minimum bucket count (16 in the real table): keeps the bounded iteration short */
#define GTP(t) ((struct GT *)(t))

void *vf_atomic_load_ptr(void **p, int order, int site) {
  __CPROVER_assert(order == 2 || order == 4 || order == 5 || order == 0, "K6 C18 chain link loads are acquire (or relaxed under external synchronisation)");
  return *p;
}
TIt_t Tab_begin__void(struct Tab *t) { TIt_t it; it._table = t; it._index = GTP(t)->n > 0 ? 0 : GTP(t)->buckets; it._iter._mask = 0; return it; }
TIt_t Tab_end__void(struct Tab *t) { TIt_t it; it._table = t; it._index = GTP(t)->buckets; it._iter._mask = 0; return it; }
_Bool Tab_Iterator_L_0_R_op_ne(TIt_t *a, TIt_t b) { return a->_index != b._index; }
_Bool Tab_Iterator_L_0_R_op_bool(TIt_t *a) { return a->_table != 0 && a->_index < GTP(a->_table)->buckets; }
TIt_t *Tab_Iterator_L_0_R_op_inc(TIt_t *a) {
  __CPROVER_assert(a->_table != 0 && a->_index < GTP(a->_table)->n, "K4 C18 table iterator advanced only while it designates an element");
  a->_index++;
  if (a->_index >= GTP(a->_table)->n) a->_index = GTP(a->_table)->buckets;
  return a;
}
TIt_t *Tab_Iterator_L_0_R_op_assign__Iterator_L_0_RR(TIt_t *a, TIt_t *b) { *a = *b; return a; }
TIt_t *Tab_Iterator_L_0_R_op_assign__Iterator_L_0_RR_574265(TIt_t *a, TIt_t *b) { *a = *b; return a; }
typedef struct Tab_Iterator_L_1_R TCIt_t;
_Bool Tab_Iterator_L_1_R_op_bool(TCIt_t *a) { return a->_table != 0 && a->_index < GTP(a->_table)->buckets; }
_Bool Tab_Iterator_L_1_R_op_eq(TCIt_t *a, TCIt_t b) { return a->_index == b._index; }
TCIt_t *Tab_Iterator_L_1_R_op_inc(TCIt_t *a) {
  __CPROVER_assert(a->_table != 0 && a->_index < GTP(a->_table)->n, "K4 C18 table iterator advanced only while it designates an element");
  a->_index++;
  if (a->_index >= GTP(a->_table)->n) a->_index = GTP(a->_table)->buckets;
  return a;
}
TCIt_t *Tab_Iterator_L_1_R_op_assign__Iterator_L_1_RR(TCIt_t *a, TCIt_t *b) { *a = *b; return a; }
static unsigned long b_value;
unsigned long *Tab_Iterator_L_1_R_op_star(TCIt_t *a) {
  __CPROVER_assert(a->_table != 0 && a->_index < GTP(a->_table)->n, "K4 C18 only an iterator that designates an element is dereferenced");
  return &b_value;
}
/* the non-growing fixed table: a table of `buckets` buckets takes at most `buckets` elements */
static unsigned b_emplace_failed;
static unsigned long vf_bit_ceil(unsigned long n) { unsigned long b = 1; for (unsigned i = 0; i < 8; ++i) if (b < n) b <<= 1; return b; }
void Tab_ctor__u64(struct Tab *t, unsigned long min_bucket_count) { GTP(t)->n = 0; GTP(t)->idx = 0; GTP(t)->buckets = vf_bit_ceil(min_bucket_count < B_MINB ? B_MINB : min_bucket_count); }
struct std_pair_L_iterator_bool_R Tab_emplace__const_unsigned_longRef_x_void(struct Tab *t, unsigned long *key) {
  struct std_pair_L_iterator_bool_R r;
  if (GTP(t)->n < GTP(t)->buckets) { GTP(t)->n++; r.second = 1; } else { b_emplace_failed++; r.second = 0; }
  return r;
}
size_t Tab_bucket_count(struct Tab *t) { return GTP(t)->buckets; }
size_t Tab_size(struct Tab *t) { return GTP(t)->n; }

static unsigned long b_total;
static unsigned b_len;
/* chain of 1..3 tables; `for_size`: the real chain invariant (every non-last table is full, except a default-constructed
 * placeholder head: 16 buckets, 0 elements); otherwise up to 2 elements per table, any emptiness pattern */
static void b_build(Set_t *s, int for_size) {
  b_len = 1 + nondet_uint() % 3; b_total = 0;
  Node_t *nodes[3]; nodes[0] = &s->_head;
  for (unsigned k = 1; k < b_len; ++k) nodes[k] = (Node_t *)malloc(sizeof(Node_t));
  for (unsigned k = 0; k < b_len; ++k) {
    struct GT *g = GTP(&nodes[k]->table);
    g->idx = k; g->buckets = (for_size == 2 ? B_MINB : 16UL) << k;
    unsigned long n = nondet_u64();
    if (for_size) {   /* 1: real bucket counts (no element iteration); 2: small abstract bucket counts (copy harness iterates) */
      _Bool last = (k + 1 == b_len);
      _Bool placeholder = (k == 0 && nondet_bool());
      if (placeholder) n = 0; else if (!last) n = g->buckets; else __CPROVER_assume(n <= g->buckets);
    } else __CPROVER_assume(n <= 2);
    g->n = n; b_total += n;
    nodes[k]->next = (k + 1 < b_len) ? nodes[k + 1] : 0;
  }
}
/* iteration visits every element exactly once, in chain order, then compares equal to end() */
void h_iterate_bounded(void) {
  Set_t s; b_build(&s, 0);
  SIt_t it = Set_begin__void(&s);
  unsigned long visited = 0, last_idx = 0, last_pos = 0; _Bool first = 1;
  while (Tab_Iterator_L_0_R_op_bool(&it._iter)) {
    struct GT *g = GTP(it._iter._table);
    __CPROVER_assert(it._iter._index < g->n, "K1 C18.iterate the iterator designates an element of a table of the chain");
    __CPROVER_assert(first || g->idx > last_idx || (g->idx == last_idx && it._iter._index > last_pos), "K1 C18.iterate strictly forward: no element twice");
    first = 0; last_idx = g->idx; last_pos = it._iter._index; visited++;
    Set_Iterator_L_0_R_op_inc(&it);
  }
  __CPROVER_assert(visited == b_total, "K1 C18.iterate visits each element exactly once (none skipped)");
  __CPROVER_assert(0, "VF_VACUITY_TWIN lemma reachable (must fail)");
}
/* size() equals the number of elements for every chain that growth can produce, including a default-constructed head */
void h_size_bounded(void) {
  Set_t s; b_build(&s, 1);
  __CPROVER_assert(Set_size(&s) == b_total, "K1 C18.size equals the number of distinct elements held");
  __CPROVER_assert(0, "VF_VACUITY_TWIN lemma reachable (must fail)");
}
/* the copy constructor holds exactly the source's elements: none lost because the copy's single table was sized too small */
void h_copy_bounded(void) {
  Set_t s; b_build(&s, 2);
  Set_t copy;
  Set_ctor__IdentityKeyExtractor_RR(&copy, &s);
  __CPROVER_assert(b_emplace_failed == 0, "K1 C18.copy no element of the source is dropped by the copy (the copy's table has room for all of them)");
  __CPROVER_assert(GTP(&copy._head.table)->n == b_total && copy._head.next == 0, "K1 C18.copy the copy holds exactly as many elements as the source");
  __CPROVER_assert(0, "VF_VACUITY_TWIN lemma reachable (must fail)");
}
#endif
