/* C18 -- chain-level iteration and size of ConcurrentTransientHashSet (begin / Iterator::operator++ / size / total_size).
 * The fixed table (ConcurrentFixedSwissTable) is opaque here: its begin/end/size/bucket_count and its iterator are executable
 * stubs over a ghost view (n elements at abstract positions 0..n-1, `buckets` buckets) stored in the opaque bytes.
 * BOUNDED stand-in: chains of at most 3 tables (head + 2), at most 2 elements per table for the iteration harness. */
#ifndef C18_SPEC_H
#define C18_SPEC_H
#include <stdlib.h>
unsigned long nondet_u64(void);
unsigned int nondet_uint(void);
_Bool nondet_bool(void);
typedef struct Set Set_t;
typedef struct Set_TableNode Node_t;
typedef struct Tab_Iterator_L_0_R TIt_t;
typedef struct Set_Iterator_L_0_R SIt_t;
struct GT { unsigned long n, buckets, idx; };
#define B_MINB 1UL   /* abstract minimum bucket count (16 in the real table): keeps the bounded iteration short */
#define GTP(t) ((struct GT *)(t))

/* ghosts of the chain contracts (declared for every job: the loop contracts that mention them are part of the lowered functions) */
size_t g_len, g_first, g_cur, g_nn; _Bool g_placeholder; int g_mode;   /* mode 1: begin, 2: ++, 3: size */
Node_t *g_nodes; unsigned long *g_pre, *g_bk; Set_t *g_set;
#define NODE_IN(p) (__CPROVER_same_object(p, g_nodes) && __CPROVER_POINTER_OFFSET(p) % sizeof(Node_t) == 0 && __CPROVER_POINTER_OFFSET(p) / sizeof(Node_t) >= 1 && __CPROVER_POINTER_OFFSET(p) / sizeof(Node_t) < g_len)
#define IDX(p) (__CPROVER_POINTER_OFFSET(p) / sizeof(Node_t))
#ifdef VF_CHAIN
/* ================= UNBOUNDED: chain-level contracts (jobs C18.chain.*) =================
 * The chain has g_len >= 1 tables (any length < 2^20): table 0 is the head embedded in the set, table k >= 1 lives in g_nodes[k]
 * (typed array), and the `next` link of table k is &g_nodes[k+1] (null for the last) -- the acquire load of a link is a stub that
 * computes exactly that from the address it is given, so the real code walks a list of arbitrary length.  Table k holds
 * n_k = g_pre[k+1] - g_pre[k] elements at abstract positions 0..n_k-1 and has g_bk[k] >= n_k buckets; the facts about a table are
 * assumed the first time a stub touches it (wf(k): a quantifier-free way to state "for every table of the chain").
 *   begin()       returns the first element in chain order (table g_first = the first non-empty table, position 0) with _next
 *                 behind that table, or end() when every table is empty;
 *   operator++    from (table c, position p): (c, p+1) if that exists, else position 0 of the next non-empty table g_nn, else end();
 *                 together: iteration is the lexicographic successor walk over {(k, p) : p < n_k} -- every element once, in order;
 *   total_size /  in a quiescent chain (every table before the last is full, except a default-constructed placeholder head that
 *   size          is empty) the result is g_pre[g_len] - g_pre[0] = the number of elements held. */
static void vf_havoc_ghosts(void) {
  g_len = nondet_u64(); __CPROVER_assume(g_len >= 1 && g_len < (1UL << 20));
  g_nodes = malloc((g_len + 1) * sizeof(Node_t)); __CPROVER_assume(g_nodes != 0);
  g_pre = malloc((g_len + 2) * sizeof(unsigned long)); __CPROVER_assume(g_pre != 0);
  g_bk = malloc((g_len + 1) * sizeof(unsigned long)); __CPROVER_assume(g_bk != 0);
  g_set = malloc(sizeof(Set_t)); __CPROVER_assume(g_set != 0);
  g_first = nondet_u64(); g_cur = nondet_u64(); g_nn = nondet_u64(); g_placeholder = nondet_bool(); g_mode = (int)nondet_uint();
}
#define N_OF(k) (g_pre[(k) + 1] - g_pre[k])
static void wf(size_t k) {
  __CPROVER_assume(g_pre[k] <= g_pre[k + 1] && g_pre[k + 1] < (1UL << 50) && N_OF(k) <= g_bk[k] && g_bk[k] >= 1 && g_bk[k] < (1UL << 40));
  if (g_mode == 3) {
    if (k == 0 && g_placeholder) __CPROVER_assume(N_OF(k) == 0);
    else if (k + 1 < g_len) __CPROVER_assume(N_OF(k) == g_bk[k]);
  }
  if (g_mode == 1) { if (k < g_first) __CPROVER_assume(N_OF(k) == 0); if (k == g_first) __CPROVER_assume(N_OF(k) > 0); }
  if (g_mode == 2) { if (k > g_cur && k < g_nn) __CPROVER_assume(N_OF(k) == 0); if (k == g_nn) __CPROVER_assume(N_OF(k) > 0); }
}
static size_t k_of_tab(struct Tab *t) {
  if (__CPROVER_same_object(t, g_nodes)) {
    size_t off = __CPROVER_POINTER_OFFSET(t);
    __CPROVER_assert(off % sizeof(Node_t) == 0 && off / sizeof(Node_t) >= 1 && off / sizeof(Node_t) < g_len, "K4 C18.chain only tables of the chain are touched");
    return off / sizeof(Node_t);
  }
  __CPROVER_assert(t == &g_set->_head.table, "K4 C18.chain only tables of the chain are touched");
  return 0;
}
#define NODE(k) ((k) == 0 ? &g_set->_head : ((k) < g_len ? &g_nodes[k] : (Node_t *)0))
#define TABLE(k) ((k) == 0 ? &g_set->_head.table : &g_nodes[k].table)
void *vf_atomic_load_ptr(void **p, int order, int site) {
  __CPROVER_assert(order == 2 || order == 4 || order == 5, "K6 C18 chain link loads are acquire");
  size_t k;
  if (__CPROVER_same_object(p, g_nodes)) {
    size_t off = __CPROVER_POINTER_OFFSET(p);
    __CPROVER_assert(off % sizeof(Node_t) == __builtin_offsetof(Node_t, next) && off / sizeof(Node_t) >= 1 && off / sizeof(Node_t) < g_len, "K4 C18.chain only links of the chain are followed");
    k = off / sizeof(Node_t);
  } else { __CPROVER_assert(p == (void **)&g_set->_head.next, "K4 C18.chain only links of the chain are followed"); k = 0; }
  return (k + 1 < g_len) ? (void *)&g_nodes[k + 1] : (void *)0;
}
TIt_t Tab_begin__void(struct Tab *t) { size_t k = k_of_tab(t); wf(k); TIt_t it; it._table = t; it._index = N_OF(k) > 0 ? 0 : g_bk[k]; it._iter._mask = 0; return it; }
TIt_t Tab_end__void(struct Tab *t) { size_t k = k_of_tab(t); wf(k); TIt_t it; it._table = t; it._index = g_bk[k]; it._iter._mask = 0; return it; }
_Bool Tab_Iterator_L_0_R_op_ne(TIt_t *a, TIt_t b) { return a->_index != b._index; }
_Bool Tab_Iterator_L_0_R_op_bool(TIt_t *a) { if (a->_table == 0) return 0; size_t k = k_of_tab(a->_table); wf(k); return a->_index < g_bk[k]; }
TIt_t *Tab_Iterator_L_0_R_op_inc(TIt_t *a) {
  __CPROVER_assert(a->_table != 0, "K4 C18 table iterator advanced only while it designates an element");
  size_t k = k_of_tab(a->_table); wf(k);
  __CPROVER_assert(a->_index < N_OF(k), "K4 C18 table iterator advanced only while it designates an element");
  a->_index++;
  if (a->_index >= N_OF(k)) a->_index = g_bk[k];
  return a;
}
TIt_t *Tab_Iterator_L_0_R_op_assign__Iterator_L_0_RR(TIt_t *a, TIt_t *b) { *a = *b; return a; }
TIt_t *Tab_Iterator_L_0_R_op_assign__Iterator_L_0_RR_574265(TIt_t *a, TIt_t *b) { *a = *b; return a; }
size_t Tab_bucket_count(struct Tab *t) { size_t k = k_of_tab(t); wf(k); return g_bk[k]; }
size_t Tab_size(struct Tab *t) { size_t k = k_of_tab(t); wf(k); return N_OF(k); }

#define IS_END(it) ((it)._next == 0 && ((it)._iter._table == 0))
SIt_t Set_begin__void(Set_t *s)
__CPROVER_requires(__CPROVER_pointer_equals(s, g_set) && g_mode == 1 && g_first <= g_len)
__CPROVER_assigns()
__CPROVER_ensures(g_first == g_len ==> IS_END(__CPROVER_return_value))
__CPROVER_ensures(g_first < g_len ==> (__CPROVER_return_value._iter._table == TABLE(g_first) && __CPROVER_return_value._iter._index == 0
                  && __CPROVER_return_value._next == NODE(g_first + 1)))
;
//@loop Set_begin__void 1
//@  VF_REBASE(@l1:node@, g_nodes)
//@  __CPROVER_assigns(@l1:node@, @l2:iter@)
//@  __CPROVER_loop_invariant(g_first >= 1 && (@l1:node@ == 0 ? g_first == g_len : (NODE_IN(@l1:node@) && IDX(@l1:node@) <= g_first)))
//@  __CPROVER_decreases(@l1:node@ == 0 ? 0 : g_len - IDX(@l1:node@))
//@end
SIt_t *Set_Iterator_L_0_R_op_inc(SIt_t *it)
__CPROVER_requires(__CPROVER_is_fresh(it, sizeof(*it)) && g_mode == 2 && g_cur < g_len && g_nn > g_cur && g_nn <= g_len)
__CPROVER_requires(__CPROVER_pointer_equals(it->_iter._table, TABLE(g_cur)) && __CPROVER_pointer_equals(it->_next, NODE(g_cur + 1)))
__CPROVER_requires(g_pre[g_cur] <= g_pre[g_cur + 1] && it->_iter._index < N_OF(g_cur))
__CPROVER_assigns(it->_next, it->_iter)
__CPROVER_ensures(__CPROVER_return_value == it)
__CPROVER_ensures(__CPROVER_old(it->_iter._index) + 1 < N_OF(g_cur) ==> (it->_iter._table == TABLE(g_cur) && it->_iter._index == __CPROVER_old(it->_iter._index) + 1 && it->_next == NODE(g_cur + 1)))
__CPROVER_ensures((__CPROVER_old(it->_iter._index) + 1 >= N_OF(g_cur) && g_nn < g_len) ==> (it->_iter._table == TABLE(g_nn) && it->_iter._index == 0 && it->_next == NODE(g_nn + 1)))
__CPROVER_ensures((__CPROVER_old(it->_iter._index) + 1 >= N_OF(g_cur) && g_nn == g_len) ==> IS_END(*it))
;
//@loop Set_Iterator_L_0_R_op_inc 1
//@  VF_REBASE(@l1:node@, g_nodes)
//@  __CPROVER_assigns(@l1:node@)
//@  __CPROVER_loop_invariant(@l1:node@ == 0 ? g_nn == g_len : (NODE_IN(@l1:node@) && IDX(@l1:node@) > g_cur && IDX(@l1:node@) <= g_nn))
//@  __CPROVER_decreases(@l1:node@ == 0 ? 0 : g_len - IDX(@l1:node@))
//@end
#ifdef VF_ENFORCE_Set_total_size
#define TS_PEQ(a, b) __CPROVER_pointer_equals(a, b)
#else
#define TS_PEQ(a, b) ((a) == (b))
#endif
size_t Set_total_size(Set_t *s, Node_t *node)
__CPROVER_requires(TS_PEQ(s, g_set) && g_mode == 3 && g_len >= 2 && TS_PEQ(node, &g_nodes[1]) && g_pre[0] == 0)
__CPROVER_assigns()
__CPROVER_ensures(__CPROVER_return_value == g_pre[g_len])
;
//@loop Set_total_size 1
//@  VF_REBASE(@p1:node@, g_nodes)
//@  __CPROVER_assigns(@p1:node@, @l1:sum@)
//@  __CPROVER_loop_invariant(NODE_IN(@p1:node@) && @l1:sum@ == g_pre[IDX(@p1:node@)])
//@  __CPROVER_decreases(g_len - IDX(@p1:node@))
//@end
size_t Set_size(Set_t *s)
__CPROVER_requires(__CPROVER_pointer_equals(s, g_set) && g_mode == 3 && g_pre[0] == 0)
__CPROVER_assigns()
__CPROVER_ensures(__CPROVER_return_value == g_pre[g_len])
;
#else
void *vf_atomic_load_ptr(void **p, int order, int site) {
  __CPROVER_assert(order == 2 || order == 4 || order == 5 || order == 0, "K6 C18 chain link loads are acquire (or relaxed under external synchronisation)");
  return *p;
}
TIt_t Tab_begin__void(struct Tab *t) { TIt_t it; it._table = t; it._index = GTP(t)->n > 0 ? 0 : GTP(t)->buckets; it._iter._mask = 0; return it; }
TIt_t Tab_end__void(struct Tab *t) { TIt_t it; it._table = t; it._index = GTP(t)->buckets; it._iter._mask = 0; return it; }
_Bool Tab_Iterator_L_0_R_op_ne(TIt_t *a, TIt_t b) { return a->_index != b._index; }
_Bool Tab_Iterator_L_0_R_op_bool(TIt_t *a) { return a->_table != 0 && a->_index < GTP(a->_table)->buckets; }
TIt_t *Tab_Iterator_L_0_R_op_inc(TIt_t *a) {
  __CPROVER_assert(a->_table != 0 && a->_index < GTP(a->_table)->n, "K4 C18 table iterator advanced only while it designates an element");
  a->_index++;
  if (a->_index >= GTP(a->_table)->n) a->_index = GTP(a->_table)->buckets;
  return a;
}
TIt_t *Tab_Iterator_L_0_R_op_assign__Iterator_L_0_RR(TIt_t *a, TIt_t *b) { *a = *b; return a; }
TIt_t *Tab_Iterator_L_0_R_op_assign__Iterator_L_0_RR_574265(TIt_t *a, TIt_t *b) { *a = *b; return a; }
typedef struct Tab_Iterator_L_1_R TCIt_t;
_Bool Tab_Iterator_L_1_R_op_bool(TCIt_t *a) { return a->_table != 0 && a->_index < GTP(a->_table)->buckets; }
_Bool Tab_Iterator_L_1_R_op_eq(TCIt_t *a, TCIt_t b) { return a->_index == b._index; }
TCIt_t *Tab_Iterator_L_1_R_op_inc(TCIt_t *a) {
  __CPROVER_assert(a->_table != 0 && a->_index < GTP(a->_table)->n, "K4 C18 table iterator advanced only while it designates an element");
  a->_index++;
  if (a->_index >= GTP(a->_table)->n) a->_index = GTP(a->_table)->buckets;
  return a;
}
TCIt_t *Tab_Iterator_L_1_R_op_assign__Iterator_L_1_RR(TCIt_t *a, TCIt_t *b) { *a = *b; return a; }
static unsigned long b_value;
unsigned long *Tab_Iterator_L_1_R_op_star(TCIt_t *a) {
  __CPROVER_assert(a->_table != 0 && a->_index < GTP(a->_table)->n, "K4 C18 only an iterator that designates an element is dereferenced");
  return &b_value;
}
/* the non-growing fixed table: a table of `buckets` buckets takes at most `buckets` elements */
static unsigned b_emplace_failed;
static unsigned long vf_bit_ceil(unsigned long n) { unsigned long b = 1; for (unsigned i = 0; i < 8; ++i) if (b < n) b <<= 1; return b; }
void Tab_ctor__u64(struct Tab *t, unsigned long min_bucket_count) { GTP(t)->n = 0; GTP(t)->idx = 0; GTP(t)->buckets = vf_bit_ceil(min_bucket_count < B_MINB ? B_MINB : min_bucket_count); }
struct std_pair_L_iterator_bool_R Tab_emplace__const_unsigned_longRef_x_void(struct Tab *t, unsigned long *key) {
  struct std_pair_L_iterator_bool_R r;
  if (GTP(t)->n < GTP(t)->buckets) { GTP(t)->n++; r.second = 1; } else { b_emplace_failed++; r.second = 0; }
  return r;
}
size_t Tab_bucket_count(struct Tab *t) { return GTP(t)->buckets; }
size_t Tab_size(struct Tab *t) { return GTP(t)->n; }

static unsigned long b_total;
static unsigned b_len;
/* chain of 1..3 tables; `for_size`: the real chain invariant (every non-last table is full, except a default-constructed
 * placeholder head: 16 buckets, 0 elements); otherwise up to 2 elements per table, any emptiness pattern */
static void b_build(Set_t *s, int for_size) {
  b_len = 1 + nondet_uint() % 3; b_total = 0;
  Node_t *nodes[3]; nodes[0] = &s->_head;
  for (unsigned k = 1; k < b_len; ++k) nodes[k] = (Node_t *)malloc(sizeof(Node_t));
  for (unsigned k = 0; k < b_len; ++k) {
    struct GT *g = GTP(&nodes[k]->table);
    g->idx = k; g->buckets = (for_size == 2 ? B_MINB : 16UL) << k;
    unsigned long n = nondet_u64();
    if (for_size) {   /* 1: real bucket counts (no element iteration); 2: small abstract bucket counts (copy harness iterates) */
      _Bool last = (k + 1 == b_len);
      _Bool placeholder = (k == 0 && nondet_bool());
      if (placeholder) n = 0; else if (!last) n = g->buckets; else __CPROVER_assume(n <= g->buckets);
    } else __CPROVER_assume(n <= 2);
    g->n = n; b_total += n;
    nodes[k]->next = (k + 1 < b_len) ? nodes[k + 1] : 0;
  }
}
/* iteration visits every element exactly once, in chain order, then compares equal to end() */
void h_iterate_bounded(void) {
  Set_t s; b_build(&s, 0);
  SIt_t it = Set_begin__void(&s);
  unsigned long visited = 0, last_idx = 0, last_pos = 0; _Bool first = 1;
  while (Tab_Iterator_L_0_R_op_bool(&it._iter)) {
    struct GT *g = GTP(it._iter._table);
    __CPROVER_assert(it._iter._index < g->n, "K1 C18.iterate the iterator designates an element of a table of the chain");
    __CPROVER_assert(first || g->idx > last_idx || (g->idx == last_idx && it._iter._index > last_pos), "K1 C18.iterate strictly forward: no element twice");
    first = 0; last_idx = g->idx; last_pos = it._iter._index; visited++;
    Set_Iterator_L_0_R_op_inc(&it);
  }
  __CPROVER_assert(visited == b_total, "K1 C18.iterate visits each element exactly once (none skipped)");
  __CPROVER_assert(0, "VF_VACUITY_TWIN lemma reachable (must fail)");
}
/* size() equals the number of elements for every chain that growth can produce, including a default-constructed head */
void h_size_bounded(void) {
  Set_t s; b_build(&s, 1);
  __CPROVER_assert(Set_size(&s) == b_total, "K1 C18.size equals the number of distinct elements held");
  __CPROVER_assert(0, "VF_VACUITY_TWIN lemma reachable (must fail)");
}
/* the copy constructor holds exactly the source's elements: none lost because the copy's single table was sized too small */
void h_copy_bounded(void) {
  Set_t s; b_build(&s, 2);
  Set_t copy;
  Set_ctor__IdentityKeyExtractor_RR(&copy, &s);
  __CPROVER_assert(b_emplace_failed == 0, "K1 C18.copy no element of the source is dropped by the copy (the copy's table has room for all of them)");
  __CPROVER_assert(GTP(&copy._head.table)->n == b_total && copy._head.next == 0, "K1 C18.copy the copy holds exactly as many elements as the source");
  __CPROVER_assert(0, "VF_VACUITY_TWIN lemma reachable (must fail)");
}
#endif
#endif
