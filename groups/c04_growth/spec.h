/* C04 (growth protocol) -- ConcurrentVector<uint64_t,128>::get_qualified_block_table_slow / get_qualified_block_table.
 *
 * "References obtained from ensure/operator[]/snapshots keep designating the same element no matter how many threads grow the vector
 * concurrently; every element is constructed exactly once and destroyed exactly once": at the level of the block table this means
 *   WIN   the table a thread publishes (CAS on _block_table) has exactly the asked-for size, carries in every slot below the replaced
 *         table's size the SAME block pointer as the table it replaces (the one the CAS compared against), and in every slot above a
 *         block created by this very attempt and not freed; the replaced table is handed to the retire list, once, and not freed;
 *   LOSE  a thread whose CAS fails frees exactly the blocks it created for that attempt -- each once, never a block it copied --, looks at
 *         the table that won, and either returns it (big enough; its own unused table is freed once, nothing is retired) or tries again.
 * SC rely/guarantee model: before the CAS other threads may publish larger tables any number of times (RELY: a published table is
 * immutable, larger than its predecessor, and keeps the predecessor's blocks; tables are not reused while observed: no ABA).
 * Tables live in one typed store (three slots: the table the caller observed, and two the environment alternates between without
 * ever overwriting the table this thread last observed); one arbitrary slot index g_j is watched.  Blocks are opaque tokens
 * (create_block / delete_block are contract stubs: constructing / destroying the elements of a block is theirs). */
#ifndef C04G_SPEC_H
#define C04G_SPEC_H
#include <stdint.h>
#include <stdlib.h>
unsigned long nondet_u64(void); _Bool nondet_bool(void);
typedef struct V128 V_t;
typedef struct V128_BlockTable T_t;
typedef struct internal_concurrent_vector_RetireList_L_V128_BlockTable_V128_BlockTableDeleter_R RLV_t;
#ifndef MAXN
#define MAXN (1UL << 20)
#endif
size_t g_cap;                            /* capacity of a table slot of the model (symbolic, <= MAXN) */
#define SLOTW (g_cap + 2)                /* words per table slot: size + blocks */
#define TOKEN(k) ((unsigned long *)(0x100000UL + 8 * (k)))
unsigned long *g_store;                  /* 3 table headers (size word); the real code reads nothing else of a published table: the
                                            prefix copy is the memcpy stub, which takes the watched slot's value from the ghost view */
#define SLOT(s) ((T_t *)(g_store + (s)))
T_t *g_new;                              /* the table this thread creates */
size_t g_j, g_expect;
unsigned g_tables_created, g_table_deleted, g_retired; unsigned long g_created, g_deleted, g_round_start;
_Bool g_won, g_bad_delete, g_copy_ok; unsigned long g_round_n;
T_t *g_cur; unsigned long g_cur_ver; unsigned long *g_cur_val;   /* watched slot of the current table (0 when beyond its size) */
T_t *g_cur_unused;     /* what _block_table holds (mirrors the field), and how many times it was replaced */
T_t *g_seen; unsigned long g_seen_ver, g_obs_n; unsigned long *g_obs_val;   /* last table this thread observed: version, size, watched slot */
T_t *g_swapped, *g_retired_tab; size_t g_win_oldn;
V_t *g_self; unsigned long g_size0; unsigned g_loads;
static unsigned slot_of(T_t *t) { return t == SLOT(0) ? 0 : (t == SLOT(1) ? 1 : 2); }
static void env_step(void) {
  if (g_won || !nondet_bool()) return;
  /* another thread publishes a larger table that keeps the blocks of the current one */
  unsigned s = (g_seen == SLOT(1)) ? 2 : ((g_seen == SLOT(2)) ? 1 : (nondet_bool() ? 1 : 2));     /* never the slot this thread observed last */
  size_t oldn = g_cur->size;
  size_t n = nondet_u64(); __CPROVER_assume(n > oldn && n <= g_cap);
  T_t *t = SLOT(s); t->size = n;
  if (g_j < n && g_j >= oldn) { unsigned long v = nondet_u64(); __CPROVER_assume(v >= 0x8000000000UL && v < 0x9000000000UL); g_cur_val = (unsigned long *)v; }   /* below oldn: the same block as before */
  g_cur = t; g_self->_block_table = t; __CPROVER_assume(g_cur_ver < (1UL << 40)); g_cur_ver++;
}
static void observe(void) { g_seen = g_cur; g_seen_ver = g_cur_ver; g_obs_n = g_cur->size; g_obs_val = g_j < g_cur->size ? g_cur_val : 0; }
static void vf_havoc_ghosts(void) {
  g_cap = nondet_u64(); __CPROVER_assume(g_cap >= 1 && g_cap <= MAXN);
  g_store = malloc(4 * sizeof(unsigned long)); __CPROVER_assume(g_store != 0);
  g_self = malloc(sizeof(V_t)); __CPROVER_assume(g_self != 0);
  g_self->_block_table = (T_t *)g_store;     /* assigned, not only assumed equal: a pointer that is merely assumed equal dereferences to an unconstrained object */
  g_j = nondet_u64(); g_expect = nondet_u64(); g_new = 0;
  g_tables_created = g_table_deleted = g_retired = 0; g_created = g_deleted = g_round_start = 0; g_round_n = 0; g_won = 0; g_bad_delete = 0; g_copy_ok = 1;
  g_cur = SLOT(0); g_cur_val = (unsigned long *)nondet_u64(); g_cur_ver = 0; g_seen = SLOT(0); g_seen_ver = 0; g_obs_n = 0; g_obs_val = 0; g_swapped = 0; g_retired_tab = 0; g_win_oldn = 0; g_size0 = nondet_u64(); g_loads = 0;
}
/* ---- stubs */
T_t *V128_create_block_table(unsigned long num) {
  unsigned long **arr = malloc((g_cap + 2) * sizeof(unsigned long *)); __CPROVER_assume(arr != 0);   /* typed like the blocks it holds (word 0 is the size) */
  g_new = (T_t *)arr;
  g_new->size = num; g_tables_created++; return g_new;
}
unsigned long *V128_create_block(V_t *self) { __CPROVER_assume(g_created < (1UL << 40)); unsigned long *b = TOKEN(g_created); g_created++; return b; }
void V128_delete_block(V_t *self, unsigned long *b) {
  /* the k-th delete of a lost attempt must free the block that attempt created for new slot round_n + k (so: only its own blocks,
     each once, never a copied one); checked for the watched slot */
  unsigned long k = g_round_n + (g_deleted - g_round_start);
  if (g_deleted < g_round_start || k >= g_expect) g_bad_delete = 1;
  if (k == g_j && b != TOKEN(g_round_start + (g_j - g_round_n))) g_bad_delete = 1;
  __CPROVER_assume(g_deleted < (1UL << 40)); g_deleted++;
}
void V128_delete_block_table(T_t *t) { __CPROVER_assert(!g_won && t == g_new && g_table_deleted == 0, "K5 C04.growth only this thread's own unpublished table is freed, once"); g_table_deleted++; }
void internal_concurrent_vector_RetireList_L_V128_BlockTable_V128_BlockTableDeleter_R_retire(RLV_t *rl, T_t *t) {
  __CPROVER_assert(g_won && g_retired == 0, "K5 C04.growth a table is retired only by the thread that replaced it, once");
  g_retired_tab = t; g_retired++;
}
/* memcpy of the table prefix: modelled for the watched slot only (the other slots of the new table are not looked at) */
static void *vf_memcpy(void *dst, void *src, unsigned long n) {
  if (!(dst == (void *)g_new->blocks && src == (void *)g_seen->blocks && n == 8 * g_obs_n)) g_copy_ok = 0;
  g_round_start = g_created; g_round_n = n / 8;        /* an attempt starts here */
  if (g_j < n / 8) g_new->blocks[g_j] = g_obs_val;      /* the observed table's entry (published tables are immutable) */
  return dst;
}
#define memcpy vf_memcpy
void *vf_atomic_load_ptr(void **p, int order, int site) {
  __CPROVER_assert(order == 2 || order == 5, "K6 C04.growth the block table is read with acquire");
#ifndef VF_FAST_JOB     /* fast-path job: an environment step before the function's first action is subsumed by the arbitrary initial table */
  env_step();
#endif
  g_loads++; observe(); return *p;
}
_Bool vf_atomic_compare_exchange_strong_ptr(void **p, void **expected, void *desired, int success, int failure, int site) {
  __CPROVER_assert((success == 4 || success == 5) && (failure == 2 || failure == 5), "K6 C04.growth the table is published with acq_rel and re-read with acquire");
  env_step();
  if (*p != *expected || g_cur_ver != g_seen_ver) { *expected = *p; observe(); return 0; }
  /* this thread wins: GUAR */
  __CPROVER_assert(desired == (void *)g_new && g_new->size == g_expect, "K5 C04.growth the table published is this thread's own, of exactly the asked-for size");
  __CPROVER_assert(g_j >= g_obs_n || g_new->blocks[g_j] == g_obs_val, "K5 C04.growth stable addresses: below the replaced table's size the new table carries the same block");
  __CPROVER_assert(g_j < g_obs_n || g_j >= g_expect || g_new->blocks[g_j] == TOKEN(g_round_start + (g_j - g_obs_n)), "K5 C04.growth above it, a block created by this attempt (each slot its own, none freed)");
  __CPROVER_assert(g_deleted == g_round_start && g_created == g_round_start + (g_expect - g_obs_n), "K5 C04.growth exactly one live block per new slot at publication");
  g_swapped = (T_t *)*p; g_win_oldn = g_obs_n; *p = desired; g_cur = (T_t *)desired; g_won = 1;
  return 1;
}
#define TAB_OBSERVED(t) ((t) == g_seen && g_seen_ver <= g_cur_ver)

T_t *V128_get_qualified_block_table_slow(V_t *self, T_t *block_table, unsigned long expect)
__CPROVER_requires(__CPROVER_pointer_equals(self, g_self) && __CPROVER_pointer_equals(block_table, SLOT(0)) && self->_block_table == SLOT(0) && g_cur == SLOT(0) && g_seen == SLOT(0))
__CPROVER_requires(expect == g_expect && expect <= g_cap && g_cap <= MAXN && SLOT(0)->size < expect && g_obs_n == SLOT(0)->size && g_obs_val == (g_j < SLOT(0)->size ? g_cur_val : (unsigned long *)0))
__CPROVER_requires(g_created == 0 && g_deleted == 0 && g_tables_created == 0 && g_cur_ver == 0 && g_seen_ver == 0 && !g_won)
__CPROVER_assigns(g_self->_block_table, __CPROVER_object_whole(g_store), g_new, g_tables_created, g_table_deleted, g_retired, g_created, g_deleted, g_round_start, g_round_n, g_won, g_bad_delete, g_copy_ok,
                  g_cur, g_cur_val, g_cur_ver, g_seen, g_seen_ver, g_obs_n, g_obs_val, g_swapped, g_retired_tab, g_win_oldn)
__CPROVER_ensures(g_tables_created == 1 && !g_bad_delete && g_copy_ok)
__CPROVER_ensures(g_won ==> (__CPROVER_return_value == g_new && g_retired == 1 && g_retired_tab == g_swapped && g_table_deleted == 0 && g_created - g_deleted == g_expect - g_win_oldn))
__CPROVER_ensures(!g_won ==> (__CPROVER_return_value == g_seen && g_obs_n >= g_expect && g_retired == 0 && g_table_deleted == 1 && g_created == g_deleted))
;
/* fast path: one acquire read of the published table; the observed table is returned as it is only when it is big enough, and then nothing is
 * created, published, retired or freed; otherwise the slow path is entered with exactly the table observed (its contract's precondition is an
 * obligation here) and its result is handed on.  "Qualified" (size >= expect) then holds in all three cases: hit (size0 >= expect),
 * lose (g_obs_n >= g_expect) and win (the CAS stub asserts the published table has exactly the asked-for size). */
T_t *V128_get_qualified_block_table(V_t *self, unsigned long expect)
__CPROVER_requires(__CPROVER_pointer_equals(self, g_self) && self->_block_table == SLOT(0) && g_cur == SLOT(0) && g_seen == SLOT(0) && g_size0 == SLOT(0)->size && g_size0 <= g_cap)
__CPROVER_requires(expect == g_expect && expect <= g_cap && g_cap <= MAXN && g_loads == 0)
__CPROVER_requires(g_created == 0 && g_deleted == 0 && g_tables_created == 0 && g_table_deleted == 0 && g_retired == 0 && g_cur_ver == 0 && g_seen_ver == 0 && !g_won)
__CPROVER_assigns(g_self->_block_table, __CPROVER_object_whole(g_store), g_new, g_tables_created, g_table_deleted, g_retired, g_created, g_deleted, g_round_start, g_round_n, g_won, g_bad_delete, g_copy_ok,
                  g_cur, g_cur_val, g_cur_ver, g_seen, g_seen_ver, g_obs_n, g_obs_val, g_swapped, g_retired_tab, g_win_oldn, g_loads)
__CPROVER_ensures(g_loads == 1)
__CPROVER_ensures(g_tables_created == 0 ==> (g_size0 >= expect && __CPROVER_return_value == SLOT(0) && SLOT(0)->size == g_size0 && g_self->_block_table == SLOT(0) && g_created == 0 && g_deleted == 0 && g_retired == 0 && g_table_deleted == 0 && !g_won))
__CPROVER_ensures(g_tables_created <= 1 && (g_size0 < expect ==> g_tables_created == 1))
__CPROVER_ensures(g_tables_created == 1 ==> ((g_won ? (__CPROVER_return_value == g_new && g_retired == 1 && g_table_deleted == 0) : (__CPROVER_return_value == g_seen && g_obs_n >= g_expect && g_retired == 0 && g_table_deleted == 1 && g_created == g_deleted))))
;
#define SEEN_OK (g_seen_ver <= g_cur_ver && (g_seen == SLOT(0) || g_seen == SLOT(1) || g_seen == SLOT(2)) && g_seen->size == g_obs_n \
   && (g_cur == SLOT(0) || g_cur == SLOT(1) || g_cur == SLOT(2)) && g_self->_block_table == g_cur && (g_seen_ver == g_cur_ver ==> (g_seen == g_cur && g_obs_val == (g_j < g_obs_n ? g_cur_val : (unsigned long *)0))) && g_cur->size >= g_obs_n && g_cur->size <= g_cap && g_cap <= MAXN && g_expect <= g_cap)
//@loop V128_get_qualified_block_table_slow 1
//@  VF_REBASE(@p1:block_table@, (struct V128_BlockTable *)g_store)
//@  __CPROVER_assigns(@p1:block_table@, @l1:block_num@, g_self->_block_table, __CPROVER_object_whole(g_store), __CPROVER_object_whole(g_new), g_created, g_deleted, g_round_start, g_round_n, g_won, g_bad_delete, g_copy_ok, g_cur, g_cur_val, g_cur_ver, g_seen, g_seen_ver, g_obs_n, g_obs_val, g_swapped, g_win_oldn)
//@  __CPROVER_loop_invariant(!g_won && !g_bad_delete && g_copy_ok && g_created == g_deleted && g_retired == 0 && g_table_deleted == 0 && g_tables_created == 1 && @l2:new_block_table@ == g_new && g_new->size == g_expect && @p2:expect_block_num@ == g_expect)
//@  __CPROVER_loop_invariant(@p1:block_table@ == g_seen && @l1:block_num@ == g_obs_n && g_obs_n < g_expect && SEEN_OK)
//@end
//@loop V128_get_qualified_block_table_slow 2
//@  __CPROVER_assigns(@l3:i@, __CPROVER_object_whole(g_new), g_created)
//@  __CPROVER_loop_invariant(@l1:block_num@ <= @l3:i@ && @l3:i@ <= g_expect && g_created == g_round_start + (@l3:i@ - @l1:block_num@) && g_new->size == g_expect && (g_j >= @l1:block_num@ || g_new->blocks[g_j] == g_obs_val) && ((g_j >= @l1:block_num@ && g_j < @l3:i@) ==> g_new->blocks[g_j] == TOKEN(g_round_start + (g_j - @l1:block_num@))))
//@  __CPROVER_decreases(g_expect - @l3:i@)
//@end
//@loop V128_get_qualified_block_table_slow 3
//@  __CPROVER_assigns(@l4:i_2@, g_deleted, g_bad_delete)
//@  __CPROVER_loop_invariant(@l1:block_num@ <= @l4:i_2@ && @l4:i_2@ <= g_expect && g_deleted == g_round_start + (@l4:i_2@ - @l1:block_num@) && !g_bad_delete && g_round_n == @l1:block_num@ && ((g_j >= @l1:block_num@ && g_j < g_expect) ==> g_new->blocks[g_j] == TOKEN(g_round_start + (g_j - @l1:block_num@))))
//@  __CPROVER_decreases(g_expect - @l4:i_2@)
//@end
#endif
