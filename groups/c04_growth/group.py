V = 'babylon::ConcurrentVector<unsigned long, 128>'
RLV = 'babylon::internal::concurrent_vector::RetireList<babylon::ConcurrentVector<unsigned long, 128>::BlockTable, babylon::ConcurrentVector<unsigned long, 128>::BlockTableDeleter>'
GROUP = dict(
    prop='C04',
    driver='driver.cpp',
    spec='spec.h',
    aliases=[(V, 'V128'), (RLV, 'RLV')],
    opaque_by_value=['std::function<void(unsigned long*)>', 'std::function<void (unsigned long *)>'],
    extern_re=[r'ConcurrentVector<.*>::create_block_table', r'ConcurrentVector<.*>::create_block$', r'ConcurrentVector<.*>::delete_block$', r'ConcurrentVector<.*>::delete_block_table', r'RetireList<.*>::retire'],
    outside_funcs={'__builtin_memcpy': 'vf_memcpy'},
    roots=[V + '::get_qualified_block_table_slow', V + '::get_qualified_block_table'],
    reviewed_compiler_conditionals=['src/babylon/concurrent/vector.hpp:#if !__clang__ && BABYLON_GCC_VERSION < 50000'],
    assumptions=['SC; RELY: a published table is immutable, larger than its predecessor and keeps the predecessor\'s blocks; no ABA on the table pointer (a retired table is not reused while observed)',
                 'create_block / delete_block / create_block_table / delete_block_table / RetireList::retire are contract stubs (tokens, counters); the prefix memcpy is modelled for one arbitrary watched slot',
                 'table capacity of the model: symbolic, up to 2^20 slots'],
    jobs=[
        dict(id='C04.growth.slow', enforce='V128_get_qualified_block_table_slow', loops=True, mem_gb=20, timeout=2400, defines=['MAXN 1048576UL'],
             covers=['g_won && g_win_oldn > 2 && g_expect > g_win_oldn + 3', '!g_won && g_created > 3 && g_cur_ver > 1']),
        dict(id='C04.growth.fast', enforce='V128_get_qualified_block_table', replace=['V128_get_qualified_block_table_slow'], defines=['VF_FAST_JOB 1', 'MAXN 1048576UL'],
             covers=['g_size0 >= g_expect', 'g_size0 < g_expect && g_won', 'g_size0 < g_expect && !g_won']),
    ],
)
