// driver TU for C04 (growth protocol): ConcurrentVector<uint64_t, 128>::get_qualified_block_table(_slow)
#include "babylon/concurrent/vector.h"
namespace babylon_vf {
using V128 = ::babylon::ConcurrentVector<uint64_t, 128>;
void force(V128& b) { b.ensure(1); }
}
