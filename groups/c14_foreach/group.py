IA = 'babylon::IdAllocator<unsigned int>'
def _std_hook(fe, rd, name, args, e):
    # std::find(iter, end, value) / std::find_if(iter, end, pred) over a plain array of ids: library contract stubs in spec.h
    if name == 'find' and len(args) == 3:
        return 'vf_find_u32(%s, %s, %s)' % (fe.expr(args[0]), fe.expr(args[1]), fe.expr(args[2]))
    if name == 'find_if' and len(args) == 3:
        return 'vf_find_if_not_active(%s, %s)' % (fe.expr(args[0]), fe.expr(args[1]))
    return None
GROUP = dict(
    std_call_hook=_std_hook,
    prop='C14',
    driver='driver.cpp',
    spec='spec.h',
    aliases=[(IA, 'IdAlloc'), ('babylon_vf::', '')],
    opaque_by_value=['babylon::ConcurrentVector<std::atomic<unsigned int>, 128>', 'babylon::ConcurrentVector<std::atomic<unsigned int>, 128>::ConstSnapshot', 'babylon::ConcurrentVector<std::atomic<unsigned int>, 128>::Snapshot'],
    extern_re=[r'ConcurrentVector<std::atomic<unsigned int>,\s*128>::', r'babylon_vf::Cb::'],
    roots=[IA + '::for_each', {'lambda_in': IA + '::for_each', 'ordinal': 1}],
    reviewed_compiler_conditionals=['src/babylon/concurrent/id_allocator.hpp:#if !__clang__ && BABYLON_GCC_VERSION < 80400'],   # chooses an inlining attribute of ThreadIdImpl::current_thread_id only
    assumptions=['quiescence: the link array does not change during the scan', 'std::find / std::find_if are library contract stubs stated for the watched slot; the find_if predicate is taken to be value != ACTIVE_FLAG (its lambda is not lowered)',
                 'Snapshot::for_each hands the callback [begin,end) in order in contiguous segments (C04); values >= next_value were never allocated'],
    jobs=[
        dict(id='C14.for_each.segment', enforce='IdAlloc_for_each_lambda_id_allocator_for_each_1_op_call__au32P_au32P_const', loops=True, backend='cadical', timeout=600,
             covers=['g_b > g_a + 4 && g_f > g_a && g_f + 1 < g_b && g_rep == 1', 'g_calls >= 2']),
        dict(id='C14.for_each', enforce='IdAlloc_for_each__CbRef_void', replace=['IdAlloc_for_each_lambda_id_allocator_for_each_1_op_call__au32P_au32P_const'], backend='cadical', timeout=600,
             covers=['g_rep == 1 && g_n > 5', 'g_rep == 0 && g_f < g_n']),
    ],
)
