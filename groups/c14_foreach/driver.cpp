// driver TU for C14 (enumeration): IdAllocator<uint32_t>::for_each
#include "babylon/concurrent/id_allocator.h"
namespace babylon_vf {
struct Cb { void operator()(uint32_t, uint32_t) noexcept; };
void force(const ::babylon::IdAllocator<uint32_t>& a, Cb& cb) { a.for_each(cb); }
}
