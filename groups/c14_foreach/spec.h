/* C14 (enumeration) -- IdAllocator<uint32_t>::for_each: "for_each at quiescence reports exactly the live values".
 * The allocator marks a live value v by storing ACTIVE_FLAG in slot v of its link array; for_each walks the slots below
 * min(snapshot size, next_value) and reports maximal runs [begin, end) of ACTIVE slots.  Contract, for an arbitrary watched value g_f
 * and any array length: the ranges reported are non-empty, increasing and disjoint, and g_f lies in exactly one of them if its slot is
 * ACTIVE and in none otherwise.  Quiescence: the array does not change during the scan.
 *   lambda   one contiguous segment [a, b) of the array, carrying the open run (start_value) and the position (iter_value) across
 *            segments: loop contract with the run invariant below;
 *   for_each asks the snapshot for exactly [0, min(size, next_value)) and closes the last open run.
 * std::find / std::find_if are library contract stubs (first element equal to / different from ACTIVE_FLAG at or after iter, stated
 * for the watched slot); the predicate of find_if is the stub's (value != ACTIVE_FLAG), its lambda text is not lowered. */
#ifndef C14F_SPEC_H
#define C14F_SPEC_H
#include <stdint.h>
#include <stdlib.h>
unsigned long nondet_u64(void);
typedef struct lambda_id_allocator_for_each_1 FE_t;
#define TAIL IdAllocator_L_unsigned_int_R_FREE_LIST_TAIL
#define ACTIVE IdAllocator_L_unsigned_int_R_ACTIVE_FLAG
#define LFE IdAlloc_for_each_lambda_id_allocator_for_each_1_op_call__au32P_au32P_const
unsigned int *g_ids; size_t g_n, g_a, g_b, g_f;
unsigned g_rep, g_calls; unsigned long g_last_end; _Bool g_cb_ok;
size_t g_size, g_next; unsigned g_fe_calls; size_t g_fe_begin, g_fe_end;
static void vf_havoc_ghosts(void) {
  g_n = nondet_u64(); __CPROVER_assume(g_n < (1UL << 24)); g_ids = malloc((g_n + 1) * sizeof(unsigned int)); __CPROVER_assume(g_ids != 0);
  g_a = nondet_u64(); g_b = nondet_u64(); g_f = nondet_u64(); g_rep = 0; g_calls = 0; g_last_end = 0; g_cb_ok = 1;
  g_size = nondet_u64(); g_next = nondet_u64(); g_fe_calls = 0; g_fe_begin = g_fe_end = 0;
}
#define IS_ACTIVE(k) (g_ids[k] == ACTIVE)
void Cb_op_call(struct Cb *cb, unsigned int b, unsigned int e) {
  if (!(b < e && (unsigned long)b >= g_last_end && (unsigned long)e <= g_n)) g_cb_ok = 0;     /* non-empty, increasing, disjoint, inside the array */
  if (b <= g_f && g_f < e) { if (g_rep < 1000) g_rep++; }
  g_last_end = e; if (g_calls < 1000000) g_calls++;
}
static unsigned int *find_stub(unsigned int *iter, unsigned int *end, _Bool want_active) {
  size_t a = (size_t)(iter - g_ids), b = (size_t)(end - g_ids);
  size_t s = nondet_u64(); __CPROVER_assume(a <= s && s <= b);
  __CPROVER_assume(s == b || (IS_ACTIVE(s) == want_active));                       /* the element found satisfies the predicate */
  __CPROVER_assume(!(a <= g_f && g_f < s) || (IS_ACTIVE(g_f) != want_active));      /* nothing before it does (stated for the watched slot) */
  return g_ids + s;
}
unsigned int *vf_find_u32(unsigned int *iter, unsigned int *end, unsigned int v) { __CPROVER_assert(v == ACTIVE, "C14.for_each std::find searches for ACTIVE_FLAG"); return find_stub(iter, end, 1); }
unsigned int *vf_find_if_not_active(unsigned int *iter, unsigned int *end) { return find_stub(iter, end, 0); }
#define ID_AT(p, k) (__CPROVER_same_object(p, g_ids) && __CPROVER_POINTER_OFFSET(p) % 4 == 0 && __CPROVER_POINTER_OFFSET(p) / 4 == (k))
/* run invariant at position k (sv = open run start or TAIL) */
#define RUN_INV(sv, k) ((k) <= g_n && ((sv) == TAIL || (sv) < (k)) && g_cb_ok && g_rep <= 1 \
   && (g_f < (k) ? (((sv) != TAIL && g_f >= (sv)) ? (IS_ACTIVE(g_f) && g_rep == 0) : (g_rep == (IS_ACTIVE(g_f) ? 1u : 0u))) : g_rep == 0) \
   && g_last_end <= ((sv) != TAIL ? (unsigned long)(sv) : (unsigned long)(k)))
void LFE(FE_t *c, unsigned int *aiter, unsigned int *aend)
__CPROVER_requires(__CPROVER_is_fresh(c, sizeof(*c)) && __CPROVER_is_fresh(c->cap_start_value, 4) && __CPROVER_is_fresh(c->cap_iter_value, 4) && g_a <= g_b && g_b <= g_n && g_n < (1UL << 24) && g_f < (1UL << 30))
__CPROVER_requires(__CPROVER_pointer_equals(aiter, g_ids + g_a) && __CPROVER_pointer_equals(aend, g_ids + g_b) && *c->cap_iter_value == g_a && RUN_INV(*c->cap_start_value, g_a))
__CPROVER_assigns(*c->cap_start_value, *c->cap_iter_value, g_rep, g_calls, g_last_end, g_cb_ok)
__CPROVER_ensures(*c->cap_iter_value == g_b && RUN_INV(*c->cap_start_value, g_b))
;
//@loop IdAlloc_for_each_lambda_id_allocator_for_each_1_op_call__au32P_au32P_const 1
//@  VF_REBASE(@l1:iter@, g_ids)
//@  __CPROVER_assigns(@l1:iter@, *self->cap_start_value, *self->cap_iter_value, g_rep, g_calls, g_last_end, g_cb_ok)
//@  __CPROVER_loop_invariant(g_a <= *self->cap_iter_value && *self->cap_iter_value <= g_b && ID_AT(@l1:iter@, *self->cap_iter_value) && ID_AT(@l2:end@, g_b) && RUN_INV(*self->cap_start_value, *self->cap_iter_value))
//@end
/* ---- the whole scan */
struct ConcurrentVector_L_std_atomic_L_unsigned_int_R_128_R_ConstSnapshot ConcurrentVector_L_std_atomic_L_unsigned_int_R_128_R_snapshot__void_const(struct ConcurrentVector_L_std_atomic_L_unsigned_int_R_128_R *v) { struct ConcurrentVector_L_std_atomic_L_unsigned_int_R_128_R_ConstSnapshot s; return s; }
size_t ConcurrentVector_L_std_atomic_L_unsigned_int_R_128_R_ConstSnapshot_size(struct ConcurrentVector_L_std_atomic_L_unsigned_int_R_128_R_ConstSnapshot *s) { return g_size; }
unsigned int vf_atomic_load_u32(unsigned int *p, int order, int site) { __CPROVER_assert(order == 2 || order == 5, "K6 C14.for_each next_value is read with acquire"); return (unsigned int)g_next; }
void ConcurrentVector_L_std_atomic_L_unsigned_int_R_128_R_ConstSnapshot_for_each__lambda_id_allocator_for_each_1_void(struct ConcurrentVector_L_std_atomic_L_unsigned_int_R_128_R_ConstSnapshot *s, unsigned long begin, unsigned long end, FE_t *cb) {
  g_fe_calls++; g_fe_begin = begin; g_fe_end = end;
  if (begin > end || end > g_n) return;
  size_t mid = nondet_u64(); __CPROVER_assume(begin <= mid && mid <= end);
  g_a = begin; g_b = mid; LFE(cb, g_ids + begin, g_ids + mid);
  g_a = mid; g_b = end; LFE(cb, g_ids + mid, g_ids + end);
}
#define SCAN_N ((g_size < (size_t)(unsigned int)g_next) ? g_size : (size_t)(unsigned int)g_next)
void IdAlloc_for_each__CbRef_void(struct IdAlloc *a, struct Cb *cb)
__CPROVER_requires(__CPROVER_is_fresh(a, sizeof(*a)) && g_n == SCAN_N && g_n < (1UL << 24) && g_f < (1UL << 30) && g_rep == 0 && g_calls == 0 && g_last_end == 0 && g_cb_ok && g_fe_calls == 0)
__CPROVER_assigns(g_a, g_b, g_rep, g_calls, g_last_end, g_cb_ok, g_fe_calls, g_fe_begin, g_fe_end)
__CPROVER_ensures(g_fe_calls == 1 && g_fe_begin == 0 && g_fe_end == SCAN_N && g_cb_ok)
__CPROVER_ensures(g_rep == ((g_f < g_n && IS_ACTIVE(g_f)) ? 1u : 0u))          /* exactly the live values, each in exactly one range */
;
#endif
