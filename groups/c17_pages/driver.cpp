// driver TU for C17: page allocators (defined in page_allocator.cpp) and ObjectPool<T>
#include "babylon/reusable/page_allocator.cpp"
