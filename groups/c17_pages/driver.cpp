// driver TU for C17: page allocators (defined in page_allocator.cpp) and ObjectPool<T>
#include "babylon/reusable/page_allocator.cpp"
#include "babylon/concurrent/object_pool.h"
namespace babylon_vf {
struct Obj { int x; };
using Pool = ::babylon::ObjectPool<Obj>;
size_t force(Pool& pool, ::std::unique_ptr<Obj>&& o) {
  auto a = pool.pop();
  auto b = pool.try_pop();
  a = ::std::move(b);
  pool.push(::std::move(o));
  pool.push(::std::move(a));
  return pool.free_object_number();
}
}
