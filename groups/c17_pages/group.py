CA = 'babylon::CachedPageAllocator'
Q = 'babylon::ConcurrentBoundedQueue<void *, babylon::SchedInterface>'
GROUP = dict(
    prop='C17',
    driver='driver.cpp',
    spec='spec.h',
    aliases=[(Q, 'PageQ'), (CA, 'CachedPA'), ('babylon_vf::', '')],
    opaque_by_value=[Q, 'babylon::ConcurrentSummer'],
    outside_funcs={'copy': 'vf_copy_from_q', 'copy_n': 'vf_copy_n_to_q'},
    extern_re=[r'ConcurrentBoundedQueue<.*>::(pop_n|push_n|try_pop_n|capacity|size)', r'ConcurrentSummer::(operator<<|~ConcurrentSummer)', r'ConcurrentBoundedQueue<.*>::~ConcurrentBoundedQueue', r'PageAllocator::~PageAllocator'],
    roots=[CA + '::allocate', CA + '::deallocate', CA + '::~CachedPageAllocator',
           {'lambda_in': CA + '::allocate', 'ordinal': 1}, {'lambda_in': CA + '::allocate', 'ordinal': 2},
           {'lambda_in': CA + '::deallocate', 'ordinal': 1}, {'lambda_in': CA + '::deallocate', 'ordinal': 2},
           {'lambda_in': CA + '::~CachedPageAllocator', 'ordinal': 1}],
    reviewed_compiler_conditionals=['src/babylon/concurrent/bounded_queue.h:#if !__clang__ && BABYLON_GCC_VERSION < 50000'],
    assumptions=['upstream PageAllocator (virtual) hands out a page nobody holds: modelled as the next token of a strictly increasing sequence (assumed contract of the upstream)',
                 'ConcurrentBoundedQueue pop_n/push_n/try_pop_n contract stubs: n <= capacity slots delivered in one or two consecutive ranges, reverse callback on one-slot ranges (the queue itself: C01)',
                 'std::copy / std::copy_n copy a range in order (trusted library contract); queue capacity < 2^20 and num < 2^32 (model bounds on symbolic sizes, no unwinding)',
                 'VF_REBASE identity statements on loop-modified pointers (see DESIGN): p = base + (p - base) at the head of the loop body'],
    jobs=[
        dict(id='C17.cached.allocate', enforce='CachedPA_allocate', loops=True, backend='cadical'),
        dict(id='C17.cached.deallocate', enforce='CachedPA_deallocate', loops=True, backend='cadical'),
        dict(id='C17.cached.dtor', enforce='CachedPA_dtor', loops=True, backend='cadical'),
    ],
)
