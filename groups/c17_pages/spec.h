/* C17 (page allocators) -- CachedPageAllocator::allocate / deallocate / ~CachedPageAllocator with their real lambdas.
 *
 * Pages are tokens: every acquisition event (an upstream allocate, a slot delivered by the cache queue) yields the next token of
 * one strictly increasing sequence g_seq, so "the caller's array holds pairwise distinct pages, each one acquired in this call and
 * not acquired for anything else" is: for two arbitrary ghost indices k1 < k2 < num, old(g_seq) <= out[k1] < out[k2] < g_seq.
 * Conservation is counted: g_up_alloc / g_up_dealloc (upstream), g_q_in / g_q_out (slots filled in / taken out of the cache queue):
 *   allocate  : q_out == min(num, cap), up_alloc == q_in + (num - q_out)           (d upstream == d held + d cached)
 *   deallocate: q_in == min(num, cap), up_dealloc == q_out + (num - q_in), and every input page is handed on exactly once
 *               (in order: the first q_in to the queue, the rest upstream)
 *   destructor: every cached page goes upstream exactly once.
 * The queue is a contract stub (assumed: C01 decides the queue itself): pop_n / push_n(n) with n <= capacity call the callback on one
 * or two consecutive ranges of exactly n slots in total and the reverse callback any number of times on a one-slot range. */
#ifndef C17_SPEC_H
#define C17_SPEC_H
#include <stdint.h>
#include <stdlib.h>
unsigned long nondet_u64(void); _Bool nondet_bool(void);
typedef struct PageQ_Slot Slot_t;
typedef struct PageQ_Iterator It_t;
#define L105 CachedPA_allocate_lambda_page_allocator_allocate_1_op_call
#define L108 CachedPA_allocate_lambda_page_allocator_allocate_2_op_call
#define L127 CachedPA_deallocate_lambda_page_allocator_deallocate_1_op_call
#define L132 CachedPA_deallocate_lambda_page_allocator_deallocate_2_op_call
#define L79 CachedPA_CachedPageAllocator_lambda_page_allocator_dtor_CachedPageAllocator_1_op_call
#define TOK(s) ((uintptr_t)(0x100000UL + ((unsigned long)(s) << 12)))
#define SEQ_MAX (1UL << 40)
#define N_MAX (1UL << 32)
#define CAP_MAX (1UL << 20)   /* model bound on the queue capacity: slot offsets stay below 2^27 bytes (larger symbolic objects misbehave in cbmc 6.11, see DESIGN) */

size_t g_cap;                 /* capacity of the cache queue */
Slot_t *g_slots;              /* slots handed out in ranges (g_cap of them) */
Slot_t g_rslot[1];            /* the slot a reverse callback gets */
size_t g_seq, g_seq0;         /* next token / first token of this call */
size_t g_up_alloc, g_up_dealloc, g_q_in, g_q_out;
void **g_base; size_t g_num;  /* the caller's page array */
size_t g_k1, g_k2;            /* two arbitrary positions in it */
size_t g_chunk_seq, g_chunk_n; _Bool g_in_chunk;
int g_mode;                   /* who may call upstream deallocate now: 0 tail loop, 1 reverse callback of push_n, 2 drain in the destructor */
size_t g_copied, g_tail, g_cached, g_drained;
uintptr_t g_rev_page;
static void vf_havoc_ghosts(void) {
  g_cap = nondet_u64(); g_seq = nondet_u64(); g_k1 = nondet_u64(); g_k2 = nondet_u64(); g_cached = nondet_u64();
  g_num = nondet_u64(); __CPROVER_assume(g_num < N_MAX); g_base = malloc((g_num + 1) * sizeof(void *));   /* + 1: malloc(0) is NULL in the cbmc model */
  __CPROVER_assume(g_base != 0);
  __CPROVER_assume(g_cap >= 1 && g_cap < CAP_MAX); g_slots = malloc(g_cap * sizeof(Slot_t)); __CPROVER_assume(g_slots != 0);
  g_up_alloc = g_up_dealloc = g_q_in = g_q_out = 0; g_in_chunk = 0; g_mode = 0; g_copied = g_tail = g_drained = 0;
}
size_t PageQ_capacity(struct PageQ *q) { return g_cap; }
void ConcurrentSummer_dtor(struct ConcurrentSummer *s) {}
void PageQ_dtor(struct PageQ *q) {}
void PageAllocator_dtor(struct PageAllocator *a) {}
long g_hit_sum; unsigned long g_hit_num;
struct ConcurrentSummer *ConcurrentSummer_op_shl__Summary(struct ConcurrentSummer *s, struct ConcurrentSummer_Summary v) { g_hit_sum = v.sum; g_hit_num = v.num; return s; }

/* ---- upstream (virtual PageAllocator): assumed contract -- allocate hands out a page nobody holds (the next token) */
void PageAllocator_allocate__voidPP_u64(struct PageAllocator *up, void **pages, unsigned long n) {
  __CPROVER_assert(n == 1, "C17 model: upstream allocate is used one page at a time here");
  __CPROVER_assume(g_seq < SEQ_MAX);
  pages[0] = (void *)TOK(g_seq); g_seq++; g_up_alloc++;
}
void PageAllocator_deallocate__voidPP_u64(struct PageAllocator *up, void **pages, unsigned long n) {
  __CPROVER_assert(n == 1, "C17 model: upstream deallocate is used one page at a time here");
  if (g_mode == 0) {
    __CPROVER_assert(g_copied + g_tail < g_num, "K5 C17.deallocate returns upstream no more pages than it was given");
    __CPROVER_assert((uintptr_t)pages[0] == (uintptr_t)g_base[g_copied + g_tail], "K5 C17.deallocate returns upstream exactly the next page that did not go to the cache");
    g_tail++;
  } else if (g_mode == 1) {
    __CPROVER_assert((uintptr_t)pages[0] == g_rev_page, "K5 C17.deallocate overflow: the page evicted from the cache is the one returned upstream");
    g_rev_page = 0;
  } else {
    __CPROVER_assert(g_drained < g_cached, "K5 C17.~CachedPageAllocator returns no more than the cached pages");
    __CPROVER_assert((uintptr_t)pages[0] == (uintptr_t)g_slots[g_drained].value, "K5 C17.~CachedPageAllocator returns each cached page upstream once, in order");
    g_drained++;
  }
  g_up_dealloc++;
}

/* ---- std::copy / std::copy_n between the caller's array and a queue range (trusted library contracts) */
void **vf_copy_from_q(It_t b, It_t e, void **out) {
  size_t n = (size_t)(e._slot - b._slot);
  __CPROVER_assert(g_in_chunk && n == g_chunk_n, "C17 model: the pop callback copies exactly the range it was given");
  __CPROVER_assert(__CPROVER_same_object(out, g_base) && out >= g_base && n <= g_num && (size_t)(out - g_base) <= g_num - n, "K5 C17.allocate copies cached pages only into the caller's array");
  if (n > 0) {   /* only the two watched positions are modelled; nothing reads the others */
    if (g_k1 < g_num && g_base + g_k1 >= out && g_base + g_k1 < out + n) g_base[g_k1] = (void *)TOK(g_chunk_seq + (size_t)(g_base + g_k1 - out));
    if (g_k2 < g_num && g_base + g_k2 >= out && g_base + g_k2 < out + n) g_base[g_k2] = (void *)TOK(g_chunk_seq + (size_t)(g_base + g_k2 - out));
  }
  return out + n;
}
It_t vf_copy_n_to_q(void **src, unsigned long n, It_t dst) {
  __CPROVER_assert(g_in_chunk && n == g_chunk_n, "C17 model: the push callback fills exactly the range it was given");
  __CPROVER_assert(src == g_base + g_copied, "K5 C17.deallocate pushes the next pages that were not handed on yet");
  __CPROVER_assert(g_copied + n <= g_num, "K5 C17.deallocate pushes no more pages than it was given");
  g_copied += n;
  It_t r; r._slot = dst._slot + n; return r;
}

/* ---- the cache queue (assumed contract, see the head of this file) */
#define REVERSE_POP_PHASE(rcb) \
  while (nondet_bool()) \
    __CPROVER_assigns(g_rslot[0].value, g_seq, g_up_alloc, g_q_in, *(rcb)->cap_hit_num) \
    __CPROVER_loop_invariant(g_seq >= __CPROVER_loop_entry(g_seq) && g_seq <= SEQ_MAX) \
    __CPROVER_loop_invariant(g_up_alloc - g_q_in == __CPROVER_loop_entry(g_up_alloc) - __CPROVER_loop_entry(g_q_in) && g_q_in >= __CPROVER_loop_entry(g_q_in) && g_q_in < N_MAX) \
    __CPROVER_loop_invariant(*(rcb)->cap_hit_num >= 0 && *(rcb)->cap_hit_num <= __CPROVER_loop_entry(*(rcb)->cap_hit_num)) \
  { \
    It_t b, e; b._slot = g_rslot; e._slot = g_rslot + 1; \
    size_t before = g_seq; g_rslot[0].value = (void *)0; \
    __CPROVER_assume(g_q_in < N_MAX - 1); \
    L108(rcb, b, e); \
    __CPROVER_assert(g_seq == before + 1 && (uintptr_t)g_rslot[0].value == TOK(before), "K5 C17.allocate on a cache miss: the slot is filled with one fresh upstream page"); \
    g_q_in++; \
  }
void PageQ_pop_n__lambda_page_allocator_allocate_1_lambda_page_allocator_allocate_2(struct PageQ *q, struct lambda_page_allocator_allocate_1 *cb, struct lambda_page_allocator_allocate_2 *rcb, unsigned long num) {
  __CPROVER_assert(num <= g_cap, "K5 C17.allocate takes at most capacity pages from the cache queue in one pop_n");
  size_t first = nondet_u64(); __CPROVER_assume(first <= num);
  REVERSE_POP_PHASE(rcb)
  if (first > 0) {
    It_t b, e; b._slot = g_slots; e._slot = g_slots + first;
    __CPROVER_assume(g_seq < SEQ_MAX);
    g_in_chunk = 1; g_chunk_seq = g_seq; g_chunk_n = first; g_seq += first;
    L105(cb, b, e);
    g_in_chunk = 0; g_q_out += first;
  }
  REVERSE_POP_PHASE(rcb)
  if (num - first > 0) {
    It_t b, e; b._slot = g_slots + first; e._slot = g_slots + num;
    __CPROVER_assume(g_seq < SEQ_MAX);
    g_in_chunk = 1; g_chunk_seq = g_seq; g_chunk_n = num - first; g_seq += num - first;
    L105(cb, b, e);
    g_in_chunk = 0; g_q_out += num - first;
  }
}
#define REVERSE_PUSH_PHASE(rcb) \
  while (nondet_bool()) \
    __CPROVER_assigns(g_rslot[0].value, g_up_dealloc, g_q_out, g_rev_page, g_mode) \
    __CPROVER_loop_invariant(g_up_dealloc - g_q_out == __CPROVER_loop_entry(g_up_dealloc) - __CPROVER_loop_entry(g_q_out) && g_q_out >= __CPROVER_loop_entry(g_q_out) && g_q_out < N_MAX && g_mode == 1) \
  { \
    It_t b, e; b._slot = g_rslot; e._slot = g_rslot + 1; \
    g_rev_page = TOK(nondet_u64() & (SEQ_MAX - 1)); g_rslot[0].value = (void *)g_rev_page; \
    __CPROVER_assume(g_q_out < N_MAX - 1); \
    size_t before = g_up_dealloc; \
    L132(rcb, b, e); \
    __CPROVER_assert(g_up_dealloc == before + 1 && g_rev_page == 0, "K5 C17.deallocate on a full cache: the evicted page goes upstream exactly once"); \
    g_q_out++; \
  }
void PageQ_push_n__lambda_page_allocator_deallocate_1_lambda_page_allocator_deallocate_2(struct PageQ *q, struct lambda_page_allocator_deallocate_1 *cb, struct lambda_page_allocator_deallocate_2 *rcb, unsigned long num) {
  __CPROVER_assert(num <= g_cap, "K5 C17.deallocate puts at most capacity pages into the cache queue in one push_n");
  size_t first = nondet_u64(); __CPROVER_assume(first <= num);
  g_mode = 1;
  REVERSE_PUSH_PHASE(rcb)
  if (first > 0) {
    It_t b, e; b._slot = g_slots; e._slot = g_slots + first;
    g_in_chunk = 1; g_chunk_n = first;
    L127(cb, b, e);
    g_in_chunk = 0; g_q_in += first;
  }
  REVERSE_PUSH_PHASE(rcb)
  if (num - first > 0) {
    It_t b, e; b._slot = g_slots + first; e._slot = g_slots + num;
    g_in_chunk = 1; g_chunk_n = num - first;
    L127(cb, b, e);
    g_in_chunk = 0; g_q_in += num - first;
  }
  g_mode = 0;
}
/* try_pop_n<false,false>(cb, n): takes min(n, size) slots, in one or two ranges */
size_t PageQ_try_pop_n__0_0_lambda_page_allocator_dtor_CachedPageAllocator_1_void(struct PageQ *q, struct lambda_page_allocator_dtor_CachedPageAllocator_1 *cb, unsigned long num) {
  size_t m = g_cached < num ? g_cached : num;
  size_t first = nondet_u64(); __CPROVER_assume(first <= m);
  g_mode = 2;
  if (first > 0) { It_t b, e; b._slot = g_slots; e._slot = g_slots + first; L79(cb, b, e); }
  if (m - first > 0) { It_t b, e; b._slot = g_slots + first; e._slot = g_slots + m; L79(cb, b, e); }
  g_mode = 0; g_q_out += m;
  return m;
}

#define SHAPE0(a) (__CPROVER_is_fresh(a, sizeof(*a)) && __CPROVER_is_fresh(a->_upstream, sizeof(struct PageAllocator)) && g_cap >= 1 && g_cap < CAP_MAX && g_seq < SEQ_MAX)
#define SHAPE(a) SHAPE0(a)
#define SHAPE_D(a) SHAPE0(a)
/* the caller's array and the slot storage are allocated by the harness prologue with malloc(n * sizeof(T)): cbmc then types the object T[n]
 * (an is_fresh object is a byte array, and 8-byte reads at symbolic offsets of a symbolic-size byte array cost minutes and gigabytes each) */
#define ARR(p, n) (n < N_MAX && __CPROVER_pointer_equals(p, g_base) && g_num == n)
#define MINCAP(n) ((n) < g_cap ? (n) : g_cap)

void CachedPA_allocate(struct CachedPA *a, void **pages, unsigned long num)
__CPROVER_requires(SHAPE(a) && ARR(pages, num) && g_seq0 == g_seq)
__CPROVER_assigns(__CPROVER_object_whole(pages), g_seq, g_up_alloc, g_q_in, g_q_out, g_rslot[0].value, g_in_chunk, g_chunk_seq, g_chunk_n, g_hit_sum, g_hit_num)
__CPROVER_ensures(g_q_out == MINCAP(num))
__CPROVER_ensures(g_up_alloc == g_q_in + (num - g_q_out))
__CPROVER_ensures((g_k1 < g_k2 && g_k2 < num) ==> (TOK(g_seq0) <= (uintptr_t)pages[g_k1] && (uintptr_t)pages[g_k1] < (uintptr_t)pages[g_k2] && (uintptr_t)pages[g_k2] < TOK(g_seq)))
__CPROVER_ensures(g_hit_num == num && g_hit_sum >= 0 && (unsigned long)g_hit_sum <= MINCAP(num))
;
#define WRITTEN(k) ((k) < g_num && g_base + (k) < pages)
//@loop CachedPA_allocate 1
//@  VF_REBASE(@p1:pages@, g_base)
//@  __CPROVER_assigns(@p1:pages@, __CPROVER_object_whole(g_base), g_seq, g_up_alloc)
//@  __CPROVER_loop_invariant(__CPROVER_same_object(@p1:pages@, g_base) && (size_t)__CPROVER_POINTER_OFFSET(@p1:pages@) <= g_num * sizeof(void *) && (size_t)__CPROVER_POINTER_OFFSET(@p1:pages@) % sizeof(void *) == 0)
//@  __CPROVER_loop_invariant(g_base + MINCAP(g_num) <= @p1:pages@ && @p1:pages@ <= @l1:pages_end@ && @l1:pages_end@ == g_base + g_num)
//@  __CPROVER_loop_invariant(g_seq <= SEQ_MAX && g_seq >= __CPROVER_loop_entry(g_seq))
//@  __CPROVER_loop_invariant(g_up_alloc == g_q_in + (size_t)(@p1:pages@ - g_base) - g_q_out)
//@  __CPROVER_loop_invariant(WRITTEN(g_k1) ==> (TOK(g_seq0) <= (uintptr_t)g_base[g_k1] && (uintptr_t)g_base[g_k1] < TOK(g_seq)))
//@  __CPROVER_loop_invariant(WRITTEN(g_k2) ==> (TOK(g_seq0) <= (uintptr_t)g_base[g_k2] && (uintptr_t)g_base[g_k2] < TOK(g_seq)))
//@  __CPROVER_loop_invariant((g_k1 < g_k2 && WRITTEN(g_k2)) ==> (uintptr_t)g_base[g_k1] < (uintptr_t)g_base[g_k2])
//@end

void CachedPA_deallocate(struct CachedPA *a, void **pages, unsigned long num)
__CPROVER_requires(SHAPE(a) && ARR(pages, num))
__CPROVER_assigns(g_up_dealloc, g_q_in, g_q_out, g_rslot[0].value, g_in_chunk, g_chunk_n, g_mode, g_copied, g_tail, g_rev_page)
__CPROVER_ensures(g_q_in == MINCAP(num) && g_copied == g_q_in)
__CPROVER_ensures(g_copied + g_tail == num)
__CPROVER_ensures(g_up_dealloc == g_q_out + (num - g_q_in))
;
//@loop CachedPA_deallocate 1
//@  VF_REBASE(@p1:pages@, g_base)
//@  __CPROVER_assigns(@p1:pages@, g_up_dealloc, g_tail)
//@  __CPROVER_loop_invariant(__CPROVER_same_object(@p1:pages@, g_base) && @p1:pages@ == g_base + g_copied + g_tail && @p1:pages@ <= @l1:pages_end@ && @l1:pages_end@ == g_base + g_num && g_mode == 0)
//@  __CPROVER_loop_invariant(g_up_dealloc == g_q_out + g_tail && g_copied + g_tail <= g_num && g_copied <= g_num)
//@end

void CachedPA_dtor(struct CachedPA *a)
__CPROVER_requires(SHAPE_D(a) && g_cached <= g_cap)
__CPROVER_assigns(g_up_dealloc, g_q_out, g_mode, g_drained)
__CPROVER_ensures(g_drained == g_cached && g_up_dealloc == g_cached && g_q_out == g_cached)
;
//@loop CachedPA_CachedPageAllocator_lambda_page_allocator_dtor_CachedPageAllocator_1_op_call 1
//@  VF_REBASE(@p1:iter@._slot, g_slots)
//@  __CPROVER_assigns(@p1:iter@, g_up_dealloc, g_drained)
//@  __CPROVER_loop_invariant(__CPROVER_same_object(@p1:iter@._slot, g_slots) && @p1:iter@._slot == g_slots + g_drained && @p1:iter@._slot <= @p2:end@._slot && g_mode == 2)
//@  __CPROVER_loop_invariant(g_up_dealloc == g_drained && g_drained <= g_cached)
//@end
#endif
