#include "babylon/concurrent/thread_local.h"
#include <cstdio>
int main() {
  ::babylon::EnumerableThreadLocal<long> a;
  ::babylon::EnumerableThreadLocal<long> b;
  a.local() = 7;                       // this thread now has a thread id for element type long; b was never touched
  size_t visited = 0;
  b.for_each_alive([&](long* it, long* end) { visited += static_cast<size_t>(end - it); });   // non-const overload
  const auto& cb = b;
  size_t visited_const = 0;
  cb.for_each_alive([&](const long* it, const long* end) { visited_const += static_cast<size_t>(end - it); });
  std::printf("non-const visited %zu, const visited %zu (b has no slot at all)\n", visited, visited_const);
  return visited == visited_const ? 0 : 1;
}
