E = 'babylon::EnumerableThreadLocal<long, false>'
GROUP = dict(
    prop='C19',
    driver='driver.cpp',
    spec='spec.h',
    aliases=[(E, 'ETL'), ('babylon_vf::', '')],
    opaque_by_value=['babylon::ConcurrentVector<long, 128>', 'babylon::ConcurrentVector<long, 128>::Snapshot', 'babylon::ConcurrentVector<long, 128>::ConstSnapshot'],
    extern_re=[r'ConcurrentVector<long,\s*128>::', r'ThreadId', r'babylon_vf::Cb::'],
    roots=[E + '::for_each_alive', {'lambda_in': E + '::for_each_alive', 'ordinal': 1, 'overload': 1, 'as': 'alive_nonconst'}, {'lambda_in': E + '::for_each_alive', 'ordinal': 1, 'overload': 2, 'as': 'alive_const'}],
    reviewed_compiler_conditionals=[],
    assumptions=['ThreadId::for_each hands the callback the id ranges of live threads (C14 / thread birth and death: not under contract here)', 'Snapshot::for_each(begin, end) requires end <= size() (stub asserting its precondition); storage sizes below 2^16 (thread ids are 16 bit)'],
    jobs=[
        dict(id='C19.etl.alive.nonconst', enforce='ETL_for_each_alive_lambda_thread_local_for_each_alive_1_op_call', backend='cadical', covers=['a2 > g_size && a1 < g_size', 'a2 <= g_size && a2 > a1']),
        dict(id='C19.etl.alive.const', enforce='ETL_for_each_alive_lambda_thread_local_for_each_alive_2_op_call', backend='cadical', covers=['a2 > g_size && a1 < g_size', 'a2 <= g_size && a2 > a1']),
    ],
)
