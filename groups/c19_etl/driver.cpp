// driver TU for C19 (thread-local enumeration): EnumerableThreadLocal<long>::for_each / for_each_alive, const and non-const
#include "babylon/concurrent/thread_local.h"
namespace babylon_vf {
struct Cb { void operator()(long*, long*) noexcept; void operator()(const long*, const long*) noexcept; };
void force(::babylon::EnumerableThreadLocal<long>& e, const ::babylon::EnumerableThreadLocal<long>& ce, Cb& cb) {
  e.for_each(cb); ce.for_each(cb); e.for_each_alive(cb); ce.for_each_alive(cb);
}
}
