import os, sys
sys.path.insert(0, os.path.join(os.path.dirname(os.path.abspath(__file__)), '..', '..', 'tools'))
import replaylib
HERE = os.path.dirname(os.path.abspath(__file__))


def replay(job, failed, report, bdir):
    """non-const for_each_alive on an instance no live thread ever touched: the range of live ids is walked although the instance
    has no slot at all (the block table is indexed beyond its size)"""
    rc, out = replaylib.build_and_run(os.path.join(HERE, 'replay', 'for_each_alive_unclamped.cpp'), os.path.join(bdir, 'replay'))
    report['native_replay'] = {'program': 'groups/c19_etl/replay/for_each_alive_unclamped.cpp', 'exit': rc, 'output': out}
    return rc == 1
