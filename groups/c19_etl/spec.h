/* C19 (thread-local enumeration) -- EnumerableThreadLocal<T>::for_each_alive, non-const and const overload.
 * "for_each_alive visits exactly the slots of live threads": ThreadId hands the callback the id ranges [begin, end) of live threads;
 * a live thread that never touched THIS instance has no slot in it (the storage vector is only as long as the largest id that
 * called local() on it), so the range actually walked must be [min(begin, size), min(end, size)) of the storage snapshot --
 * ConcurrentVector::Snapshot::for_each(begin, end) requires end <= size() (it indexes the block table without a check: C04). */
#ifndef C19E_SPEC_H
#define C19E_SPEC_H
#include <stdint.h>
unsigned long nondet_u64(void);
typedef struct lambda_thread_local_for_each_alive_1 L1_t;
typedef struct lambda_thread_local_for_each_alive_2 L2_t;
unsigned long g_size;                 /* size() of the storage snapshot */
unsigned g_walks; unsigned long g_walk_begin, g_walk_end; _Bool g_in_bounds;
static void vf_havoc_ghosts(void) { g_size = nondet_u64(); g_walks = 0; g_walk_begin = g_walk_end = 0; g_in_bounds = 1; }
static void walk(unsigned long begin, unsigned long end) {
  /* precondition of Snapshot::for_each: the range lies inside the snapshot */
  __CPROVER_assert(begin <= end && end <= g_size, "K4 C19.for_each_alive the range handed to Snapshot::for_each lies inside the snapshot (no slot beyond size() exists)");
  g_walks++; g_walk_begin = begin; g_walk_end = end;
}
void ConcurrentVector_L_long_128_R_Snapshot_for_each__CbRef_void__u64_u64_CbR(struct ConcurrentVector_L_long_128_R_Snapshot *s, unsigned long begin, unsigned long end, struct Cb *cb) { walk(begin, end); }
void ConcurrentVector_L_long_128_R_ConstSnapshot_for_each__CbRef_void(struct ConcurrentVector_L_long_128_R_ConstSnapshot *s, unsigned long begin, unsigned long end, struct Cb *cb) { walk(begin, end); }
#define MINU(a, b) ((unsigned long)(a) < (unsigned long)(b) ? (unsigned long)(a) : (unsigned long)(b))
#define ALIVE_CONTRACT \
__CPROVER_assigns(g_walks, g_walk_begin, g_walk_end) \
__CPROVER_ensures(g_walks == 1 && g_walk_begin == MINU(begin, g_size) && g_walk_end == MINU(end, g_size))
void ETL_for_each_alive_lambda_thread_local_for_each_alive_1_op_call(L1_t *c, unsigned short begin, unsigned short end)
__CPROVER_requires(__CPROVER_is_fresh(c, sizeof(*c)) && begin <= end && g_walks == 0 && g_size <= 65535)
#if VF_NCAP_lambda_thread_local_for_each_alive_1 == 3
/* (the closure captures the snapshot size, like the const overload: bind it; without that capture there is nothing to bind) */
__CPROVER_requires(__CPROVER_is_fresh(c->VF_CAP_lambda_thread_local_for_each_alive_1_1, sizeof(unsigned short)) && *c->VF_CAP_lambda_thread_local_for_each_alive_1_1 == (unsigned short)g_size)
#endif
ALIVE_CONTRACT
;
void ETL_for_each_alive_lambda_thread_local_for_each_alive_2_op_call(L2_t *c, unsigned short begin, unsigned short end)
__CPROVER_requires(__CPROVER_is_fresh(c, sizeof(*c)) && __CPROVER_is_fresh(c->VF_CAP_lambda_thread_local_for_each_alive_2_1, sizeof(unsigned short)) && *c->VF_CAP_lambda_thread_local_for_each_alive_2_1 == (unsigned short)g_size && begin <= end && g_walks == 0 && g_size <= 65535)
ALIVE_CONTRACT
;
#endif
