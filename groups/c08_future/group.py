FC = 'babylon::FutureContext<int, babylon_vf::Sched>'
PR = 'babylon::Promise<int, babylon_vf::Sched>'
SP = 'std::shared_ptr<babylon::FutureContext<int,babylon_vf::Sched>>'
SPB = 'std::__shared_ptr<babylon::FutureContext<int,babylon_vf::Sched>,__gnu_cxx::_S_atomic>'
SPA = 'std::__shared_ptr_access<babylon::FutureContext<int,babylon_vf::Sched>,__gnu_cxx::_S_atomic,0,0>'
MOF = 'babylon::MoveOnlyFunction<void()>'
GROUP = dict(
    prop='C08',
    driver='driver.cpp',
    spec='spec.h',
    aliases=[(SP, 'CtxPtr'), (SPB, 'CtxPtrB'), (SPA, 'CtxPtrA'), (PR, 'Promise'), (FC, 'FC'), ('babylon::Futex<babylon_vf::Sched, void>', 'Futex'), (MOF, 'Fn'), ('babylon_vf::', '')],
    opaque_by_value=[MOF, SP],
    type_aliases={SPA + '::element_type': FC},
    outside_methods={SP: ['operator->', 'operator bool', 'get'], SPB: ['operator bool', 'get'], SPA: ['operator->']},
    extern_re=[r'MoveOnlyFunction<void\s*\(\)>::', r'internal::future::run_callback'],
    outside_funcs={'clock_gettime': 'vf_clock_gettime', '__errno_location': 'vf_errno_location'},
    roots=[FC + '::on_finish', FC + '::set_value', FC + '::wait_slow', FC + '::wait_for_slow', FC + '::get', FC + '::seal', FC + '::ready', PR + '::set_value'],
    reviewed_compiler_conditionals=[],
    assumptions=['SC; the READY bit of the futex word is never taken back (only set_value writes it; clear() is documented as not concurrent)',
                 'CLOCK_MONOTONIC is non-decreasing and below 2^32 s; timeouts <= 2^62 ns (above that the signed sum wraps: benign natively, see DESIGN F-e)',
                 'futex_wait/wake_all are arbitrary functions of the scheduling interface; kernel compare-and-sleep on the whole word'],
    jobs=[
        dict(id='C08.wait_slow', enforce='FC_wait_slow', loops=True),
        dict(id='C08.wait_for_slow', enforce='FC_wait_for_slow', loops=True, timeout=600),
        dict(id='C08.get', enforce='FC_get', replace=['FC_wait_slow']),
        dict(id='C08.promise.set_value', enforce='Promise_set_value__int', replace=['FC_set_value__int_void']),
        dict(id='C08.set_value', enforce='FC_set_value__int_void', loops=True, backend='cadical', defines=['VF_SETVAL_CONTRACT 1'], covers=['g_cbn > 5 && g_waiters0 > 0', 'g_cbn == 0']),
        dict(id='C08.on_finish', enforce='FC_on_finish__CbRef_void', loops=True, backend='cadical', defines=['VF_ONFINISH 1'], covers=['g_of_direct == 1', 'g_of_registered == 1', 'g_of_fn_runs == 1']),
        dict(id='C08.set_value.bounded', harness='h_set_value', unwind=5, bounded='<= 3 callbacks registered before set_value; any waiter count; unwind 5'),
    ],
)
