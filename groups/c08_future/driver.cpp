// driver TU for C08: FutureContext<int, S> shared state of Future/Promise
#include "babylon/future.h"
namespace babylon_vf {
struct Sched {
  static constexpr bool futex_need_create() noexcept { return false; }
  static uint32_t* create_futex() noexcept;
  static void destroy_futex(uint32_t*) noexcept;
  static int futex_wait(uint32_t*, uint32_t, const struct ::timespec*) noexcept;
  static int futex_wake_one(uint32_t*) noexcept;
  static int futex_wake_all(uint32_t*) noexcept;
  static void usleep(useconds_t) noexcept;
  static void yield() noexcept;
};
struct Cb { void operator()(int&) noexcept; };
using FC = ::babylon::FutureContext<int, Sched>;
void force2(::babylon::Promise<int, Sched>& p) { p.set_value(7); }
bool force(FC& c, Cb& cb) {
  c.set_value(1);
  c.on_finish(cb);
  (void)c.get();
  return c.wait_for(::std::chrono::nanoseconds(5)) && c.ready(::std::memory_order_acquire);
}
}
