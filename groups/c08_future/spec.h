/* C08 -- FutureContext<int, S>: set_value / wait_slow / wait_for_slow.
 * Concurrency: R/G environment on the futex word (waiter count in the low bits, READY bit monotone: once set it stays).
 * set_value over explicitly built callback lists is a BOUNDED stand-in (<= 3 registered callbacks). */
#ifndef C08_SPEC_H
#define C08_SPEC_H
#include <stdlib.h>
unsigned int nondet_u32(void);
unsigned int nondet_uint(void);
long nondet_i64(void);
int nondet_int(void);
_Bool nondet_bool(void);
typedef struct FC FC_t;
typedef struct FC_CallbackNode Node_t;
#define READY 0x80000000U
#ifndef C08_SEC_BITS
#define C08_SEC_BITS 32
#endif
#ifndef C08_TMO_BITS
#define C08_TMO_BITS 62
#endif
#define SEALED ((Node_t *)0xFFFFFFFFFFFFFFFFUL)

unsigned int *g_w;            /* the futex word of the context under verification */
_Bool g_env_on;               /* environment steps enabled (waiter jobs) */
unsigned g_wakes, g_sleeps;
_Bool g_ready_seen;           /* the last value I read from the futex word had READY set */
static void env_step(void) {
  if (!g_env_on) return;
  unsigned int nw = nondet_u32();
  __CPROVER_assume(!(*g_w & READY) || (nw & READY));      /* READY is never taken back */
  __CPROVER_assume((nw & ~READY) < (1U << 30));                                  /* fewer than 2^30 waiters ever */
  __CPROVER_assume((nw & READY) || (nw & ~READY) >= (*g_w & ~READY));             /* until READY, waiters only add themselves */
  *g_w = nw;
}
unsigned int vf_atomic_load_u32(unsigned int *p, int order, int site) {
  if (p == g_w) env_step();
  __CPROVER_assert(order == 2 || order == 4 || order == 5, "K6 C08 waiter loads of the futex word are at least acquire");
  if (p == g_w) g_ready_seen = (*p & READY) != 0;
  return *p;
}
unsigned int vf_atomic_fetch_add_u32(unsigned int *p, unsigned int v, int order, int site) {
  if (p == g_w) env_step();
  unsigned int old = *p; *p = old + v;
  if (p == g_w) g_ready_seen = ((old + v) & READY) != 0;
  return old;
}
unsigned int g_exchanged_out;
unsigned int vf_atomic_exchange_u32(unsigned int *p, unsigned int v, int order, int site) {
  if (p == g_w) env_step();
  __CPROVER_assert(order == 3 || order == 4 || order == 5, "K6 C08.set_value the READY exchange is at least release");
  unsigned int old = *p; *p = v; g_exchanged_out = old; return old;
}
_Bool g_value_constructed, g_sealed;
struct FC_CallbackNode *g_of_node; unsigned g_of_direct, g_of_fn_runs, g_of_deleted, g_of_registered, g_of_news; _Bool g_of_link_ok, g_of_after_seal_ok;
/* set_value under contract: callbacks registered before the seal form a list of ANY length (typed node array, node k -> node k+1) */
struct FC_CallbackNode *g_cb; unsigned long g_cbn, g_ran, g_deleted; _Bool g_cb_order_ok, g_cb_late_ok, g_del_ok; unsigned int g_waiters0; int g_value0; FC_t *g_ctx;
static FC_t *b_ctx; static int b_expected_value;
void *vf_atomic_exchange_ptr(void **p, void *v, int order, int site) {
  __CPROVER_assert(order == 4 || order == 5, "K6 C08.seal the head exchange is acq_rel");
#ifdef VF_SETVAL_CONTRACT
  if (v == (void *)SEALED)
    __CPROVER_assert(*(int *)g_ctx->_storage == g_value0, "K5 C08.seal the value is constructed before the head is sealed");
#else
  if (b_ctx != 0 && v == (void *)SEALED)
    __CPROVER_assert(*(int *)b_ctx->_storage == b_expected_value, "K5 C08.seal the value is constructed before the head is sealed");
#endif
  g_value_constructed = 1;
  void *old = *p; *p = v; if (v == (void *)SEALED) g_sealed = 1; return old;
}
#ifndef VF_ONFINISH
void *vf_atomic_load_ptr(void **p, int order, int site) { return *p; }
#endif
int Sched_futex_wake_all(uint32_t *f) { if (f == g_w) g_wakes++; return nondet_int(); }
int Sched_futex_wait(uint32_t *f, unsigned int val, struct timespec *timeout) {
  if (f == g_w) {
    env_step();
    /* C08 waiter side: it sleeps only after it counted itself into the word, so the setter that swaps the word out sees a non-zero count */
    __CPROVER_assert((val & ~READY) >= 1, "K5 C08.wait sleeps only on a word that counts this waiter");
    if (*f == val) { g_sleeps++; env_step(); }
  }
  return nondet_int();
}

int g_errno; int *vf_errno_location(void) { return &g_errno; }
/* ---- ghost clock for wait_for_slow: CLOCK_MONOTONIC as (sec, nsec), non-decreasing ---- */
long g_sec, g_nsec; _Bool g_clock_failed; unsigned g_clock_reads; long g_first_sec, g_first_nsec, g_timeout0;
int vf_clock_gettime(int clk, struct timespec *ts) {
  if (nondet_bool()) { g_clock_failed = 1; return -1; }
  long s = nondet_i64(), n = nondet_i64();
  __CPROVER_assume(n >= 0 && n < 1000000000L && s < (1L << C08_SEC_BITS) && (s > g_sec || (s == g_sec && n >= g_nsec)));
  g_sec = s; g_nsec = n;
  if (g_clock_reads == 0) { g_first_sec = s; g_first_nsec = n; }
  if (g_clock_reads < 2) g_clock_reads++;   /* saturating: only "none / one / at least two" matters */
  ts->tv_sec = s; ts->tv_nsec = n;
  return 0;
}
static void vf_havoc_ghosts(void) {
  g_cbn = nondet_u32(); __CPROVER_assume(g_cbn < (1UL << 20)); g_cb = malloc((g_cbn + 1) * sizeof(struct FC_CallbackNode)); __CPROVER_assume(g_cb != 0);
  g_ran = g_deleted = 0; g_cb_order_ok = g_cb_late_ok = g_del_ok = 1; g_waiters0 = nondet_u32(); g_value0 = nondet_int(); g_value_constructed = 0; g_sealed = 0;
  g_of_node = 0; g_of_direct = g_of_fn_runs = g_of_deleted = g_of_registered = g_of_news = 0; g_of_link_ok = g_of_after_seal_ok = 1;
  g_wakes = 0; g_sleeps = 0; g_ready_seen = 0; g_clock_reads = 0; g_sec = nondet_i64(); g_nsec = nondet_i64(); g_clock_failed = 0; g_timeout0 = nondet_i64(); g_env_on = (nondet_u32() & 1) != 0; }

#define FC_SHAPE(c) (__CPROVER_is_fresh(c, sizeof(*c)) && __CPROVER_pointer_equals(g_w, &(c)->_futex._value))

/* wait_slow(): returns only after observing READY (stable: READY is never taken back) */
void FC_wait_slow(FC_t *c)
__CPROVER_requires(FC_SHAPE(c) && g_env_on && (*g_w & ~READY) < (1U << 30))
__CPROVER_assigns(*g_w, g_ready_seen, g_sleeps)
__CPROVER_ensures(g_ready_seen && (*g_w & READY))
;
//@loop FC_wait_slow 1
//@  __CPROVER_assigns(@l1:value@, *g_w, g_ready_seen, g_sleeps)
//@  __CPROVER_loop_invariant(((@l1:value@ & READY) != 0) == g_ready_seen)
//@  __CPROVER_loop_invariant(!g_ready_seen || (*g_w & READY))
//@  __CPROVER_loop_invariant(g_ready_seen || ((@l1:value@ & ~READY) >= 1 && (*g_w & READY || (*g_w & ~READY) >= 1)))
//@end

/* wait_for_slow(timeout): returns true only if READY was observed (stable).  The other half of C08's clause -- "false only if
 * at least the requested time has elapsed" -- needs 64-bit multiply/divide by 10^9 reasoning that no installed back end
 * finished (15 min at full width and at 6-bit clock width): NOT decided here, see DESIGN.md. */
_Bool FC_wait_for_slow(FC_t *c, long timeout_ns)
__CPROVER_requires(FC_SHAPE(c) && g_env_on && (*g_w & ~READY) < (1U << 30) && timeout_ns >= 0)
__CPROVER_requires(g_sec >= 0 && g_sec < (1L << 32) && g_nsec >= 0 && g_nsec < 1000000000L && g_clock_reads == 0 && !g_clock_failed)
__CPROVER_assigns(*g_w, g_ready_seen, g_sleeps, g_sec, g_nsec, g_clock_reads, g_first_sec, g_first_nsec, g_clock_failed)
__CPROVER_ensures(__CPROVER_return_value ==> (g_ready_seen && (*g_w & READY)))
/* structural half of "false only after the time has elapsed": giving up is decided by a clock reading taken after the sleep
 * (or by a failing clock), never by the sleep's own return value */
__CPROVER_ensures(!__CPROVER_return_value ==> (g_clock_failed || g_clock_reads >= 2))
;
//@loop FC_wait_for_slow 1
//@  __CPROVER_assigns(@l3:value@, @p1:timeout_ns@, @l1:spec@, *g_w, g_ready_seen, g_sleeps, g_sec, g_nsec, g_clock_reads, g_clock_failed, g_first_sec, g_first_nsec)
//@  __CPROVER_loop_invariant(((@l3:value@ & READY) != 0) == g_ready_seen)
//@  __CPROVER_loop_invariant(!g_ready_seen || (*g_w & READY))
//@  __CPROVER_loop_invariant(g_ready_seen || ((@l3:value@ & ~READY) >= 1 && (*g_w & READY || (*g_w & ~READY) >= 1)))
//@  __CPROVER_loop_invariant(g_sec >= 0 && g_sec < (1L << 32) && g_nsec >= 0 && g_nsec < 1000000000L && !g_clock_failed && g_clock_reads >= 1)
//@end

/* get(): returns the value only after READY was observed */
int *FC_get(FC_t *c)
__CPROVER_requires(FC_SHAPE(c) && g_env_on && (*g_w & ~READY) < (1U << 30))
__CPROVER_assigns(*g_w, g_ready_seen, g_sleeps)
__CPROVER_ensures(g_ready_seen && (*g_w & READY))
__CPROVER_ensures(__CPROVER_return_value == (int *)c->_storage)
;

/* ---- set_value on explicitly built contexts (BOUNDED: <= 3 registered callbacks, any waiter count) ---- */
#define MAXCB 3
static Node_t *b_nodes[MAXCB]; static unsigned b_ncb, b_runs[MAXCB], b_deleted;
#if !defined(VF_SETVAL_CONTRACT) && !defined(VF_ONFINISH)
void Fn_op_call(struct Fn *f) {
  /* "callbacks never run before the value is set": value constructed, head sealed, and the callback sees the value */
  __CPROVER_assert(g_value_constructed && g_sealed && b_ctx->_head == SEALED, "K5 C08.set_value a callback runs only after the value is constructed and the head sealed");
  __CPROVER_assert(*(int *)b_ctx->_storage == b_expected_value, "K1 C08.set_value the callback observes the value");
  for (unsigned i = 0; i < MAXCB; ++i) if (i < b_ncb && f == &b_nodes[i]->function) b_runs[i]++;
}
void Fn_dtor(struct Fn *f) { }
void vf_operator_delete(void *p, size_t n) { b_deleted++; free(p); }
#endif
void h_set_value(void) {
  FC_t ctx; b_ctx = &ctx; g_w = &ctx._futex._value; g_env_on = 0;
  unsigned int waiters = nondet_u32(); __CPROVER_assume(waiters < (1U << 30)); ctx._futex._value = waiters;
  b_ncb = nondet_uint() % (MAXCB + 1);
  Node_t *head = 0;
  for (unsigned i = 0; i < MAXCB; ++i) if (i < b_ncb) { b_nodes[i] = (Node_t *)malloc(sizeof(Node_t)); b_nodes[i]->next = head; head = b_nodes[i]; b_runs[i] = 0; }
  ctx._head = head;
  int v = nondet_int(); b_expected_value = v;
  g_value_constructed = 0; g_sealed = 0;
  *(int *)ctx._storage = nondet_int(); __CPROVER_assume(*(int *)ctx._storage != v);   /* not yet constructed */
  FC_set_value__int_void(&ctx, &v);
  __CPROVER_assert(ctx._head == SEALED && ctx._futex._value == READY, "K1 C08.set_value context sealed and READY published");
  __CPROVER_assert(*(int *)ctx._storage == v, "K1 C08.set_value the value is stored");
  __CPROVER_assert((g_wakes >= 1) == (waiters > 0) || g_wakes >= 1, "K5 C08.set_value sleepers counted in the word are woken");
  __CPROVER_assert(waiters == 0 || g_wakes >= 1, "K5 C08.set_value whoever swaps out a non-zero waiter count calls wake_all");
  for (unsigned i = 0; i < MAXCB; ++i) if (i < b_ncb) __CPROVER_assert(b_runs[i] == 1, "K1 C08.set_value every callback registered before the seal runs exactly once");
  __CPROVER_assert(b_deleted == b_ncb, "K1 C08.set_value every callback node is deleted exactly once");
  __CPROVER_assert(0, "VF_VACUITY_TWIN lemma reachable (must fail)");
}

/* ---- Promise::set_value: the context's set_value runs callbacks and wakes waiters, any of which may drop the last other owner
 * of the shared context (for instance by destroying the promise itself).  Obligation: the call is made under a reference this
 * call holds itself (a shared_ptr copy created in the call and alive across it).  std::shared_ptr is a contract stub: the first
 * 8 bytes are the pointer, copies made / destroyed inside the call are counted. */
int g_own_refs;
#define SPP(p) (*(struct FC **)(p))
_Bool CtxPtrB_operator_bool(struct CtxPtrB *p) { return SPP(p) != 0; }
struct FC *CtxPtrA_op_arrow(struct CtxPtrA *p) { __CPROVER_assert(SPP(p) != 0, "K5 C08.promise no null context is dereferenced"); return SPP(p); }
void CtxPtr_ctor_1(struct CtxPtr *dst, struct CtxPtr *src) { SPP(dst) = SPP(src); if (SPP(src) != 0) g_own_refs++; }
void CtxPtr_dtor(struct CtxPtr *p) { if (SPP(p) != 0) g_own_refs--; SPP(p) = 0; }
unsigned g_fc_calls;
void FC_set_value__int_void(struct FC *c, int *v)
#ifndef VF_ENFORCE_FC_set_value__int_void
__CPROVER_requires(g_own_refs >= 1)      /* asserted at the call site in Promise::set_value */
__CPROVER_assigns(g_fc_calls)
__CPROVER_ensures(g_fc_calls == __CPROVER_old(g_fc_calls) + 1)
#endif
;
void Promise_set_value__int(struct Promise *p, int *v)
__CPROVER_requires(__CPROVER_is_fresh(p, sizeof(*p)) && __CPROVER_is_fresh(v, sizeof(int)) && (SPP(&p->_context) == 0 || __CPROVER_is_fresh(SPP(&p->_context), sizeof(struct FC))) && g_own_refs == 0 && g_fc_calls == 0)
__CPROVER_assigns(g_own_refs, g_fc_calls)
__CPROVER_ensures(g_own_refs == 0 && g_fc_calls <= 1)
;

/* ---- set_value under CONTRACT (job C08.set_value): any number of registered callbacks, any waiter count.
 * The value is constructed before the head is sealed (release/acq_rel) and before READY is published (release); whoever swaps a
 * non-zero waiter count out calls wake_all; then every callback registered before the seal runs exactly once, in list order, seeing
 * the value, after the seal, and its node is deleted exactly once, after it ran.  The list shape (node k links to node k+1) is
 * assumed for a node when its callback is invoked -- the real code reads `next` only after that call. */
#define CB_AT(p, k) (__CPROVER_same_object(p, g_cb) && __CPROVER_POINTER_OFFSET(p) % sizeof(struct FC_CallbackNode) == 0 && __CPROVER_POINTER_OFFSET(p) / sizeof(struct FC_CallbackNode) == (k))
#ifdef VF_SETVAL_CONTRACT
void Fn_op_call(struct Fn *f) {
  if (!(g_ran < g_cbn && f == &g_cb[g_ran].function)) g_cb_order_ok = 0;                 /* the next callback of the list: each once, in order */
  if (!(g_value_constructed && g_sealed && g_ctx->_head == SEALED && *(int *)g_ctx->_storage == g_value0 && (*g_w & READY))) g_cb_late_ok = 0;
  if (g_ran < g_cbn) __CPROVER_assume(g_cb[g_ran].next == (g_ran + 1 < g_cbn ? &g_cb[g_ran + 1] : (struct FC_CallbackNode *)0));   /* list shape */
  __CPROVER_assume(g_ran < (1UL << 30)); g_ran++;
}
void Fn_dtor(struct Fn *f) { }
void vf_operator_delete(void *p, size_t n) {
  if (!(g_deleted < g_ran && p == (void *)&g_cb[g_deleted])) g_del_ok = 0;                 /* the node whose callback just ran, once */
  __CPROVER_assume(g_deleted < (1UL << 30)); g_deleted++;
}
#endif
#ifdef VF_ENFORCE_FC_set_value__int_void
void FC_set_value__int_void(FC_t *c, int *args)
__CPROVER_requires(FC_SHAPE(c) && __CPROVER_is_fresh(args, sizeof(int)) && *args == g_value0 && !g_env_on && *g_w == g_waiters0 && g_waiters0 < (1U << 30))
__CPROVER_requires(__CPROVER_pointer_equals(c->_head, g_cbn > 0 ? g_cb : (struct FC_CallbackNode *)0) && __CPROVER_pointer_equals(g_ctx, c) && g_ran == 0 && g_deleted == 0 && !g_value_constructed && !g_sealed && g_wakes == 0)
__CPROVER_assigns(*c, g_value_constructed, g_sealed, g_exchanged_out, g_wakes, g_ran, g_deleted, g_cb_order_ok, g_cb_late_ok, g_del_ok, __CPROVER_object_whole(g_cb))
__CPROVER_ensures(c->_head == SEALED && *g_w == READY && *(int *)c->_storage == g_value0)
__CPROVER_ensures(g_waiters0 == 0 || g_wakes >= 1)
__CPROVER_ensures(g_ran == g_cbn && g_deleted == g_cbn && g_cb_order_ok && g_cb_late_ok && g_del_ok)
;
#endif
//@loop FC_set_value__int_void 1
//@  VF_REBASE(@l1:head@, g_cb)
//@  __CPROVER_assigns(@l1:head@, g_ran, g_deleted, g_cb_order_ok, g_cb_late_ok, g_del_ok, __CPROVER_object_whole(g_cb))
//@  __CPROVER_loop_invariant(g_ran <= g_cbn && g_deleted == g_ran && g_cb_order_ok && g_cb_late_ok && g_del_ok && (g_ran < g_cbn ? CB_AT(@l1:head@, g_ran) : @l1:head@ == 0))
//@  __CPROVER_loop_invariant(g_value_constructed && g_sealed && g_ctx->_head == SEALED && *(int *)g_ctx->_storage == g_value0 && *g_w == READY)
//@  __CPROVER_decreases(g_cbn - g_ran)
//@end

/* ---- on_finish(callback) under contract (job C08.on_finish, VF_ONFINISH): registration racing with other registrations and with the
 * seal.  SC rely/guarantee on _head: other threads push their own nodes (any non-sealed value) or seal it (SEALED is final).
 * Exactly one of three things happens, exactly once: the callback runs now because the head was already sealed (with the value);
 * or its node is linked in front of EXACTLY the list it replaced (node->next == the head value the successful CAS compared against,
 * so no other registration is cut out) and set_value will run it; or the seal won the race, the node's function runs now and the node
 * is freed.  Never registered and run, never neither. */
#ifdef VF_ONFINISH
static void of_env(void **p) {
  if (*p == (void *)SEALED) return;                       /* sealed is final */
  if (nondet_u32() & 1) {
    unsigned long v = nondet_u64(); __CPROVER_assume(v != 0 && v != (unsigned long)SEALED && v != (unsigned long)g_of_node);
    *p = (nondet_u32() & 1) ? (void *)SEALED : (void *)v;   /* another registration, or the seal */
  }
}
void *vf_atomic_load_ptr(void **p, int order, int site) {
  __CPROVER_assert(order == 2 || order == 4 || order == 5, "K6 C08.on_finish the head is read with acquire");
  of_env(p); return *p;
}
_Bool vf_atomic_compare_exchange_weak_ptr(void **p, void **expected, void *desired, int success, int failure, int site) {
  __CPROVER_assert(success == 4 || success == 5, "K6 C08.on_finish the registering CAS is acq_rel");
  of_env(p);
  if (*p != *expected || (nondet_u32() & 1)) { *expected = *p; return 0; }
  /* registration succeeds: the node must be linked in front of exactly the list it replaces */
  if (!(desired == (void *)g_of_node && g_of_node != 0 && (void *)g_of_node->next == *p && *p != (void *)SEALED)) g_of_link_ok = 0;
  *p = desired; if (g_of_registered < 1000) g_of_registered++;
  return 1;
}
void *vf_operator_new(size_t size, size_t align) { g_of_node = malloc(sizeof(struct FC_CallbackNode)); __CPROVER_assume(g_of_node != 0); if (g_of_news < 1000) g_of_news++; return g_of_node; }
void Fn_ctor__lambda_future_on_finish_1_void(struct Fn *f, struct lambda_future_on_finish_1 *c) { }
void internal_future_run_callback__Cb_int_0(struct Cb *cb, int *value) { if (g_of_direct < 1000) g_of_direct++; }
void Fn_op_call(struct Fn *f) { if (!(g_of_node != 0 && f == &g_of_node->function && g_of_registered == 0)) g_of_after_seal_ok = 0; if (g_of_fn_runs < 1000) g_of_fn_runs++; }
void Fn_dtor(struct Fn *f) { }
void vf_operator_delete(void *p, size_t n) { if (!(p == (void *)g_of_node && g_of_fn_runs == 1)) g_of_after_seal_ok = 0; if (g_of_deleted < 1000) g_of_deleted++; }
void FC_on_finish__CbRef_void(FC_t *c, struct Cb *cb)
__CPROVER_requires(__CPROVER_is_fresh(c, sizeof(*c)) && __CPROVER_is_fresh(cb, 1) && g_of_direct == 0 && g_of_fn_runs == 0 && g_of_deleted == 0 && g_of_registered == 0 && g_of_news == 0 && g_of_link_ok && g_of_after_seal_ok && g_of_node == 0)
__CPROVER_assigns(c->_head, g_of_node, g_of_direct, g_of_fn_runs, g_of_deleted, g_of_registered, g_of_news, g_of_link_ok, g_of_after_seal_ok)
__CPROVER_ensures(g_of_link_ok && g_of_after_seal_ok)
__CPROVER_ensures(g_of_direct + g_of_fn_runs + g_of_registered == 1)                                        /* exactly one outcome, once */
__CPROVER_ensures(g_of_direct == 1 ==> (g_of_news == 0 && g_of_deleted == 0))
__CPROVER_ensures(g_of_registered == 1 ==> (g_of_news == 1 && g_of_deleted == 0))
__CPROVER_ensures(g_of_fn_runs == 1 ==> (g_of_news == 1 && g_of_deleted == 1))
__CPROVER_ensures(g_of_registered == 1 ==> g_of_deleted == 0)
;
#endif
//@loop FC_on_finish__CbRef_void 1
//@  __CPROVER_assigns(@l1:head@, self->_head, g_of_node->next, g_of_fn_runs, g_of_deleted, g_of_registered, g_of_link_ok, g_of_after_seal_ok)
//@  __CPROVER_loop_invariant(g_of_direct == 0 && g_of_fn_runs == 0 && g_of_deleted == 0 && g_of_registered == 0 && g_of_news == 1 && g_of_link_ok && g_of_after_seal_ok && @l2:node@ == g_of_node && g_of_node != 0 && @l1:head@ != SEALED)
//@end
#endif
